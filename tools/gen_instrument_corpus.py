#!/usr/bin/env python3
"""Generates the #[instrument] twin corpus of C17: harness/vh/src/bin/instr/corpus.rs (one module per
twin: `plain`, the identical `inst` carrying the attribute, and a runner) and
harness/vh/corpus/instr.json (what the specification expects of each twin: kind, span name / level /
target / parent, expected fields per input, ret/err configuration).  Deterministic."""
import json
import random
from pathlib import Path

V = Path(__file__).resolve().parent.parent
OUT_RS = V / "harness/vh/src/bin/instr/corpus.rs"
OUT_JSON = V / "harness/vh/corpus/instr.json"
LEVELS = ["ERROR", "WARN", "INFO", "DEBUG", "TRACE"]

# argument shapes: (declaration, how the runner builds + passes it, fields it contributes {name: debug text}, type class)
#   Tok(id): Debug "Tok(id)", Display "tok-id", logs clone/drop effects


def arg_catalog(k):
    return {
        "tok_val":   dict(decl="a: Tok", setup="let a = Tok(11);", pass_="a", fields={"a": "Tok(11)"}),
        "tok_ref":   dict(decl="b: &Tok", setup="let b = Tok(12);", pass_="&b", fields={"b": "Tok(12)"}),
        "tok_mut":   dict(decl="c: &mut Tok", setup="let mut c = Tok(13);", pass_="&mut c", fields={"c": "Tok(13)"}),
        "mut_val":   dict(decl="mut d: Tok", setup="let d = Tok(14);", pass_="d", fields={"d": "Tok(14)"}),
        "tuple":     dict(decl="(x, y): (Tok, u32)", setup="let xy = (Tok(15), 7u32);", pass_="xy", fields={"x": "Tok(15)", "y": "7"}),
        "strukt":    dict(decl="Pair { p, q }: Pair", setup="let pq = Pair { p: Tok(16), q: 9 };", pass_="pq", fields={"p": "Tok(16)", "q": "9"}),
        "generic":   dict(decl="g: T", setup="let g = Tok(17);", pass_="g", fields={"g": "Tok(17)"}, generic="T: std::fmt::Debug"),
        "impl_tr":   dict(decl="i: impl std::fmt::Debug", setup="let i = Tok(18);", pass_="i", fields={"i": "Tok(18)"}),
        "str_ref":   dict(decl="s: &str", setup="let s = String::from(\"s-val\");", pass_="&s", fields={"s": "s-val"}),
        "flag":      dict(decl="f: bool", setup="let f = true;", pass_="f", fields={"f": "true"}, m={"f": "bool"}),
        # primitive types are recorded as typed values also when they are spelled with a path, behind a reference, or generic
        "qual_string": dict(decl="t: std::string::String", setup="let t = String::from(\"q-val\");", pass_="t", fields={"t": "q-val"}, m={"t": "str"}),
        "wrapping":  dict(decl="w: std::num::Wrapping<u8>", setup="let w = std::num::Wrapping(7u8);", pass_="w", fields={"w": "7"}, m={"w": "u64"}),
        # a parameter that merely happens to be called `_self` (not the async-trait helper shape): recorded under its own name
        "uself":     dict(decl="_self: Tok", setup="let us = Tok(19);", pass_="us", fields={"_self": "Tok(19)"}, m={"_self": "debug"}),
        "nz_ref":    dict(decl="z: &std::num::NonZeroU32", setup="let z = std::num::NonZeroU32::new(9).unwrap();", pass_="&z", fields={"z": "9"}, m={"z": "u64"}),
    }
# the visitor method each argument field must arrive through ("any": not pinned down by the documentation)
METH_DEFAULT = {"a": "debug", "b": "debug", "c": "debug", "d": "debug", "x": "any", "y": "any", "p": "any", "q": "any", "g": "debug", "i": "debug",
                "s": "str", "n": "u64", "self": "debug"}


class Gen:
    def __init__(self, seed):
        self.rng = random.Random(seed)
        self.twins = []
        self.rs = []

    def twin(self, kind, argkeys, ret, recv=None, attr=None):
        """kind: sync|async|boxed; ret: unit|value|tok|result|impl|early|question|panic ; recv: None|ref|mut|val"""
        rng = self.rng
        attr = dict(attr or {})
        k = len(self.twins)
        cat = arg_catalog(k)
        argkeys = list(dict.fromkeys(argkeys))
        boxstyle = ""
        if kind in ("boxed_q", "boxed_fn"):
            boxstyle, kind = kind, "boxed"
        if boxstyle == "boxed_fn":
            argkeys = [a for a in argkeys if a in ("tok_val", "mut_val", "flag", "qual_string", "wrapping")]
        if recv or boxstyle == "boxed_fn":
            argkeys = [a for a in argkeys if a != "uself"]
        if kind == "boxed":
            argkeys = [a for a in argkeys if a not in ("impl_tr", "generic", "tok_mut", "str_ref", "tok_ref", "nz_ref")]
        if kind != "sync":
            argkeys = [a for a in argkeys if a != "impl_tr" or kind == "async"]
        args = [cat[a] for a in argkeys]
        decls = [a["decl"] for a in args] + ["n: u32"]
        generics = [a["generic"] for a in args if "generic" in a]
        fields = {}
        meths = dict(METH_DEFAULT)
        for a in args:
            fields.update(a["fields"])
            meths.update(a.get("m", {}))
        fields["n"] = "{n}"
        if recv:
            decls = [{"ref": "&self", "mut": "&mut self", "val": "self"}[recv]] + decls
            fields["self"] = "Obj(Tok(10))"
        # ---- return shape and body ----------------------------------------------------------
        if ret == "factory" and kind != "async":
            ret = "value"
        rty = {"unit": "()", "value": "u32", "tok": "Tok", "result": "Result<u32, MyErr>", "impl": "impl std::fmt::Debug",
               "early": "u32", "question": "Result<u32, MyErr>", "panic": "u32", "factory": "impl std::future::Future<Output = u32>"}[ret]
        if kind == "boxed" and ret == "impl":
            ret, rty = "value", "u32"
        y = "yield_once().await;" if kind != "sync" else ""
        # like async_trait output, the (inner) body uses every argument, so that all of them are captured by the async block
        names = [nm for a in args for nm in a["fields"]] + ["n"] + (["self"] if recv else [])
        body = ["let _ = (%s);" % ", ".join("&" + nm for nm in names), 'effect("t%d:b0");' % k]
        if "tok_mut" in argkeys:
            body.append("c.0 += 100;")
        if "mut_val" in argkeys:
            body.append("d.0 += 100;")
        if y:
            body.append(y)
        if ret == "early":
            body.append('if n == 1 { effect("t%d:bearly"); return 41; }' % k)
        if ret == "question":
            body.append("let v = helper(n)?;")
        if ret == "panic":
            body.append('if n == 2 { panic!("boom-t%d"); }' % k)
        body.append('effect("t%d:b1");' % k)
        if "tok_val" in argkeys and rng.random() < 0.5:
            body.append("drop(a);")
        if y and rng.random() < 0.7:
            body.append(y)
            body.append('effect("t%d:b2");' % k)
        tail = {"unit": "", "value": "n + 1", "tok": "Tok(90)", "result": "if n == 3 { Err(MyErr(n)) } else { Ok(n + 2) }", "impl": "Tok(91)",
                "early": "n + 3", "question": "Ok(v + 1)", "panic": "n + 4",
                # an async fn that RETURNS another future: its own body runs in the span, the returned future does not
                "factory": 'async move { effect("t%d:inner0"); yield_once().await; effect("t%d:inner1"); n + 7 }' % (k, k)}[ret]
        if tail:
            body.append(tail)
        inputs = {"unit": [0], "value": [0, 5], "tok": [0], "result": [0, 3], "impl": [0], "early": [0, 1], "question": [0, 3], "panic": [0, 2], "factory": [0, 5]}[ret]
        # ---- attribute ------------------------------------------------------------------------
        parts = []
        name = "inst"
        if attr.get("name"):
            name = "custom name %d" % k
            parts.append('name = "%s"' % name)
        level = 3
        if attr.get("level"):
            level = attr["level"]
            parts.append(rng.choice(['level = "%s"' % LEVELS[level - 1].lower(), "level = tracing::Level::%s" % LEVELS[level - 1]]))
        target = None
        parent = "ctx"
        if attr.get("parent") == "none":
            parent = "root"
            parts.append("parent = None")
        elif attr.get("parent") == "span":
            parent = "given"
            decls.append("psp: &tracing::Span")
            parts.append("parent = psp")
            attr.setdefault("skip", []).append("psp")
        follows = False
        if attr.get("follows"):
            follows = True
            if "psp: &tracing::Span" not in decls:
                decls.append("psp: &tracing::Span")
                attr.setdefault("skip", []).append("psp")
            parts.append("follows_from = [psp.id()]")
        # another attribute on the function that changes what it returns: #[track_caller] - the body compares its caller's line
        # with the line the call site passes in (boxed-future shape only: the comparison sits in the outer fn, before the async block)
        track = bool(attr.get("track_caller")) and kind == "boxed" and boxstyle != "boxed_fn"
        if track:
            decls.append("line: u32")
            attr.setdefault("skip", []).append("line")
        # (attr.rs rejects `parent` / `follows_from` written after `target`, so `target` comes last of the three)
        if attr.get("target"):
            target = "tw::t%d" % (k % 4)
            parts.append('target = "%s"' % target)
        # (`_self` is never skipped: a mis-expansion that renames it must still compile to be caught)
        skip = [s for s in attr.get("skip", []) if (s in ("psp", "line") or s in fields) and s != "_self"]
        if attr.get("skip_all"):
            parts.append("skip_all")
            fields = {}
        elif skip:
            parts.append("skip(%s)" % ", ".join(skip))
            for s in skip:
                fields.pop(s, None)
        custom = []
        cfs = list(attr.get("fields", []))
        if "sh_dbg_b" in cfs and "sh_disp_b" in cfs:
            cfs.remove("sh_disp_b")
        for cf in cfs:
            if cf == "expr":
                custom.append("extra = n + 1")
                fields["extra"] = "{n+1}"
            elif cf == "disp" and "tok_ref" in argkeys:
                custom.append("who = %b")
                fields["who"] = "tok-12"
            elif cf == "dbg" and "tok_ref" in argkeys:
                custom.append("dbg = ?b")
                fields["dbg"] = "Tok(12)"
            elif cf == "sigil_dbg":
                custom.append("?n")       # leading sigil shorthand: overrides the argument's own field
                fields["n"] = "{n}"
            elif cf == "sh_dbg_b" and "tok_ref" in argkeys:
                custom.append("?b")       # Debug and Display of a Tok differ
                fields["b"] = "Tok(12)"
            elif cf == "sh_disp_b" and "tok_ref" in argkeys:
                custom.append("%b")
                fields["b"] = "tok-12"
            elif cf == "lit":
                custom.append('lit = "x y"')
                fields["lit"] = "x y"
            elif cf == "dotted":
                custom.append("a.b = 5")
                fields["a.b"] = "5"
            elif cf == "override" and "flag" in argkeys:
                custom.append("f = n")     # a custom field replaces the argument of the same name
                fields["f"] = "{n}"
        for cf_name in [c.split("=")[0].strip().lstrip("?%") for c in custom]:
            meths[cf_name] = "any"
        if custom:
            parts.append("fields(%s)" % ", ".join(custom))
        retcfg = None
        if attr.get("ret") and ret not in ("unit", "factory"):
            mode = attr["ret"]
            if mode == "display" and ret not in ("value", "tok", "early", "panic"):
                mode = "debug"
            rl = attr.get("ret_level")
            inner = [x for x in [("Display" if mode == "display" else ("Debug" if mode == "debug_explicit" else None)),
                                 ("level = tracing::Level::%s" % LEVELS[rl - 1]) if rl else None] if x]
            parts.append("ret" + ("(%s)" % ", ".join(inner) if inner else ""))
            retcfg = {"mode": "display" if mode == "display" else "debug", "level": rl or level}
        errcfg = None
        if attr.get("err") and ret in ("result", "question"):
            mode = attr["err"]
            el = attr.get("err_level")
            inner = [x for x in [("Debug" if mode == "debug" else ("Display" if mode == "display_explicit" else None)),
                                 ("level = tracing::Level::%s" % LEVELS[el - 1]) if el else None] if x]
            parts.append("err" + ("(%s)" % ", ".join(inner) if inner else ""))
            errcfg = {"mode": "debug" if mode == "debug" else "display", "level": el or 1}
        attr_txt = "#[tracing::instrument(%s)]" % ", ".join(parts) if parts else "#[tracing::instrument]"
        # ---- source -----------------------------------------------------------------------------
        gen = ("<%s>" % ", ".join(generics)) if generics else ""
        sig = "(%s) -> %s" % (", ".join(decls), rty)
        bodytxt = "\n        ".join(body)

        def fn(nm, at):
            if kind == "sync":
                return "    %s\n    pub fn %s%s%s {\n        %s\n    }" % (at, nm, gen, sig, bodytxt)
            if kind == "async":
                return "    %s\n    pub async fn %s%s%s {\n        %s\n    }" % (at, nm, gen, sig, bodytxt)
            lt_decls = [d.replace("&", "&'a ") if d.startswith(("b:", "c:", "s:", "psp:")) or d in ("&self", "&mut self") else d for d in decls]
            lt_decls = [d.replace("&'a self", "&'a self").replace("&'a mut self", "&'a mut self") for d in lt_decls]
            lt_decls = ["&'a self" if d == "&self" else "&'a mut self" if d == "&mut self" else d for d in lt_decls]
            g2 = "<'a%s>" % ("".join(", " + g for g in generics))
            if boxstyle == "boxed_fn":
                # the older async-trait shape: a helper `async fn` defined in the body, Box::pin(helper(args))
                names_only = [("self" if d in ("&self", "&mut self", "self") else d.split(":")[0].replace("mut ", "").strip()) for d in decls]
                outer = [(d if "self" in d.split(":")[0] else d.replace("mut ", "")) for d in lt_decls]
                # the helper takes the receiver as `_self` (what async-trait used to generate); the attribute presents it as `self`
                hdecls = [{"&self": "_self: &Obj", "&mut self": "_self: &mut Obj", "self": "_self: Obj"}.get(d, d) for d in decls]
                hbody = bodytxt.replace("&self", "&_self") if recv else bodytxt
                return ("    %s\n    pub fn %s%s(%s) -> std::pin::Pin<Box<dyn std::future::Future<Output = %s> + 'a>> {\n        effect(\"t%d:pre\");\n"
                        "        async fn __helper(%s) -> %s {\n        %s\n        }\n        Box::pin(__helper(%s))\n    }") % (
                            at, nm, g2, ", ".join(outer), rty, k, ", ".join(hdecls), rty, hbody, ", ".join(names_only))
            pin = "std::boxed::Box::pin" if boxstyle == "boxed_q" else "Box::pin"
            tc = ""
            if track:
                at = ("#[track_caller]\n    " + at) if (k % 2 == 0 or not at) else (at + "\n    #[track_caller]")
                tc = ("        if std::panic::Location::caller().line() == line { effect(\"t%d:caller-ok\"); } else { effect(\"t%d:caller-lost\"); }\n" % (k, k))
            return ("    %s\n    pub fn %s%s(%s) -> std::pin::Pin<Box<dyn std::future::Future<Output = %s> + 'a>> {\n        effect(\"t%d:pre\");\n%s"
                    "        %s(async move {\n        %s\n        })\n    }") % (at, nm, g2, ", ".join(lt_decls), rty, k, tc, pin, bodytxt)
        setup = [a["setup"] for a in args]
        passes = [a["pass_"] for a in args] + ["n"]
        if "psp: &tracing::Span" in decls:
            passes.append("&env.psp")
        if track:
            passes.append("line!()")
        callee = "{f}"
        if recv:
            setup.append({"ref": "let o = Obj(Tok(10));", "mut": "let mut o = Obj(Tok(10));", "val": "let o = Obj(Tok(10));"}[recv])
            callee = "o.{f}"
        call = callee + "(%s)" % ", ".join(passes)
        aw = (".await.await" if ret == "factory" else ".await") if kind != "sync" else ""
        describe = "describe(&r)" if ret != "unit" else "String::from(\"()\")"
        run_body = "        %s\n        let out = if which { let r = %s%s; %s } else { let r = %s%s; %s };\n        effect(\"t%d:returned\");\n        out" % (
            "\n        ".join(setup), call.format(f="inst" if not recv else "inst"), aw, describe, call.format(f="plain"), aw, describe, k)
        if recv:
            fns = "    impl Obj {\n%s\n%s\n    }" % (fn("plain", ""), fn("inst", attr_txt))
            head = "    obj_type!();"
        else:
            fns = "%s\n%s" % (fn("plain", ""), fn("inst", attr_txt))
            head = ""
        if kind == "sync":
            runner = "    pub fn run(which: bool, n: u32, env: &Env) -> String {\n%s\n    }\n    pub fn mk(which: bool, n: u32, env: Env) -> Fut { Box::pin(async move { run(which, n, &env) }) }" % run_body
        else:
            runner = "    pub fn mk(which: bool, n: u32, env: Env) -> Fut {\n        Box::pin(async move {\n%s\n        })\n    }" % run_body
        # boxed-future twins with ret / err are compiled only with feature `fragile` (default on): if a change to the attribute
        # makes them uncompilable, the check falls back to the rest of the corpus instead of giving up
        fragile = kind == "boxed" and bool(retcfg or errcfg)
        cfg = '#[cfg(feature = "fragile")]\n' if fragile else ""
        self.rs.append("%spub mod t%d {\n    use super::super::helpers::*;\n%s\n%s\n%s\n}" % (cfg, k, head, fns, runner))
        self.twins.append({"id": k, "kind": kind, "boxstyle": boxstyle, "ret": ret, "recv": recv or "", "args": argkeys, "attr": attr_txt, "name": name, "level": level,
                           "target": target or ("instr::corpus::t%d" % k), "parent": parent, "follows": follows, "fields": fields, "meths": {f: meths.get(f, "any") for f in fields},
                           "retcfg": retcfg or {"mode": "", "level": 0}, "errcfg": errcfg or {"mode": "", "level": 0}, "inputs": inputs,
                           "has_ret": bool(retcfg), "has_err": bool(errcfg), "fragile": fragile})

    def build(self, n):
        rng = self.rng
        kinds = ["sync", "async", "boxed"]
        rets = ["unit", "value", "tok", "result", "impl", "early", "question", "panic"]
        argk = list(arg_catalog(0))
        # systematic: kind x ret x {plain attribute, ret+err}
        for kind in kinds:
            for ret in rets:
                self.twin(kind, ["tok_val", "tok_ref"], ret)
                self.twin(kind, ["tok_val"], ret, attr={"ret": "debug", "err": "display"})
                self.twin(kind, [], ret, attr={"ret": "debug"})
                self.twin(kind, ["tok_ref"], ret, attr={"err": "debug"})
        # systematic: the other spellings of the boxed-future style
        for kind in ("boxed_q", "boxed_fn"):
            for ret in rets:
                self.twin(kind, ["tok_val"], ret)
                self.twin(kind, ["tok_val", "flag"], ret, attr={"ret": "debug", "err": "display"})
        # systematic: every argument shape x kind, every receiver x kind
        for kind in kinds:
            for a in argk:
                self.twin(kind, [a], rng.choice(rets), attr={"skip": []})
                self.twin(kind, [a, "tok_ref"], rng.choice(rets), attr={"skip": list(arg_catalog(0)[a]["fields"])[:1]})
            for recv in ("ref", "mut", "val"):
                self.twin(kind, ["tok_val"], rng.choice(rets), recv=recv)
                self.twin(kind, [], rng.choice(rets), recv=recv, attr={"skip": ["self"], "ret": "debug"})
        # systematic: a second, behaviour-changing attribute next to the instrument attribute (either order)
        for bk in ("boxed", "boxed_q"):
            for args in ([], ["flag"], ["tok_val"], ["tok_val", "flag"]):
                self.twin(bk, args, rng.choice(["value", "unit", "tok"]), attr={"track_caller": True})
                self.twin(bk, args, "value", attr={"track_caller": True, "name": True, "level": 2})
        # systematic: async fns returning another future; the helper-fn shape with each receiver
        # (Copy arguments only: a mis-expansion that moves the arguments into the returned future must still compile to be caught)
        for args in (["flag"], ["flag"], []):
            self.twin("async", args, "factory")
            self.twin("async", args, "factory", attr={"level": 2, "name": True})
        for recv in ("ref", "mut", "val"):
            for ret in ("value", "result", "unit"):
                self.twin("boxed_fn", ["tok_val"], ret, recv=recv)
        # systematic: every custom-field form x kind
        for kind in kinds:
            for cf in ["expr", "disp", "dbg", "sigil_dbg", "sh_dbg_b", "sh_disp_b", "lit", "dotted", "override"]:
                self.twin(kind if kind != "boxed" else "async", ["tok_ref", "flag"], rng.choice(rets), attr={"fields": [cf]})
        # random mixtures of attribute arguments
        while len(self.twins) < n:
            kind = rng.choice(kinds + ["boxed_q", "boxed_fn"])
            ak = rng.sample(argk, rng.randint(0, 3))
            attr = {}
            if rng.random() < 0.3:
                attr["name"] = True
            if rng.random() < 0.4:
                attr["level"] = rng.randint(1, 5)
            if rng.random() < 0.3:
                attr["target"] = True
            if rng.random() < 0.35:
                attr["parent"] = rng.choice(["none", "span"])
            if rng.random() < 0.15:
                attr["follows"] = True
            if rng.random() < 0.4:      # (skip_all does not exist at this commit: it is ignored with a warning)
                fs = []
                for a in ak:
                    fs += list(arg_catalog(0)[a]["fields"])
                attr["skip"] = rng.sample(fs + ["n"], rng.randint(0, min(2, len(fs) + 1)))
            if rng.random() < 0.5:
                attr["fields"] = rng.sample(["expr", "disp", "dbg", "sigil_dbg", "sh_dbg_b", "sh_disp_b", "lit", "dotted", "override"], rng.randint(1, 3))
            if rng.random() < 0.5:
                attr["ret"] = rng.choice(["debug", "debug_explicit", "display"])
                if rng.random() < 0.4:
                    attr["ret_level"] = rng.randint(1, 5)
            if rng.random() < 0.5:
                attr["err"] = rng.choice(["display", "display_explicit", "debug"])
                if rng.random() < 0.4:
                    attr["err_level"] = rng.randint(1, 5)
            self.twin(kind, ak, rng.choice(rets), recv=rng.choice([None, None, None, "ref", "mut", "val"]), attr=attr)

    def write(self):
        head = ["// GENERATED by tools/gen_instrument_corpus.py -- do not edit", "#![allow(unused, clippy::all)]"]
        rows = []
        for t in self.twins:
            if t["fragile"]:
                rows.append('    #[cfg(feature = "fragile")]\n    t%d::mk,\n    #[cfg(not(feature = "fragile"))]\n    super::helpers::missing,' % t["id"])
            else:
                rows.append("    t%d::mk," % t["id"])
        table = ["pub const TWINS: &[fn(bool, u32, super::helpers::Env) -> super::helpers::Fut] = &[\n" + "\n".join(rows) + "\n];"]
        text = "\n".join(head) + "\n\n" + "\n\n".join(self.rs) + "\n\n" + "\n".join(table) + "\n"
        OUT_RS.parent.mkdir(parents=True, exist_ok=True)
        OUT_JSON.parent.mkdir(parents=True, exist_ok=True)
        js = json.dumps(self.twins, indent=0)
        ch = False
        if not OUT_RS.exists() or OUT_RS.read_text() != text:
            OUT_RS.write_text(text)
            ch = True
        if not OUT_JSON.exists() or OUT_JSON.read_text() != js:
            OUT_JSON.write_text(js)
            ch = True
        return ch


def main():
    g = Gen(20260929)
    g.build(520)
    ch = g.write()
    print("instrument corpus: %d twins (%s)" % (len(g.twins), "rewritten" if ch else "unchanged"))


if __name__ == "__main__":
    main()
