#!/bin/sh
# usage: tools/try_mutant.sh <patch.diff> <ID> [more IDs]   -- applies to /repo, runs quick checks, reverts
P="$1"; shift
cd /repo && git apply --check "$P" || { echo "PATCH DOES NOT APPLY"; exit 3; }
git apply "$P"
export VERIF_EVIDENCE_DIR=/verif/work/evidence_mutant; mkdir -p $VERIF_EVIDENCE_DIR
for id in "$@"; do
  cd /verif && ./check "$id" --tier quick > /tmp/try_$id.out 2>&1; rc=$?
  echo "== $id exit=$rc  $(grep -c '^VIOLATION' /tmp/try_$id.out) VIOLATION lines"; grep -m2 -A1 '^VIOLATION' /tmp/try_$id.out | cut -c1-300; grep -m3 'TOOL-ERROR' /tmp/try_$id.out
done
cd /repo && git checkout -- . && git status --short | head -3
