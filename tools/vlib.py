"""Shared machinery of the checks: cargo builds of the harness against /repo's working tree,
TLC runs (exhaustive / simulate / trace validation), evidence files, known findings.

Exit-code contract (see DESIGN.md 1.2): 0 property held on everything explored, 1 with a
`VIOLATION property=<id> replay=<path>` line, 2 tool error / time-out / vacuous run."""
import json
import os
import re
import shutil
import subprocess
import sys
import time
from concurrent.futures import ThreadPoolExecutor
from pathlib import Path

VERIF = Path(__file__).resolve().parent.parent
HARNESS = VERIF / "harness"
SPEC = VERIF / "spec"
WORK = VERIF / "work"
# (tools/try_mutant.sh redirects the evidence of runs against a deliberately broken tree to a scratch directory)
EVID = Path(os.environ["VERIF_EVIDENCE_DIR"]) if os.environ.get("VERIF_EVIDENCE_DIR") else VERIF / "evidence"
REPLAYS = VERIF / "work" / "replays"
TLA_JAR = "/opt/veriftools/tla/tla2tools.jar:/opt/veriftools/tla/CommunityModules-deps.jar"


class ToolError(Exception):
    pass


def log(*a):
    print(*a, file=sys.stderr, flush=True)


def seed():
    try:
        return int(os.environ.get("VERIF_SEED", "1"))
    except ValueError:
        return 1


def workdir(name, clean=True):
    d = WORK / name
    if clean and d.exists():
        shutil.rmtree(d, ignore_errors=True)
    d.mkdir(parents=True, exist_ok=True)
    return d


# --------------------------------------------------------------------------------------------
# cargo
# --------------------------------------------------------------------------------------------
def cargo_build(bins, package="vh", release=False, features=None, timeout=1800, workspace=None, target="target", no_default=False):
    """Builds harness binaries from /repo's *current working tree* (path dependencies).
    Returns {bin: path}.  A compile error is a tool error (exit 2), not a verdict."""
    global HARNESS
    saved = HARNESS
    if workspace is not None:
        HARNESS = Path(workspace)
    try:
        return _cargo_build(bins, package, release, features, timeout, target, no_default)
    finally:
        HARNESS = saved


def _cargo_build(bins, package, release, features, timeout, target, no_default=False):
    if not (HARNESS / "Cargo.lock").exists():
        shutil.copy("/repo/Cargo.lock", HARNESS / "Cargo.lock")
    cmd = ["cargo", "build", "--offline", "-p", package]
    for b in bins:
        cmd += ["--bin", b]
    if release:
        cmd.append("--release")
    if features:
        cmd += ["--features", ",".join(features)]
    if no_default:
        cmd.append("--no-default-features")
    env = dict(os.environ, CARGO_NET_OFFLINE="true")
    t0 = time.time()
    p = subprocess.run(cmd, cwd=HARNESS, env=env, capture_output=True, text=True, timeout=timeout)
    if p.returncode != 0:
        log(p.stdout[-4000:])
        log(p.stderr[-8000:])
        raise ToolError("cargo build failed for %s" % (bins,))
    log("[cargo] built %s in %.1fs" % (",".join(bins), time.time() - t0))
    d = (HARNESS / target).resolve() / ("release" if release else "debug")
    return {b: str(d / b) for b in bins}


def run_bin(path, args=(), env=None, timeout=600, stdin=None, check=True):
    e = dict(os.environ)
    e.update({k: str(v) for k, v in (env or {}).items()})
    try:
        p = subprocess.run([path, *args], env=e, capture_output=True, text=True, timeout=timeout, input=stdin)
    except subprocess.TimeoutExpired:
        raise ToolError("harness binary %s timed out after %ss" % (path, timeout))
    if check and p.returncode != 0:
        log(p.stdout[-2000:])
        log(p.stderr[-4000:])
        raise ToolError("harness binary %s exited %d" % (path, p.returncode))
    return p


# --------------------------------------------------------------------------------------------
# TLC
# --------------------------------------------------------------------------------------------
class TLCResult:
    def __init__(self):
        self.ok = False
        self.kind = "error"  # ok | invariant | property | deadlock | postcondition | assumption | timeout | error
        self.generated = 0
        self.distinct = 0
        self.depth = 0
        self.out = ""
        self.printed = []  # values printed by the spec with the "@@TAG json" convention: (tag, value)
        self.actions = {}  # action name -> (generated, distinct) from -coverage
        self.violated = None
        self.wall = 0.0

    def tagged(self, tag):
        return [v for (t, v) in self.printed if t == tag]


_TAG_RE = re.compile(r'^"@@([A-Za-z0-9_]+) (.*)"$')


def _unescape_tla_string(s):
    out = []
    i = 0
    while i < len(s):
        c = s[i]
        if c == "\\" and i + 1 < len(s):
            n = s[i + 1]
            out.append({"n": "\n", "t": "\t", "r": "\r", "f": "\f"}.get(n, n))
            i += 2
        else:
            out.append(c)
            i += 1
    return "".join(out)


def tlc(spec_dir, module, cfg=None, env=None, workers=4, timeout=900, simulate=None, depth=None,
        dfs=False, coverage=False, heap="4g", extra=(), name=None, seed_=None, keep_out=False):
    """Runs TLC.  Specs print machine-readable values as  PrintT("@@TAG " \\o ToJson(v))."""
    spec_dir = Path(spec_dir)
    name = name or module
    meta = workdir("tlc_" + name + "_" + str(os.getpid()) + "_" + str(time.time_ns() % 10**9))
    # TLC's own temporary directory (java.io.tmpdir) lives in the run's metadir and is removed with it: nothing is left under /tmp
    (meta / "tmp").mkdir(parents=True, exist_ok=True)
    jopts = ["-Xss1g", "-Xmx" + heap, "-XX:+UseParallelGC", "-DTLA-Library=" + str(SPEC / "Filters"), "-Djava.io.tmpdir=" + str(meta / "tmp")]
    if dfs:
        jopts.append("-Dtlc2.tool.queue.IStateQueue=StateDeque")
    cmd = ["timeout", str(int(timeout)), "java", *jopts, "-cp", TLA_JAR, "tlc2.TLC",
           "-workers", str(workers), "-metadir", str(meta), "-cleanup", "-noGenerateSpecTE",
           "-config", (cfg or module) + ("" if (cfg or module).endswith(".cfg") else ".cfg")]
    if coverage:
        cmd += ["-coverage", "1"]
    if simulate:
        cmd += ["-simulate", "num=%d" % simulate]
        if depth:
            cmd += ["-depth", str(depth)]
        if seed_ is not None:
            cmd += ["-seed", str(seed_)]
    cmd += list(extra)
    cmd.append(module + ".tla")
    e = dict(os.environ)
    e.pop("JAVA_TOOL_OPTIONS", None)
    e.update({k: str(v) for k, v in (env or {}).items()})
    t0 = time.time()
    p = subprocess.run(cmd, cwd=spec_dir, env=e, capture_output=True, text=True)
    r = TLCResult()
    r.wall = time.time() - t0
    log('[tlc] %s %s: %.1fs' % (module, cfg or '', r.wall))
    r.out = p.stdout + p.stderr
    shutil.rmtree(meta, ignore_errors=True)
    for line in p.stdout.splitlines():
        m = _TAG_RE.match(line.strip())
        if m:
            try:
                r.printed.append((m.group(1), json.loads(_unescape_tla_string(m.group(2)))))
            except json.JSONDecodeError:
                r.printed.append((m.group(1), _unescape_tla_string(m.group(2))))
    m = None
    for m in re.finditer(r"(\d+) states generated, (\d+) distinct states found", p.stdout):
        pass
    if m:
        r.generated, r.distinct = int(m.group(1)), int(m.group(2))
    m = re.search(r"The depth of the complete state graph search is (\d+)", p.stdout)
    if m:
        r.depth = int(m.group(1))
    for m in re.finditer(r"^<(\w+) line \d+, col \d+ to line \d+, col \d+ of module \w+>: (\d+):(\d+)", p.stdout, re.M):
        a = r.actions.get(m.group(1), (0, 0))
        r.actions[m.group(1)] = (a[0] + int(m.group(3)), a[1] + int(m.group(2)))
    if p.returncode == 124:
        r.kind = "timeout"
    elif "Model checking completed. No error has been found." in p.stdout or (
            simulate and p.returncode == 0 and "Error:" not in p.stdout):
        r.kind, r.ok = "ok", True
    else:
        m = re.search(r"Error: Invariant (\S+) is violated", p.stdout)
        if m:
            r.kind, r.violated = "invariant", m.group(1)
        elif re.search(r"Error: Action property (\S+)? ?.*is violated", p.stdout):
            r.kind = "property"
        elif "Temporal properties were violated" in p.stdout:
            r.kind = "property"
        elif "Deadlock reached" in p.stdout:
            r.kind = "deadlock"
        elif "post condition" in p.stdout.lower() or "postcondition" in p.stdout.lower():
            r.kind = "postcondition"
        elif "Assumption" in p.stdout and "is false" in p.stdout:
            r.kind = "assumption"
        else:
            r.kind = "error"
    if keep_out or r.kind in ("error",):
        pass
    return r


def require_ok(r, what):
    if not r.ok:
        log(r.out[-6000:])
        raise ToolError("TLC run '%s' did not complete cleanly: %s" % (what, r.kind))
    return r


def check_not_vacuous(r, actions, what):
    """every named action must have been taken at least once (coverage run)"""
    missing = [a for a in actions if r.actions.get(a, (0, 0))[0] == 0]
    if missing:
        raise ToolError("vacuous TLC run '%s': actions never taken: %s" % (what, missing))


def tlapm(spec_dir, module, timeout=900):
    """Runs the TLA+ proof system on a module (in a scratch copy); returns the number of obligations, all of which were proved."""
    w = workdir("tlapm_" + module)
    shutil.copy(Path(spec_dir) / (module + ".tla"), w / (module + ".tla"))
    t0 = time.time()
    try:
        p = subprocess.run(["tlapm", "--threads", "4", module + ".tla"], cwd=w, capture_output=True, text=True, timeout=timeout)
    except subprocess.TimeoutExpired:
        raise ToolError("tlapm timed out on %s" % module)
    out = p.stdout + p.stderr
    m = re.search(r"All (\d+) obligations? proved", out)
    log("[tlapm] %s: %.1fs" % (module, time.time() - t0))
    if p.returncode != 0 or not m:
        log(out[-3000:])
        raise ToolError("tlapm did not prove %s" % module)
    return int(m.group(1))


def parallel(fn, items, jobs=8):
    with ThreadPoolExecutor(max_workers=jobs) as ex:
        return list(ex.map(fn, items))


# --------------------------------------------------------------------------------------------
# ndjson
# --------------------------------------------------------------------------------------------
def read_ndjson(path):
    out = []
    with open(path) as f:
        for line in f:
            line = line.strip()
            if line:
                out.append(json.loads(line))
    return out


def write_ndjson(path, rows):
    with open(path, "w") as f:
        for r in rows:
            f.write(json.dumps(r, separators=(",", ":")) + "\n")


# --------------------------------------------------------------------------------------------
# known findings
# --------------------------------------------------------------------------------------------
def known_findings(prop):
    p = VERIF / "known_findings.json"
    if not p.exists():
        return []
    return [f for f in json.load(open(p))["findings"] if f["property"] == prop and f["status"] == "open"]


# --------------------------------------------------------------------------------------------
# result / evidence
# --------------------------------------------------------------------------------------------
class Outcome:
    """Collects what a check covered, the violations and the known findings it met."""

    def __init__(self, prop, tier):
        self.prop = prop
        self.tier = tier
        self.t0 = time.time()
        self.states = 0
        self.transitions = 0
        self.traces = 0
        self.evaluations = 0
        self.distinct_nontrivial = 0
        self.rule = ""
        self.samples = []
        self.exhaustive = False
        self.assumptions = []
        self.violations = []  # (description, replay path)
        self.known = {}  # finding id -> (what, count)
        self.drift = []
        self.extra = {}
        self.tlc_runs = []

    def add_tlc(self, r, what):
        self.states += r.distinct
        self.transitions += r.generated
        self.tlc_runs.append({"what": what, "distinct": r.distinct, "generated": r.generated,
                              "depth": r.depth, "wall_s": round(r.wall, 1),
                              "actions": {k: v[0] for k, v in r.actions.items()}})

    def known_finding(self, fid, what):
        w, n = self.known.get(fid, (what, 0))
        self.known[fid] = (w, n + 1)

    def violation(self, desc, replay_obj):
        REPLAYS.mkdir(parents=True, exist_ok=True)
        path = REPLAYS / ("%s_%d_%d.json" % (self.prop, os.getpid(), len(self.violations)))
        if len(self.violations) < 25:
            with open(path, "w") as f:
                json.dump({"property": self.prop, "what": desc, "replay": replay_obj}, f, indent=1)
        self.violations.append((desc, str(path)))

    def finish(self):
        for fid, (what, n) in sorted(self.known.items()):
            print("KNOWN-FINDING: property=%s %s [%s, %d occurrence(s) this run]" % (self.prop, what, fid, n))
        for d in self.drift[:5]:
            log("MODEL-DRIFT: property=%s %s" % (self.prop, d))
        cov = {
            "states": self.states,
            "transitions": self.transitions,
            "traces_validated_against_impl": self.traces,
            "evaluations": self.evaluations,
            "distinct_nontrivial": self.distinct_nontrivial,
            "rule": self.rule,
            "samples": self.samples[:8] if self.samples else ["<none>"],
            "exhaustive": self.exhaustive,
            "tlc_runs": self.tlc_runs,
            "known_findings": [{"id": k, "what": v[0], "occurrences": v[1]} for k, v in sorted(self.known.items())],
            "model_drift": self.drift[:50],
        }
        cov.update(self.extra)
        ev = {
            "property_id": self.prop,
            "tier": self.tier,
            "seed": seed(),
            "level": "model_checking",
            "coverage": cov,
            "assumptions": self.assumptions,
            "wall_s": round(time.time() - self.t0, 2),
            "violations": len(self.violations),
        }
        # X.. = specification modules beyond the listed properties: their evidence is kept apart from the properties' files
        evdir = EVID / "extra" if self.prop.startswith("X") else EVID
        evdir.mkdir(parents=True, exist_ok=True)
        with open(evdir / (self.prop + ".json"), "w") as f:
            json.dump(ev, f, indent=1)
        for desc, path in self.violations[:5]:
            print("VIOLATION property=%s replay=%s" % (self.prop, path))
            log("  " + desc[:600])
        if len(self.violations) > 5:
            log("  (+%d more violations; replay files under %s)" % (len(self.violations) - 5, REPLAYS))
        return 1 if self.violations else 0
