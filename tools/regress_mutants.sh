#!/bin/sh
# usage: tools/regress_mutants.sh [ID-prefix]   -- applies every seeded change in turn, runs the quick check(s) its meta.json names
# as detecting it, reverts; one line per change in work/regress.log. Needs /repo clean and to itself for a few hours.
cd /verif; mkdir -p work; : > work/regress.log
for d in seeded/${1}*/; do
  id=$(basename $d)
  checks=$(python3 - "$d" <<'PY'
import json,re,sys
m=json.load(open(sys.argv[1]+"meta.json"))
c=re.findall(r"(C\d\d) quick(?: detects|: VIOLATION)", m.get("result",""))
seen=[]
for x in c:
    if x not in seen: seen.append(x)
print(" ".join(seen[:2] or [m["property"]]))
PY
)
  git -C /repo apply --check $PWD/$d/patch.diff 2>/dev/null || { echo "$id NOAPPLY" >> work/regress.log; continue; }
  git -C /repo apply $PWD/$d/patch.diff
  res=""
  for c in $checks; do
    ./check $c --tier quick > work/regress_$id.out 2>&1; rc=$?
    res="$res $c:exit=$rc:viol=$(grep -c '^VIOLATION' work/regress_$id.out)"
    [ $rc -eq 1 ] && break
  done
  git -C /repo checkout -- .
  echo "$id$res" >> work/regress.log
done
echo DONE >> work/regress.log
