#!/bin/sh
# usage: tools/confirm_round7.sh <PROP>...   confirms /tmp/mut7-<PROP>-out/{1,2,3} in worktree /tmp/mut7-<PROP>, stores as <PROP>-19..21 (round 7)
cd /verif
for P in "$@"; do for n in 1 2 3; do
  d=/tmp/mut7-$P-out/$n; [ -d $d ] || continue
  f=$(ls $d/demo*.rs 2>/dev/null | head -1); [ -z "$f" ] && f=$(ls $d/*.rs | head -1)
  crate=$(grep -o "[a-z-]*/tests/[A-Za-z0-9_]*\.rs" $f | head -1 | cut -d/ -f1)
  feat=$(grep -o "\-\-features [a-z,-]*" $f | head -1)
  if grep -q "tokio_rs_tracing_verif" $f; then export RUSTFLAGS="--cfg tokio_rs_tracing_verif"; else unset RUSTFLAGS; fi
  FEATURES="$feat" tools/confirm_mutant7.sh $P $n $crate $((n+18)) $(basename $f)
done; done
