#!/usr/bin/env python3
"""usage: tools/gen_mutant_prompt.py <PROP> <round>   -> prompt text for a fresh sub-agent (round r works in /tmp/mut<r>-<PROP>)
The agent gets the property's text, its scratch worktree and one line per change already known for that property - nothing else from /verif."""
import glob
import json
import sys

pid, rnd = sys.argv[1], sys.argv[2]
p = next(x for x in map(json.loads, open('/verif/properties.jsonl')) if x["id"] == pid)
known = []
for m in sorted(glob.glob('/verif/seeded/%s-*/meta.json' % pid)):
    known.append("  - " + json.load(open(m))["what"])
wt = "/tmp/mut%s-%s" % (rnd, pid)
print(f"""You are helping to evaluate a verification framework for the Rust project tokio-rs/tracing (a pinned commit of the `master` line: note the `Collect`/`Subscribe` naming instead of `Subscriber`/`Layer`). Your job: produce realistic code changes ("seeded defects") to tokio-rs/tracing that BREAK the semantic property below while the code still COMPILES and the EXISTING test suite still PASSES.

You have your own scratch git worktree of the repository at {wt} (work ONLY there and in {wt}-out; never touch /repo or /verif; never commit anything; there is no network: always pass --offline to cargo).

THE PROPERTY
{pid} — {p.get("title", "")}

Statement: {p["statement"]}

Quantifier ({", ".join(p["quantifier"]["over"])}): {p["quantifier"]["text"]}

Anchored files: {", ".join(p["anchors"]["files"])}


WHAT TO PRODUCE
Up to 3 *independent* changes (each one alone breaks the property), different from one another in mechanism. For each change n = 1, 2, 3 write into {wt}-out/<n>/ :
  - patch.diff : `git diff` of the change against the worktree's HEAD (source files of the tracing crates only; do not edit or add tests in the patch; no changes under target/). It must apply with `git apply` to a clean checkout of HEAD.
  - demo_test.rs : a demonstration - a test file, using only the public API of the crates, that FAILS (assertion/panic/wrong output) with the change applied and PASSES without it. Put at the top of the file a comment with the exact commands to run it, as a file dropped into <crate>/tests/<name>.rs of the worktree and run with `cargo test --offline -p <crate> --test <name>` (add `--features ...` if needed).
  - notes.md : first line `# Change <n> - <one-line description>`; then which clause of the property the change breaks, and what is needed for it to manifest.

ALREADY KNOWN (do NOT deliver these or variations of them; find DIFFERENT mechanisms, preferably in other functions, files or crates that take part in the property, and preferably ones that need an unusual configuration, API entry point, input shape or interleaving to show):
{chr(10).join(known)}

REQUIREMENTS FOR EACH CHANGE
  * It must look like a plausible mistake or an over-eager optimisation/refactoring a real contributor could make (an off-by-one, a dropped or reordered step, a wrong condition, a cache not invalidated, a lock released early, a forgotten forwarding call, ...), small (a few lines), in the code that implements the property (see the anchored files, but neighbouring code is fine).
  * It must need something SPECIFIC to manifest - a particular interleaving, a multi-step sequence of operations, an unusual input or configuration, or two cooperating sites that each look fine alone - NOT something ordinary use or the existing tests would expose at once.
  * With the change applied, everything must still compile and the existing tests must still pass. Verify: `cd {wt} && cargo nextest run --workspace --no-fail-fast --offline --test-threads 4 2>&1 | tail -30` (507 tests pass and exactly 13 fail on the UNCHANGED tree (this worktree already contains a number of bug fixes and cfg-guarded hooks on top of upstream; leave the `#[cfg(tokio_rs_tracing_verif)]` lines alone): tracing-journald::journal::* (11), tracing-attributes::ui::async_instrument, tracing-core::field::test::value_sets_with_fields_from_other_callsites_are_empty - those 13 failures are pre-existing and expected; your change must not add failures nor turn a pass into a fail). The first build takes a few minutes.
  * Verify the demonstration yourself both ways (fails with the change, passes without).
  * Do not add cfg flags, feature gates, environment-variable switches, randomness or time-dependent behaviour to hide the defect: the changed behaviour must be deterministic given the triggering input/sequence/schedule.

Do NOT use `git stash` (stash refs are shared between worktrees of this repository; use `git diff > x.patch; git apply -R x.patch` instead).

When done, restore the worktree to a clean state (`git -C {wt} checkout -- . && git -C {wt} clean -fd` but keep target/ if you like), and reply with a short summary: for each change, one line on what it is and how the demo shows it, plus the verification results you observed (test suite summary line with the change; demo result with / without). If you could not find any change satisfying all requirements, say so honestly rather than delivering one that fails a requirement.""")
