#!/bin/sh
# usage: tools/run_all.sh quick|thorough   -- runs every claimed check, prints one line each
T=${1:-quick}
cd "$(dirname "$0")/.."
mkdir -p work
for id in $(python3 -c "import json;print(' '.join(c['property_id'] for c in json.load(open('MANIFEST.json'))['checks']))"); do
  s=$(date +%s)
  ./check $id --tier $T > work/runall_$id.out 2>&1; rc=$?
  e=$(date +%s)
  echo "$id exit=$rc $((e-s))s viol=$(grep -c '^VIOLATION' work/runall_$id.out) known=$(grep -c '^KNOWN-FINDING' work/runall_$id.out)"
done
