#!/bin/sh
# Runs the repository's pinned baseline (guard OFF) and prints the pass/fail summary line.
cd /repo && cargo nextest run --workspace --no-fail-fast --tool-config-file pb:/w/lib/nextest.toml --profile pb --test-threads 8 --offline 2>&1 | grep -E "Summary|error: test run"
