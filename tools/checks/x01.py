"""X01 (beyond the listed properties) - tracing-flame's folded-stack samples: attribution, conservation, whole lines (spec/Flame)."""
import json

import trace
import vlib
from vlib import SPEC

D = SPEC / "Flame"


def execute(behs, name):
    w = vlib.workdir(name)
    vlib.write_ndjson(w / "behaviours.ndjson", behs)
    bins = vlib.cargo_build(["flame"])
    vlib.run_bin(bins["flame"], env={"VH_IN": w / "behaviours.ndjson", "VH_OUT": w / "trace.ndjson"}, timeout=900)
    lines = vlib.read_ndjson(w / "trace.ndjson")
    found, _ = trace.validate(D, "FlameTrace", lines, name, nchunks=4, jobs=4, tags=("BAD",))
    return lines, found


def judge(out, behs, lines, found):
    seen = set()
    for b, pos, rec in sorted(found["BAD"], key=lambda x: (x[0], x[1])):
        if b in seen:
            continue
        seen.add(b)
        out.violation("flame history %d (%s), record %d: the lines written / their sample values contradict Flame: %s" % (
            b, json.dumps(behs[b]["cfg"]), pos, json.dumps(rec)[:500]), {"behaviour": behs[b], "failing_step": pos, "observed": rec})


def run(out, tier):
    quick = tier == "quick"
    r = vlib.require_ok(vlib.tlc(D, "MCFlame", workers=6, timeout=1200, heap="6g"), "Flame: Conservation / Attribution in every reachable state")
    out.add_tlc(r, "MCFlame exhaustive: 2 threads, 2 spans, clock <= 2, <= 3 lines, all four configurations; invariants Conservation, Attribution, NoEmptyEntrySample")
    # the clock bookkeeping for ANY number of threads and any run length, by the proof system (an inductive invariant)
    out.extra["tlaps_obligations_proved"] = vlib.tlapm(D, "FlameProof")
    s = vlib.tlc(D, "MCFlameSim", workers=4, simulate=(60 if quick else 1500), depth=60, seed_=vlib.seed() + 77, timeout=900)
    if not s.ok:
        vlib.log(s.out[-3000:])
        raise vlib.ToolError("MCFlameSim failed: %s" % s.kind)
    behs = s.tagged("BEH")
    out.tlc_runs.append({"what": "MCFlameSim -simulate: histories of 40 operations (3 threads, 6 spans, root / explicit / contextual parents, re-entrant and "
                                 "out-of-order enter / exit, 4 x 4 configurations); invariants Conservation, Attribution, NoEmptyEntrySample",
                         "behaviours": len(behs), "wall_s": round(s.wall, 1)})
    lines, found = execute(behs, "x01")
    judge(out, behs, lines, found)
    ops = [x for x in lines if x.get("ev") == "op"]
    out.traces = len(behs)
    out.evaluations = len(ops)
    out.distinct_nontrivial = len({json.dumps(b["steps"], sort_keys=True) for b in behs if sum(1 for st in b["steps"] if st["op"] != "new") >= 6})
    out.extra["lines_written"] = sum(len(x.get("lines", [])) for x in ops)
    out.extra["samples_skipped"] = sum(1 for x in ops if x["op"] == "enter" and not x.get("lines"))
    out.extra["clock_overflow_runs"] = sum(1 for x in lines if x.get("ev") == "final" and x.get("overflow"))
    out.rule = ("a case is one TLC -simulate history of MCFlameSim run in its own OS process against Registry + FlameSubscriber; every operation's written "
                "lines and the driver's clock readings around it are validated by TLC against FlameTrace; distinct = distinct histories with >= 6 enter/exit")
    out.samples = [behs[0]["steps"][:8], [x for x in ops if x.get("lines")][:3]]
    out.assumptions = ["the sample values are bounded by the driver's own monotonic clock readings taken on the same thread right before / after the operation",
                       "a run whose clock readings exceed 2^31 ns is judged on stacks only (TLC integers are 32-bit)"]


def replay(out, path):
    obj = json.load(open(path))["replay"]
    behs = [obj["behaviour"]]
    lines, found = execute(behs, "x01_replay")
    judge(out, behs, lines, found)
    out.traces = 1
    out.rule = "replay of one stored flame history"
    out.samples = [behs[0]["steps"][:8]]
