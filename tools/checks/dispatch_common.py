"""Shared by C01 and C02 (spec/Dispatch, harness binary `dispatch`)."""
import random

import trace
import vlib
from vlib import SPEC

TGTS = ["a", "b", "c"]


def rand_filter(rng, accept_all=False):
    if accept_all:
        return {"thr": 5, "tgts": TGTS, "kind": "lazy", "hint": 9}
    if rng.random() < 0.08:
        # a collector that is switched off entirely and says so (hint OFF)
        return {"thr": 0, "tgts": sorted(rng.sample(TGTS, rng.choice([0, 3]))), "kind": rng.choice(["static", "dyn"]), "hint": 0}
    thr = rng.choice([0, 1, 2, 3, 4, 5])
    tg = sorted(rng.sample(TGTS, rng.choice([0, 1, 1, 2, 2, 3])))
    kind = rng.choice(["static", "static", "dyn", "lazy"])
    hint = rng.choice([9, 9, thr] + [h for h in range(thr, 6)])
    return {"thr": thr, "tgts": tg, "kind": kind, "hint": hint}


def gen_history(rng, steps, ndisp, nthreads, flavour):
    """A valid history of the Dispatch actions (preconditions tracked here; the trace spec re-checks
    them: a step whose action is not enabled stops validation as a tool error)."""
    handle = {}  # d -> held/dropped
    scopes = {t: [] for t in range(1, nthreads + 1)}
    out = []
    nextd = 1
    while len(out) < steps:
        held = [d for d, h in handle.items() if h in ("held", "static", "none")]
        droppable = [d for d, h in handle.items() if h in ("held", "none")]       # a static collector is never dropped
        ops = ["emit"] * 8 + ["new"] * 2 + ["rebuild"]
        if held:
            ops += ["set_default"] * 3 + ["drop"] + ["set_global"] + ["flip"]
            if flavour == "scopes":
                ops += ["set_default"] * 4 + ["set_global"] * 2 + ["panic_scopes"] + ["wd_emit"] * 2
        if any(scopes.values()):
            ops += ["unset"] * (5 if flavour == "scopes" else 3)
        op = rng.choice(ops)
        t = rng.randint(1, nthreads)
        if op == "new":
            if nextd > ndisp:
                continue
            if rng.random() < (0.12 if flavour == "scopes" else 0.04):
                out.append({"ev": "new_none", "d": nextd})
                handle[nextd] = "none"
                nextd += 1
                continue
            st = flavour == "scopes" and rng.random() < 0.25
            # the collector may be handed to Dispatch::new behind a Box or an Arc (own forwarding impls in tracing-core)
            out.append({"ev": "new", "d": nextd, "f": rand_filter(rng, accept_all=(flavour == "scopes" and rng.random() < 0.7)), "static": st,
                        "wrap": "" if st else rng.choice(["", "", "arc", "box"]), "drop_emit": (not st) and rng.random() < 0.3})
            handle[nextd] = "static" if st else "held"
            nextd += 1
        elif op == "drop":
            if not droppable:
                continue
            d = rng.choice(droppable)
            handle[d] = "dropped"
            out.append({"ev": "drop", "d": d})
        elif op == "flip":
            d = rng.choice(list(handle))
            if not any(s["ev"] == "new" and s["d"] == d for s in out):
                continue        # the no-op collector has nothing to flip
            f = next(s["f"] for s in out if s["ev"] == "new" and s["d"] == d)
            if f["kind"] == "static":
                continue
            out.append({"ev": "flip", "d": d})
        elif op == "rebuild":
            out.append({"ev": "rebuild"})
        elif op == "set_global":
            out.append({"ev": "set_global", "d": rng.choice(held), "t": t})
        elif op == "set_default":
            if len(scopes[t]) >= 4:
                continue
            d = rng.choice(held)
            scopes[t].append(d)
            out.append({"ev": "set_default", "t": t, "d": d})
        elif op == "unset":
            ts = [x for x in scopes if scopes[x]]
            t = rng.choice(ts)
            scopes[t].pop()
            out.append({"ev": "unset", "t": t})
        elif op == "wd_emit":
            # a WithDispatch future polled once on thread t: must equal set_default(d); emit; unset
            if len(scopes[t]) >= 4:
                continue
            out.append({"ev": "wd_emit", "t": t, "d": rng.choice(held), "c": {"lvl": rng.randint(1, 5), "tgt": rng.choice(TGTS)},
                        "k": rng.choice(["event", "event", "span"]), "how": rng.choice(["future", "future", "with_default", "tracing_with_default"])})
        elif op == "panic_scopes":
            out.append({"ev": "panic_scopes", "t": t, "ds": [rng.choice(held) for _ in range(rng.randint(1, 3))]})
        else:
            st = {"ev": "emit", "t": t, "c": {"lvl": rng.randint(1, 5), "tgt": rng.choice(TGTS)},
                  "k": rng.choice(["event", "event", "span", "probe"])}
            if st["k"] == "event" and rng.random() < 0.06:
                st["boom"] = True       # the receiving collector's callback panics (caught); later emissions are unaffected
            elif st["k"] == "event" and rng.random() < 0.08:
                st["reenter"] = True    # the receiving collector emits from inside its callback
            out.append(st)
    return out


def gen_churn(rng, ndisp=8):
    """collector turnover around already registered callsites: a verbose collector registers every callsite and goes away,
    then collectors with low and high (exact) hints come and go while everything is emitted again and again - the global
    maximum level goes down and up across cached interests"""
    out, d, scopes = [], 0, {1: [], 2: []}

    def emit_all(t, frac=1.0):
        for lvl in range(1, 6):
            for tgt in TGTS:
                if rng.random() < frac:
                    out.append({"ev": "emit", "t": t, "c": {"lvl": lvl, "tgt": tgt}, "k": rng.choice(["event", "event", "span"])})
    d += 1
    out.append({"ev": "new", "d": d, "f": {"thr": 5, "tgts": TGTS, "kind": rng.choice(["static", "lazy"]), "hint": rng.choice([9, 5])}})
    out.append({"ev": "set_default", "t": 1, "d": d})
    emit_all(1)
    out.append({"ev": "unset", "t": 1})
    out.append({"ev": "drop", "d": d})
    live = []
    while d < ndisp:
        d += 1
        thr = rng.choice([0, 1, 2, 3, 3, 4, 5])       # 0 with an exact hint: a collector that is switched off and says so
        out.append({"ev": "new", "d": d, "f": {"thr": thr, "tgts": sorted(rng.sample(TGTS, rng.choice([2, 3]))), "kind": rng.choice(["static", "static", "dyn", "lazy"]),
                                               "hint": rng.choice([thr, thr, 9])}, "wrap": rng.choice(["", "", "arc", "box"])})
        t = rng.choice([1, 2])
        if scopes[t]:
            out.append({"ev": "unset", "t": t})
            scopes[t].pop()
        out.append({"ev": "set_default", "t": t, "d": d})
        scopes[t].append(d)
        live.append(d)
        emit_all(t, 0.6)
        if live and rng.random() < 0.6:
            x = rng.choice(live)
            live.remove(x)
            out.append({"ev": "drop", "d": x})
            for tt in (1, 2):
                if scopes[tt] and scopes[tt][-1] == x:
                    out.append({"ev": "unset", "t": tt})
                    scopes[tt].pop()
        if rng.random() < 0.3:
            out.append({"ev": "rebuild"})
        for tt in (1, 2):
            if scopes[tt]:
                emit_all(tt, 0.3)
    return out


def gen_flip(rng, ndisp=5):
    """collectors with dynamic filters (answering sometimes), handed over plainly / boxed / arc'd, one after the other as a
    thread's default: everything is emitted, the dynamic part is flipped, everything is emitted again, twice"""
    out = []

    def emit_all(t):
        for lvl in range(1, 6):
            for tgt in TGTS:
                out.append({"ev": "emit", "t": t, "c": {"lvl": lvl, "tgt": tgt}, "k": rng.choice(["event", "event", "span"])})
    for d in range(1, ndisp + 1):
        thr = rng.choice([2, 3, 4, 5])
        out.append({"ev": "new", "d": d, "f": {"thr": thr, "tgts": sorted(rng.sample(TGTS, rng.choice([2, 3]))), "kind": rng.choice(["dyn", "lazy"]), "hint": rng.choice([thr, 9])},
                    "wrap": rng.choice(["", "arc", "arc", "box"])})
        t = rng.choice([1, 2])
        out.append({"ev": "set_default", "t": t, "d": d})
        emit_all(t)
        for _ in range(2):
            out.append({"ev": "flip", "d": d})
            emit_all(t)
        out.append({"ev": "unset", "t": t})
        if rng.random() < 0.6:
            out.append({"ev": "drop", "d": d})
    return out


def tlc_behaviours(n, seed_, out, what):
    per = max(1, (n + 7) // 8)
    r = vlib.tlc(SPEC / "Dispatch", "MCDispatchSim", workers=8, simulate=per, depth=27, seed_=seed_, timeout=600)
    if not r.ok:
        vlib.log(r.out[-3000:])
        raise vlib.ToolError("MCDispatchSim failed: %s" % r.kind)
    behs = r.tagged("BEH")
    out.tlc_runs.append({"what": what, "behaviours": len(behs), "states_checked": r.generated, "wall_s": round(r.wall, 1)})
    return behs


def run_and_validate(out, behs, name):
    w = vlib.workdir(name)
    # every third collector of a behaviour that does not say otherwise is handed over behind an Arc or a Box
    wr = random.Random(len(behs))
    for b in behs:
        for st in b.get("steps", []) if isinstance(b, dict) else []:
            if st.get("ev") == "new" and "wrap" not in st and not st.get("static"):
                st["wrap"] = wr.choice(["", "", "arc", "box"])
    vlib.write_ndjson(w / "behaviours.ndjson", behs)
    bins = vlib.cargo_build(["dispatch"])
    vlib.run_bin(bins["dispatch"], env={"VH_IN": w / "behaviours.ndjson", "VH_OUT": w / "trace.ndjson"}, timeout=1200)
    lines = vlib.read_ndjson(w / "trace.ndjson")
    found, results = trace.validate(SPEC / "Dispatch", "DispatchTrace", lines, name, nchunks=12, jobs=6)
    return lines, found, results
