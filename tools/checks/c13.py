"""C13 - fmt writes one complete record per event, to exactly the selected writers (spec/FmtRecord)."""
import json
import random

import trace
import vlib
from vlib import SPEC
from checks import fmt_common as fc

D = SPEC / "FmtRecord"


def to_trace(behs, lines):
    out = []
    b = None
    for x in lines:
        if x.get("ev") == "reset":
            b = behs[x["beh"]]
            spanrec = {}
            out.append(dict({"ev": "reset", "beh": x["beh"]}, **fc.reset_fields(b)))
            continue
        if x.get("ev") != "op":
            out.append(x)
            continue
        calls = x.get("calls", [])
        r = {k: v for k, v in x.items() if k not in ("calls", "fields")}
        r["aborted"] = bool(x.get("aborted", False))
        r["mw"] = [{"sink": c["mw"], "lvl": c["lvl"], "tgt": c["tgt"]} for c in calls if "mw" in c]
        r["nometa"] = sum(1 for c in calls if "mw_nometa" in c)
        if x.get("op") == "record":
            spanrec[x["s"]] = x["fields"][0]["val"]["v"]
        wcalls = [c for c in calls if "w" in c]
        if b["writer"].get("short", {}).get("id"):
            # a short-writing sink receives one record in several write calls (write_all): chunks of one (sink, thread) are joined
            # until a newline ends the record; what is left over at the end is an incomplete record
            merged, acc = [], {}
            for c in wcalls:
                key = (c["w"], c.get("th"))
                acc[key] = acc.get(key, "") + c["raw"]
                if acc[key].endswith("\n"):
                    merged.append({"w": c["w"], "raw": acc.pop(key)})
            merged += [{"w": k[0], "raw": v} for k, v in acc.items() if v]
            wcalls = merged
        r["writes"] = [dict(fc.project_write(c["raw"], b["format"], b["opts"], x, spanrec), sink=c["w"]) for c in wcalls]
        for wr in r["writes"]:
            if x.get("nested") and wr["toks"] == [x["n"] + 6000]:
                wr["fields_ok"] = True      # the nested event's own record carries none of the outer event's fields
        if x["op"] == "burst":
            n = x["n"]
            r["expect"] = [n * 10000 + j * 100 + i + 1 + 1000 for j in range(x["threads"]) for i in range(x["per"])]
        for k in ("s", "p", "n"):
            r.setdefault(k, 0)
        r.setdefault("name", "spA")
        r.setdefault("pk", "ctx")
        r.setdefault("lvl", 3)
        r.setdefault("tgt", "a")
        out.append(r)
    return out


def run(out, tier):
    quick = tier == "quick"
    r = vlib.require_ok(vlib.tlc(D, "MCFmtRecord", workers=4, timeout=900), "FmtRecord: combinators denote Route")
    out.add_tlc(r, "MCFmtRecord exhaustive: every writer expression to depth 3 over 3 sinks (2187), invariant CombinatorsDenoteRoute over 5 levels x 2 targets")
    rng = random.Random(vlib.seed() * 5 + 13)
    behs = [fc.behaviour_c13(rng) for _ in range(300 if quick else 3000)]
    w = vlib.workdir("c13")
    vlib.write_ndjson(w / "behaviours.ndjson", behs)
    bins = vlib.cargo_build(["fmtout"])
    vlib.run_bin(bins["fmtout"], env={"VH_IN": w / "behaviours.ndjson", "VH_OUT": w / "raw.ndjson"}, timeout=1800)
    lines = vlib.read_ndjson(w / "raw.ndjson")
    tr = to_trace(behs, lines)
    found, results = trace.validate(D, "FmtRecordTrace", tr, "c13", nchunks=8, jobs=8, tags=("BAD",))
    out.traces = len(behs)
    out.evaluations = sum(1 for x in tr if x.get("ev") == "op")
    out.distinct_nontrivial = len({json.dumps([b["format"], b["opts"], b["writer"]], sort_keys=True) for b in behs})
    out.rule = ("a case is one configuration (formatter full/compact/pretty/json x random option combination x span-event setting x one of 14 writer "
                "expressions over 3 recording sinks with random level / target parameters) with a 40-operation history (events with contextual / explicit / "
                "root parents at 5 levels x 2 targets on 1-3 threads, span lifecycle incl. a field recorded after creation, events whose Debug field panics, display "
                "options set before or after the format is chosen, a sink that reports I/O errors in a quarter of the configurations, bursts of 2-8 threads emitting "
                "simultaneously); every make_writer_for / write on a sink is recorded raw and projected; distinct = distinct configurations")
    out.samples = [{k: behs[0][k] for k in ("format", "opts", "writer")}, behs[0]["steps"][:4], [x for x in tr if x.get("writes")][:2]]
    out.assumptions = ["records are projected by regular expressions / the JSON parser (level token, span tokens s<k>x in textual order, message tokens m<n>)",
                       "events are dispatched from hand-made callsites so that field values can be chosen at run time"]
    seen = set()
    f33 = [f for f in vlib.known_findings("C13") if f["id"] == "F33"]
    for b, pos, rec in sorted(found["BAD"], key=lambda x: (x[0], x[1])):
        if b in seen:
            continue
        # F33: an exit that closes the span reaches the fmt subscriber's on_exit after the span is gone
        if f33 and rec.get("op") == "exit" and rec.get("closing") and "Span not found" in str(rec.get("panicked", "")):
            out.known_finding("F33", f33[0]["what"])
            continue
        seen.add(b)
        raw = [c for c in lines_of(lines, b, pos)]
        out.violation("configuration %d operation %d (%s): %s | raw=%s" % (b, pos, rec.get("op"), json.dumps(rec)[:500], json.dumps(raw)[:500]),
                      {"behaviour": behs[b], "failing_step": pos, "observed": rec, "raw": raw})


def lines_of(lines, beh, pos):
    i = 0
    for idx, x in enumerate(lines):
        if x.get("ev") == "reset" and x.get("beh") == beh:
            i = idx
            break
    x = lines[i + pos] if i + pos < len(lines) else {}
    return x.get("calls", [])


def replay(out, path):
    d = json.load(open(path))["replay"]
    print(json.dumps(d)[:3000])
