"""C07 - per-layer filters are isolated: a layer sees exactly what its own filters accept (spec/LayerStack)."""
import json
import random

import vlib
from vlib import SPEC
from checks import layerstack_common as lc


def run(out, tier, flavour="c07", prop="C07"):
    quick = tier == "quick"
    rng = random.Random(vlib.seed() * 7 + (7 if flavour == "c07" else 9))
    behs = [lc.behaviour(rng, flavour) for _ in range(600 if quick else 6000)]
    lines, found, results = lc.execute(behs, prop.lower(), flavour)
    for r in results:
        out.add_tlc(r, "LayerStackTrace: trace validation chunk")
    out.tlc_runs = [{"what": "LayerStackTrace (%s): %d chunks of implementation traces validated against A (every operation judged by OpOk/Target)" % (flavour, len(results)),
                     "distinct": out.states, "generated": out.transitions}]
    if prop == "C07":
        # the mechanism of the per-thread filter bitmap: a repaired design satisfies the property in every reachable state,
        # the code's design yields the F3 history (probe, then an emission whose cached interest is `always`)
        D = SPEC / "LayerStack"
        r = vlib.require_ok(vlib.tlc(D, "FilterBitmap", cfg="FilterBitmap", workers=2, timeout=600), "FilterBitmap (repaired design)")
        out.add_tlc(r, "FilterBitmap exhaustive: 3 layers x 5 levels, probes and emissions in any order, probe consumes its bits: Exact holds")
        r3 = vlib.tlc(D, "FilterBitmap", cfg="FilterBitmapF3", workers=2, timeout=600)
        out.extra["f3_counterexample_in_model"] = (r3.kind == "invariant")
    judge(out, behs, lines, found, prop)


def judge(out, behs, lines, found, prop):
    out.traces = len(behs)
    ops = [x for x in lines if x.get("ev") == "op"]
    out.evaluations = len(ops)
    out.distinct_nontrivial = len({json.dumps(b["flat"], sort_keys=True) for b in behs if len(b["flat"]["layers"]) >= 2})
    out.rule = ("a case is one (stack, history) pair: a random stack tree (recording layers, global filter layers, per-layer-filtered layers, "
                "and_then trees, Vec / Option / Box / reload wrappers; filters = level, Targets, filter_fn, dynamic_filter_fn, and/or/not/Option "
                "to depth 2) with a 50-operation history (events with contextual / explicit parents, spans, enter/exit, record, close, enabled! "
                "probes, dynamic flag flips, 1-2 threads) through the real macros, one OS process each; distinct = distinct flat stacks with >= 2 recording layers")
    out.samples = [{"stack": behs[0]["stack"], "steps": behs[0]["steps"][:6]}, [dict((k, v) for k, v in x.items() if k != "summary") for x in ops[1:4]]]
    out.assumptions = ["the flat form of a stack (python, tools/checks/layerstack_common.flatten) is its meaning with wrappers erased",
                       "the decision of each filter expression is Filters!Enabled (validated against the real filters by C08)",
                       "spans are dropped only when closable, and never entered twice (close timing and re-entry are C05/C06)"]
    key = "BAD8" if prop == "C08" else "BAD"
    seen = set()
    # unsound whole-stack summaries: known finding F17 for tree-shaped stacks, a violation otherwise
    f17 = [f for f in vlib.known_findings(prop) if f["id"] == "F17"]
    f28 = [f for f in vlib.known_findings(prop) if f["id"] == "F28"]
    if prop in ("C07", "C09"):
        for b, pos, rec in found["BAD8"]:
            if has_and_then(stack_at(behs[b], pos)) and f17:
                out.known_finding("F17", f17[0]["what"])
            elif has_vec_none(stack_at(behs[b], pos)) and f28:
                out.known_finding("F28", f28[0]["what"])
            else:
                out.violation("stack %d: the composed collector publishes a summary below what its layers accept (events would be lost): hint=%s stack=%s"
                              % (b, rec["summary"]["hint"], json.dumps(behs[b]["stack"])[:500]), {"behaviour": behs[b], "summary": rec["summary"]})
    for b, pos, rec in sorted(found[key], key=lambda x: (x[0], x[1])):
        if b in seen:
            continue
        seen.add(b)
        rec = dict((k, v) for k, v in rec.items() if k != "summary" or prop == "C08")
        out.violation("stack %d, operation %d (%s): %s" % (b, pos, rec.get("op"), json.dumps(rec)[:700]),
                      {"behaviour": behs[b], "failing_step": pos, "observed": rec})
    if prop == "C07":
        known = [f for f in vlib.known_findings("C07") if f["id"] == "F3"]
        for b, pos, rec in found["F3"]:
            if known:
                out.known_finding("F3", known[0]["what"])
            else:
                out.violation("stack %d op %d: layers missed an emission after an unconsumed enabled pass: %s" % (b, pos, json.dumps(rec)[:400]),
                              {"behaviour": behs[b], "failing_step": pos})


def stack_at(beh, pos):
    """the stack as it is at trace line `pos` of the behaviour (reset = 0, build = 1, step i = i + 2): swap elements carry
    their current state"""
    state = {}
    for st in beh["steps"][:max(0, pos - 1)]:
        if st.get("op") == "swap":
            state[st["id"]] = st["on"]
    if not state:
        return beh["stack"]

    def go(e):
        if isinstance(e, dict):
            e = {k: go(v) for k, v in e.items()}
            if e.get("e") == "swap" and e.get("id") in state:
                e["on"] = state[e["id"]]
            return e
        if isinstance(e, list):
            return [go(x) for x in e]
        return e
    return go(beh["stack"])


def has_and_then(elems):
    """signature of known finding F17: at least two top-level elements, one of them (or a descendant) an
    `and_then` tree with an `Option::None` half"""
    def none(e):
        return e is not None and e["e"] == "opt" and e.get("inner") is None

    def go(e):
        if e is None:
            return False
        if e["e"] == "and_then" and (none(e["a"]) or none(e["b"])):
            return True
        return any(go(x) for x in ([e.get("inner"), e.get("a"), e.get("b")] + list(e.get("items", []))) if isinstance(x, dict))
    return len(elems) >= 2 and any(go(e) for e in elems)


def has_vec_none(elems):
    """signature of known finding F28: at least two top-level elements, a `Vec` with an `Option::None` member next to at
    least one other member somewhere, and the BOTTOM element of the stack (the one layered directly on the registry) is
    itself absent (`None`) or is such a Vec - the two shapes in which the unchanged code publishes an unsound hint:
    `None | .. vec[.., None] ..` (hint OFF) and `vec[filtered, None] | more verbose layers` (the Vec's hint caps them)"""
    def none(e):
        return e is not None and e["e"] == "opt" and e.get("inner") is None

    def absent(e):      # None, an empty Vec, a reload handle currently holding None - possibly behind wrappers
        e = unwrap(e)
        return e is not None and (none(e) or (e["e"] == "vec" and not e["items"]) or (e["e"] == "swap" and not e["on"]))

    def vecnone(e):
        return e is not None and e["e"] == "vec" and len(e["items"]) >= 2 and any(none(x) for x in e["items"])

    def unwrap(e):
        while e is not None and (e["e"] in ("box", "reload") or (e["e"] == "opt" and e.get("inner") is not None) or (e["e"] == "vec" and len(e["items"]) == 1)):
            e = e["inner"] if e["e"] != "vec" else e["items"][0]
        return e

    def go(e):
        if e is None:
            return False
        if vecnone(e):
            return True
        return any(go(x) for x in ([e.get("inner"), e.get("a"), e.get("b")] + list(e.get("items", []))) if isinstance(x, dict))
    if len(elems) < 2 or not any(go(e) for e in elems):
        return False
    return absent(elems[0]) or vecnone(unwrap(elems[0]))


def replay(out, path):
    d = json.load(open(path))["replay"]
    lines, found, _ = lc.execute([d["behaviour"]], "c07_replay", "c07")
    for x in lines:
        print(json.dumps(x))
    judge(out, [d["behaviour"]], lines, found, "C07")
