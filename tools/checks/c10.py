"""C10 - macros record each field once, typed, in order; disabled ones evaluate nothing (spec/Fields)."""
import json
import random
import struct
import subprocess
import sys

import trace
import vlib
from vlib import SPEC, VERIF

D = SPEC / "Fields"
CORPUS = VERIF / "harness/vh/corpus/macros.json"

UBITS = {"u8": 8, "u16": 16, "u32": 32, "u64": 64, "usize": 64, "u128": 128}
IBITS = {"i8": 8, "i16": 16, "i32": 32, "i64": 64, "isize": 64, "i128": 128}
SAFE = "abc XYZ 019 _-:/ é ß 日本 \U0001F600"          # Debug leaves these unchanged
WILD = ["", "\u0000", "\n\t\r", "\"quoted\" \\ back", "\u0085​‮", "\U0001F468‍\U0001F469", "é", "x" * 300, "﻿", "tab\there"]
F64 = [0x0, 0x8000000000000000, 0x7ff0000000000000, 0xfff0000000000000, 0x7ff8000000000000, 0x1, 0x7fefffffffffffff, 0x3ff0000000000000, 0xbff8000000000000]
F32 = [0x0, 0x80000000, 0x7f800000, 0xff800000, 0x7fc00000, 0x1, 0x7f7fffff, 0x3f800000, 0xc0490fdb]


def hx(s):
    return s.encode("utf-8").hex()


def rust_debug_str(s):
    out = '"'
    for ch in s:
        out += {'"': '\\"', "\\": "\\\\", "\n": "\\n", "\t": "\\t", "\r": "\\r"}.get(ch, ch)
    return out + '"'


def base_ty(ty):
    for p in ("nz_", "wrapping_", "ref_", "refref_", "mutref_", "box_"):
        if ty.startswith(p) and ty[len(p):] in list(UBITS) + list(IBITS):
            return ty[len(p):], p
    return ty, ""


def gen_slot(rng, ty, sigil):
    """returns the slot record: v (input), canon / disp / dbg (expected texts)"""
    b, pre = base_ty(ty)
    if b in UBITS or b in IBITS:
        bits = UBITS.get(b) or IBITS[b]
        lo, hi = (0, 2 ** bits - 1) if b in UBITS else (-2 ** (bits - 1), 2 ** (bits - 1) - 1)
        v = rng.choice([lo, hi, 0, 1, -1 if lo < 0 else 2, hi - 1, lo + 1, rng.randint(lo, hi), rng.randint(lo, hi)])
        if pre == "nz_" and v == 0:
            v = hi
        return {"ty": ty, "v": str(v), "canon": str(v), "disp": hx(str(v)), "dbg": hx(str(v))}
    if ty == "f64":
        bits = rng.choice(F64 + [rng.getrandbits(64)])
        if (bits >> 52) & 0x7ff == 0x7ff and bits & ((1 << 52) - 1):
            bits = 0x7ff8000000000000
        return {"ty": ty, "v": "%016x" % bits, "canon": "%016x" % bits}
    if ty == "f32":
        bits = rng.choice(F32 + [rng.getrandbits(32)])
        if (bits >> 23) & 0xff == 0xff and bits & ((1 << 23) - 1):
            bits = 0x7fc00000
        f = struct.unpack("<f", struct.pack("<I", bits))[0]
        return {"ty": ty, "v": "%08x" % bits, "canon": "%016x" % struct.unpack("<Q", struct.pack("<d", f))[0]}
    if ty == "bool":
        v = rng.choice(["true", "false"])
        return {"ty": ty, "v": v, "canon": v, "disp": hx(v), "dbg": hx(v)}
    if ty in ("str", "string", "string_ref", "box_str"):
        if sigil:
            s = "".join(rng.choice(SAFE) for _ in range(rng.randint(0, 12))) + rng.choice(["", "\"", "\\", "\n", "a\tb"])
        else:
            s = rng.choice(WILD + ["".join(chr(rng.choice([rng.randint(1, 0x7f), rng.randint(0x80, 0x7ff), rng.randint(0x800, 0xd7ff), rng.randint(0x10000, 0x10ffff)]))
                                           for _ in range(rng.randint(1, 10)))])
        return {"ty": ty, "v": "", "str": hx(s), "canon": hx(s), "disp": hx(s), "dbg": hx(rust_debug_str(s))}
    if ty == "bytes":
        bs = bytes(rng.getrandbits(8) for _ in range(rng.choice([0, 1, 2, 16, 70])))
        return {"ty": ty, "v": "", "bytes": bs.hex(), "canon": bs.hex()}
    if ty in ("err", "err_send", "err_sync", "err_send_sync", "box_err"):
        chain = ["e%d-%s" % (i, rng.choice(["io", "parse é", "x|y", ""])) for i in range(rng.randint(1, 3))]
        return {"ty": ty, "v": "", "chain": chain, "canon": hx("|".join(chain))}
    if ty in ("dd", "display_dd", "debug_dd"):
        n = rng.randint(0, 99999)
        return {"ty": ty, "v": str(n), "canon": hx(("D%d" if ty != "debug_dd" else "G%d") % n), "disp": hx("D%d" % n), "dbg": hx("G%d" % n)}
    raise vlib.ToolError("no value generator for type %s" % ty)


def unhx(h):
    return bytes.fromhex(h).decode("utf-8")


def make_case(rng, site, mode):
    uses = {}
    for f in site["fields"]:
        if f["slot"] >= 0:
            uses[f["slot"]] = (f["ty"], f["kind"] in ("disp", "dbg"))
    msg = site["message"]
    if msg:
        for a in msg["args"]:
            uses[a["slot"]] = (a["ty"], True)
    for r in site["record"]:
        if r["set"]:
            for e in r["entries"]:
                uses[e["slot"]] = (e["ty"], False)
        else:
            uses[r["slot"]] = (r["ty"], False)
    slots = [gen_slot(rng, *uses.get(i, ("u8", False))) for i in range(site["nslots"])]
    for s in slots:
        for k in ("canon", "disp", "dbg"):
            s.setdefault(k, "")
    decl = {"kind": site["kind"], "level": site["level"], "target": site["target"] or "", "name": site["name"] or "",
            "fields": site["fields"], "record": site["record"], "message": {"present": False, "text": "", "args": []},
            "parent": {"span": "given", "none": "root"}.get(site.get("parent"), "ctx")}
    if msg:
        text = msg["tpl"]
        for a in msg["args"]:
            text = text.replace("{}", unhx(slots[a["slot"]]["disp" if a["how"] == "disp" else "dbg"]), 1)
        decl["message"] = {"present": True, "text": hx(text), "args": [{"slot": a["slot"], "pre": a["pre"]} for a in msg["args"]]}
    cap = 0
    if mode == "cap":
        cap = site["level"] - 1 if rng.random() < 0.8 else rng.randint(site["level"], 5)
    return {"cs": site["id"], "mode": mode, "cap": cap, "slots": slots, "decl": decl, "after_panic": rng.random() < 0.1}


def gen_cases(rng, sites, reps):
    cases = []
    for s in sites:
        if s["skipped"]:
            continue
        for mode in ("accept", "never", "dynamic", "cap"):
            for _ in range(reps if mode == "accept" else 1):
                cases.append(make_case(rng, s, mode))
    return cases


def execute(cases, name, nchunks=8, static=False):
    w = vlib.workdir(name)
    vlib.write_ndjson(w / "cases.ndjson", cases)
    if static:   # the same driver and corpus built with tracing's `max_level_info`
        bins = vlib.cargo_build(["macros_static"], package="vh-static", workspace=VERIF / "harness-static", target="../harness/target-static")
        bins["macros"] = bins["macros_static"]
    else:
        bins = vlib.cargo_build(["macros"])
    vlib.run_bin(bins["macros"], env={"VH_IN": w / "cases.ndjson", "VH_OUT": w / "trace.ndjson"}, timeout=1800)
    lines = vlib.read_ndjson(w / "trace.ndjson")
    found, results = trace.validate(D, "FieldsTrace", lines, name, nchunks=nchunks, jobs=nchunks, tags=("BAD", "BADP"), timeout=2400)
    return lines, found, results


def judge(out, sites, cases, found, tag=""):
    seen = set()
    for b, pos, rec in found["BAD"]:
        c = cases[rec["n"]]
        key = (rec["cs"], rec["mode"], tag)
        if key in seen:
            continue
        seen.add(key)
        src = sites[rec["cs"]]["src"] if rec["cs"] < len(sites) else "?"
        out.violation("callsite %d `%s!(%s)` under a collector in mode %s%s: evals=%s calls=%s differ from Fields" % (
            rec["cs"], sites[rec["cs"]]["macro"], src[:200], rec["mode"], tag, rec["evals"], json.dumps(rec["calls"])[:500]),
            {"case": c, "src": src, "macro": sites[rec["cs"]]["macro"], "observed": {k: rec[k] for k in ("evals", "calls", "notes")}})


LEVELS_WS = VERIF / "harness-levels"


def probe_builds(cases, name):
    """builds the level probe once per configuration (profile x feature set) from /repo's tree and runs it"""
    import os
    import shutil
    if not (LEVELS_WS / "Cargo.lock").exists():
        shutil.copy("/repo/Cargo.lock", LEVELS_WS / "Cargo.lock")
    env = dict(os.environ, CARGO_NET_OFFLINE="true")
    lines = []
    for c in cases:
        cmd = ["cargo", "build", "--offline", "--quiet"] + (["--release"] if c["release"] else [])
        if c["features"]:
            cmd += ["--features", ",".join(c["features"])]
        p = subprocess.run(cmd, cwd=LEVELS_WS, env=env, capture_output=True, text=True, timeout=900)
        if p.returncode != 0:
            vlib.log(p.stderr[-4000:])
            raise vlib.ToolError("cargo build of the level probe failed for %s" % (c,))
        exe = VERIF / "harness/target-levels" / ("release" if c["release"] else "debug") / "levelprobe"
        r = subprocess.run([str(exe)], capture_output=True, text=True, timeout=60)
        try:
            o = json.loads(r.stdout)
        except ValueError:
            o = {"static_max": -1, "release": c["release"], "levels": [], "crash": (r.stdout + r.stderr)[-300:]}
        lines.append({"features": c["features"], "release": c["release"], "out": o})
    w = vlib.workdir(name)
    vlib.write_ndjson(w / "trace.ndjson", lines)
    t = vlib.require_ok(vlib.tlc(D, "StaticLevelTrace", env={"TRACE": w / "trace.ndjson"}, workers=1, dfs=True), "StaticLevelTrace")
    bad = t.tagged("BAD")
    if len(bad) != 1:
        raise vlib.ToolError("StaticLevelTrace did not report")
    return lines, bad[0]


def static_levels(out, tier):
    """the compile-time stage for every one of the twelve max-level features (thorough: every pair), in both profiles"""
    quick = tier == "quick"
    w = vlib.workdir("c10l")
    r = vlib.require_ok(vlib.tlc(D, "MCStaticLevel", cfg="MCStaticLevel" if quick else "MCStaticLevelT", env={"CASES_OUT": w / "cases.ndjson"}, workers=2),
                        "StaticLevel: the feature ladder implements the documented cap")
    out.add_tlc(r, "MCStaticLevel exhaustive: every set of <= %d of the 12 max_level features x {debug, release}: ladder (M) = documented cap (A); case list exported" % (1 if quick else 2))
    cases = vlib.read_ndjson(w / "cases.ndjson")
    if len(cases) != r.distinct:
        raise vlib.ToolError("case export incomplete: %d != %d" % (len(cases), r.distinct))
    lines, bad = probe_builds(cases, "c10l")
    for i in bad:
        row = lines[i - 1]
        out.violation("build with features %s (%s profile): STATIC_MAX_LEVEL / macro behaviour differ from StaticLevel: %s" % (
            row["features"], "release" if row["release"] else "debug", json.dumps(row["out"])[:400]), {"levels_case": {"features": row["features"], "release": row["release"]}, "observed": row["out"]})
    return len(cases)


def regen():
    r = subprocess.run([sys.executable, str(VERIF / "tools/gen_macro_corpus.py")], capture_output=True, text=True)
    if r.returncode != 0:
        raise vlib.ToolError("macro corpus generation failed: " + r.stderr[-500:])
    vlib.log(r.stdout.strip())


def run(out, tier):
    quick = tier == "quick"
    regen()
    sites = json.load(open(CORPUS))
    r = vlib.require_ok(vlib.tlc(D, "MCFields", cfg="MCFields", workers=4, timeout=1200), "Fields: macro expansion mechanism == ExpectedVisits / ExpectedEvals")
    out.add_tlc(r, "MCFields exhaustive: every callsite shape of <= 3 fields x {value, %, ?, Empty} x {message, none} x 4 collector modes; the expansion's "
                   "step-by-step run (gates, array construction, ValueSet::record) ends with exactly ExpectedVisits and ExpectedEvals")
    rng = random.Random(vlib.seed() * 17 + 10)
    cases = gen_cases(rng, sites, 2 if quick else 12)
    lines, found, results = execute(cases, "c10", nchunks=8 if quick else 14)
    judge(out, sites, cases, found)
    # the compile-time stage: the same corpus in a build capped at INFO (`max_level_info`), accepting and capping collectors
    scases = [c for c in gen_cases(random.Random(vlib.seed() * 17 + 11), sites, 1) if c["mode"] in ("accept", "cap")]
    if quick:
        scases = scases[::2]
    slines, sfound, _ = execute(scases, "c10s", nchunks=8 if quick else 14, static=True)
    if not all(x.get("static_max") == 3 for x in slines if x.get("ev") == "run"):
        raise vlib.ToolError("the static build does not report STATIC_MAX_LEVEL = INFO")
    judge(out, sites, scases, sfound, " [build with max_level_info]")
    nbuilds = static_levels(out, tier)
    out.extra["static_level_builds"] = nbuilds
    cases = cases + scases
    live = [s for s in sites if not s["skipped"]]
    out.traces = len(cases)
    out.evaluations = sum(len(c["slots"]) + len(c["decl"]["fields"]) + 1 for c in cases)
    out.distinct_nontrivial = len(live)
    out.exhaustive = False
    out.rule = ("a case is one generated macro callsite (%d forms compile: span!, event!, the ten level shorthands, enabled! x every name form (ident, dotted, "
                "string literal, r#, {CONST}) x value form (=, =%%, =?, Empty, shorthand, %%shorthand, ?shorthand) x position (alone, followed by a field, "
                "followed by a message) x prefixes (name:, target:, parent:) x 53 value types, plus later Span::record calls) run under one of four "
                "collectors (accepting, Interest::never, enabled()=false, max-level hint below the level) with one assignment of boundary / random values; "
                "every run is validated by TLC against Fields (visits: names, order, typed method, exact text; evaluation counts; no collector call when "
                "disabled); %d forms the macros reject at compile time are listed in harness/vh/corpus/macros_skip.json" % (len(live), len(sites) - len(live)))
    out.samples = [live[0]["src"], live[100]["src"], live[len(live) // 2]["src"], cases[0]["slots"][:2]]
    out.assumptions = ["built without tracing's `log` feature (with it disabled callsites evaluate fields for `log`; see C18)",
                       "expected Display/Debug texts of sigil fields come from a restricted alphabet whose Rust formatting is known; typed fields use arbitrary values",
                       "the whole corpus runs under one compile-time cap (max_level_info, second build); every other cap - each of the twelve features in both "
                       "profiles, thorough: every pair - is exercised by a probe (event!, span!, shorthands, enabled! at each level) built once per configuration"]


def replay(out, path):
    d = json.load(open(path))["replay"]
    sites = json.load(open(CORPUS))
    if "levels_case" in d:
        lines, bad = probe_builds([d["levels_case"]], "c10l_replay")
        print(json.dumps(lines[0]))
        if bad:
            out.violation("build with features %s: differs from StaticLevel" % (d["levels_case"],), d)
        return
    c = d["case"]
    lines, found, _ = execute([c], "c10_replay", nchunks=1)
    for x in lines:
        print(json.dumps(x)[:3000])
    judge(out, sites, [c], found)
