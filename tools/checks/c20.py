"""C20 - the default timestamp is the correct UTC calendar time (spec/Calendar)."""
import datetime
import json
import random

import trace
import vlib
from vlib import SPEC

CYCLE = 146097
TIMES = [[0, 0], [45296, 789012345], [86399, 999999999]]


def split(date):
    o = date.toordinal() - 1
    return o // CYCLE, o % CYCLE


def jobs(tier, rng):
    J = []
    if tier == "quick":
        # complete sweep of one 400-year cycle (1601-2000), times of day rotating
        J.append({"kind": "days", "cyc": 4, "from": 0, "to": CYCLE - 1, "times": TIMES, "rotate": True})
        years = list(range(1, 10000, 100)) + list(range(1890, 2111)) + [2, 3, 4, 5, 9996, 9997, 9998, 9999, 400, 800, 1200, 1600, 2000, 2400]
    else:
        for c in range(0, 25):
            J.append({"kind": "days", "cyc": c, "from": 0, "to": CYCLE - 1 if c < 24 else split(datetime.date(9999, 12, 31))[1], "times": TIMES, "rotate": False})
        years = list(range(1, 10000))
    # every second around year boundaries; around leap days; around the epoch
    w = 10 if tier == "quick" else 4
    for y in sorted(set(years)):
        c, d = split(datetime.date(y, 1, 1))
        J.append({"kind": "window", "cyc": c, "dic": d, "before": w, "after": w, "ns": [0, 999999999]})
        leap = (y % 4 == 0 and y % 100 != 0) or y % 400 == 0
        # the leap-day boundaries (or, in a common year, the 28 Feb -> 1 Mar boundary)
        c, d = split(datetime.date(y, 3, 1))
        J.append({"kind": "window", "cyc": c, "dic": d, "before": w, "after": w, "ns": [500000000]})
        if leap:
            c, d = split(datetime.date(y, 2, 29))
            J.append({"kind": "window", "cyc": c, "dic": d, "before": w, "after": w, "ns": [0, 999999999]})
    c, d = split(datetime.date(1970, 1, 1))
    J.append({"kind": "window", "cyc": c, "dic": d, "before": 7200 if tier == "quick" else 3 * 86400, "after": 7200 if tier == "quick" else 3 * 86400, "ns": [0] if tier == "quick" else [0, 1, 999999]})
    J.append({"kind": "window", "cyc": c, "dic": d, "before": 400, "after": 400, "ns": [0, 1, 999, 1000, 1999, 500000000, 999999000, 999999999]})
    # instants before 1970 with and without sub-second parts, random instants over the full range
    lo, hi = -(2 ** 63), 2 ** 63 - 1
    n = 20000 if tier == "quick" else 400000
    inst = []
    for _ in range(n):
        k = rng.random()
        if k < 0.3:
            s = rng.randint(lo, hi)
        elif k < 0.6:
            s = rng.randint(-62135596800, 253402300799)  # years 1..9999
        elif k < 0.8:
            s = -rng.randint(0, 10 ** rng.randint(1, 18))
        else:
            s = rng.randint(-(2 ** 33), 2 ** 33)
        ns = rng.choice([0, 0, 1, 999, 1000, 123456789, 999999999, rng.randint(0, 999999999)])
        inst.append((s, ns))
    # the extremes of SystemTime (i64 seconds)
    for s in [lo, lo + 1, lo + 2, lo + 86400, hi, hi - 1, hi - 86400, -1, 0, 1, -62135596800, -62135596801, 253402300799, 253402300800]:
        for ns in [0, 1, 999999999]:
            inst.append((s, ns))
    inst = sorted(set(inst))
    for i in range(0, len(inst), 5000):
        J.append({"kind": "instants", "list": [[str(s), ns] for s, ns in inst[i:i + 5000]]})
    return J


def run(out, tier):
    quick = tier == "quick"
    r = vlib.require_ok(vlib.tlc(SPEC / "Calendar", "Calendar", cfg="CalendarQ" if quick else "CalendarT", workers=2, timeout=3000, heap="6g"),
                        "Calendar odometer vs closed form")
    out.add_tlc(r, "Calendar: day odometer over %s + second-of-day odometer (86400 s); invariants CivilIsOdometer, ClockIsOdometer, Periodic, WellFormed"
                % ("one 400-year cycle (146097 days)" if quick else "0001-01-01..9999-12-31 (3652059 days)"))
    rng = random.Random(vlib.seed())
    J = jobs(tier, rng)
    w = vlib.workdir("c20")
    vlib.write_ndjson(w / "jobs.ndjson", J)
    bins = vlib.cargo_build(["c20"])
    vlib.run_bin(bins["c20"], env={"VH_IN": w / "jobs.ndjson", "VH_OUT": w / "trace.ndjson"}, timeout=3000)
    lines = vlib.read_ndjson(w / "trace.ndjson")
    found, results = trace.validate(SPEC / "Calendar", "CalendarTrace", lines, "c20", nchunks=16 if quick else 160, jobs=14,
                                    tags=("BAD", "MONO"), timeout=3000)
    recs = [x for x in lines if x.get("ev") == "ts"]
    out.traces = len(J)
    out.evaluations = len(recs)
    out.distinct_nontrivial = len({(x["secs"], x["ns"]) for x in recs})
    out.exhaustive = not quick
    out.rule = ("each evaluation formats one instant with the real SystemTime::format_time (clock hook) and TLC checks the parsed text "
                "against Civil/Clock of spec/Calendar; instants: " + ("every day of the 400-year cycle 1601-2000 (times of day rotating), " if quick else
                "every day 0001-01-01..9999-12-31 at 00:00:00, 12:34:56.789012345, 23:59:59.999999999, ") +
                "every second in windows around year / leap-day / century / 400-year boundaries and the epoch, pre-1970 instants with sub-second "
                "parts, random instants over the whole i64 range of SystemTime; distinct = distinct (secs, nanos)")
    out.samples = [recs[0], recs[len(recs) // 2], recs[-1]]
    out.assumptions = ["the Euclidean split of an instant into (400-year cycle, day in cycle, second of day) is computed by the harness in i128",
                       "the clock hook substitutes only the instant; formatting goes through SystemTime::format_time"]
    known = vlib.known_findings("C20")
    for b, pos, rec in found["BAD"]:
        k = [f for f in known if matches(f, rec)]
        if k:
            out.known_finding(k[0]["id"], k[0]["what"])
        else:
            out.violation("timestamp %r printed for instant secs=%s ns=%s is not the UTC calendar time" % (rec.get("text", rec.get("panic")), rec["secs"], rec["ns"]), rec)
    for b, pos, rec in found["MONO"]:
        out.violation("printed timestamps not monotone at instant secs=%s ns=%s: %r" % (rec["secs"], rec["ns"], rec.get("text")), rec)


def matches(f, rec):
    sig = f["signature"]
    if sig.get("kind") == "extreme_min":
        return int(rec["secs"]) <= -(2 ** 63) + 1 and "panic" in rec
    return False


def replay(out, path):
    rec = json.load(open(path))["replay"]
    w = vlib.workdir("c20_replay")
    vlib.write_ndjson(w / "jobs.ndjson", [{"kind": "instants", "list": [[rec["secs"], rec["ns"]]]}])
    bins = vlib.cargo_build(["c20"])
    vlib.run_bin(bins["c20"], env={"VH_IN": w / "jobs.ndjson", "VH_OUT": w / "trace.ndjson"})
    print(open(w / "trace.ndjson").read())
