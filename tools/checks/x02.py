"""X02 (beyond the listed properties) - the busy / idle times the fmt subscriber reports at span close (spec/SpanTimings)."""
import json

import trace
import vlib
from vlib import SPEC

D = SPEC / "SpanTimings"


def execute(behs, name):
    w = vlib.workdir(name)
    vlib.write_ndjson(w / "behaviours.ndjson", behs)
    bins = vlib.cargo_build(["timings"])
    vlib.run_bin(bins["timings"], env={"VH_IN": w / "behaviours.ndjson", "VH_OUT": w / "trace.ndjson"}, timeout=900)
    lines = vlib.read_ndjson(w / "trace.ndjson")
    found, results = trace.validate(D, "SpanTimingsTrace", lines, name, nchunks=4, jobs=4, tags=("BAD",))
    devs = sum(r.tagged("DEVS")[0] for r in results if r.tagged("DEVS"))
    f33 = sum(r.tagged("F33")[0] for r in results if r.tagged("F33"))
    return lines, found, (devs, f33)


def judge(out, behs, lines, found):
    seen = set()
    for b, pos, rec in sorted(found["BAD"], key=lambda x: (x[0], x[1])):
        if b in seen:
            continue
        seen.add(b)
        out.violation("timing history %d, record %d: close lines / reported busy and idle times contradict SpanTimings: %s" % (b, pos, json.dumps(rec)[:500]),
                      {"behaviour": behs[b], "failing_step": pos, "observed": rec})


def run(out, tier):
    quick = tier == "quick"
    r = vlib.require_ok(vlib.tlc(D, "SpanTimings", workers=6, timeout=1800, heap="8g"), "SpanTimings: Conservation, NoOverlapAgrees, OverlapUnderReportsBusy")
    out.add_tlc(r, "SpanTimings exhaustive: 2 spans, clock <= 4, entry depth <= 2; invariants Conservation, NoOverlapAgrees, OverlapUnderReportsBusy")
    neg = vlib.tlc(D, "SpanTimings", cfg="SpanTimingsOverlap", workers=2, timeout=600)
    if neg.kind != "invariant":
        raise vlib.ToolError("named deviation OverlapBookedByLastEvent: TLC did not find the overlapping-entries counterexample to AlwaysAgrees")
    out.extra["deviation_OverlapBookedByLastEvent_exhibited_by_model"] = True
    s = vlib.tlc(D, "MCSpanTimingsSim", workers=1, simulate=(150 if quick else 3000), depth=60, seed_=vlib.seed() + 91, timeout=900)
    if not s.ok:
        vlib.log(s.out[-3000:])
        raise vlib.ToolError("MCSpanTimingsSim failed: %s" % s.kind)
    behs = s.tagged("BEH")
    out.tlc_runs.append({"what": "MCSpanTimingsSim -simulate: histories of 40 operations (2 threads, 4 spans, overlapping and re-entrant entries, the handle dropped "
                                 "before, between or after the entries)", "behaviours": len(behs), "wall_s": round(s.wall, 1)})
    lines, found, (devs, f33) = execute(behs, "x02")
    judge(out, behs, lines, found)
    known = [f for f in vlib.known_findings("C13") if f["id"] == "F33"]
    if f33 and known:
        for _ in range(f33):
            out.known_finding("F33", known[0]["what"])
    elif f33:
        out.violation("%d exits that close their span panicked 'Span not found' in the fmt subscriber's on_exit (finding F33 is not listed as open)" % f33,
                      {"count": f33})
    ops = [x for x in lines if x.get("ev") == "op"]
    out.traces = len(behs)
    out.evaluations = len(ops)
    out.distinct_nontrivial = len({json.dumps(b["steps"], sort_keys=True) for b in behs if sum(1 for st in b["steps"] if st["op"] in ("enter", "exit")) >= 6})
    out.extra["close_lines"] = sum(len(x.get("lines", [])) for x in ops)
    out.extra["closes_showing_the_named_deviation"] = devs
    out.extra["clock_overflow_runs"] = sum(1 for x in ops if x.get("overflow"))
    out.rule = ("a case is one TLC -simulate history of MCSpanTimingsSim run in its own OS process against Registry + fmt subscriber (JSON, FmtSpan::CLOSE); every "
                "operation's written lines, the busy / idle values of close lines and the driver's clock readings are validated by TLC against SpanTimingsTrace")
    out.samples = [behs[0]["steps"][:8], [x for x in ops if x.get("lines")][:3]]
    out.assumptions = ["reported times are compared within the resolution of their printed form (three significant digits)",
                       "named deviation OverlapBookedByLastEvent (overlapping entries of one span: part of the entered time is reported as idle) is counted, not reported as a violation - no listed property covers it"]


def replay(out, path):
    obj = json.load(open(path))["replay"]
    behs = [obj["behaviour"]]
    lines, found, _ = execute(behs, "x02_replay")
    judge(out, behs, lines, found)
    out.traces = 1
    out.rule = "replay of one stored timing history"
    out.samples = [behs[0]["steps"][:8]]
