"""C08 - static summaries of filters (interest, max-level hint) are sound upper bounds (spec/Filters, spec/LayerStack)."""
import json
import random

import trace
import vlib
from vlib import SPEC
from checks import layerstack_common as lc
from checks import c07

D = SPEC / "Filters"


def run(out, tier):
    quick = tier == "quick"
    w = vlib.workdir("c08")
    cases = w / "exprs.ndjson"
    # 1. the combinator formulas of the code (M) are sound for every expression x metadata x context
    r = vlib.require_ok(vlib.tlc(D, "MCFilters", cfg="MCFiltersQ" if quick else "MCFiltersT", env={"CASES_OUT": cases}, workers=8, timeout=3000, heap="8g"),
                        "Filters: SummariesSound for every expression")
    out.add_tlc(r, "MCFilters exhaustive: one state per filter expression (%s), invariant SummariesSound over 5 levels x 4 targets x {event, span} x 2 contexts"
                % ("all expressions of depth <= 2" if quick else "depth <= 2 plus a depth-3 family"))
    # 1b. the stack-level combination of hints (Layered::pick_level_hint + none-marker): sound for every stack of <= 3 elements
    #     outside the shape of known finding F17, and the model exhibits F17 itself
    LS = SPEC / "LayerStack"
    rh = vlib.require_ok(vlib.tlc(LS, "HintCombine", cfg="HintCombine", workers=4, timeout=900), "HintCombine: UnsoundOnlyF17, SoundOutsideF17")
    out.add_tlc(rh, "HintCombine exhaustive: every stack of <= 3 elements (leaf with hint NoHint/OFF/ERROR/INFO/TRACE, absent leaf, and_then of two leaves, "
                    "Vec of <= 2 leaves): an unsound published hint occurs only in the shapes of findings F17 / F28")
    out.extra["f17_counterexample_in_model"] = (vlib.tlc(LS, "HintCombine", cfg="HintCombineF17", workers=2, timeout=300).kind == "invariant")
    # a candidate repair (a composite answers the none-marker query only if ALL its members are absent) is sound for every such stack
    out.extra["all_members_rule_sound_in_model"] = vlib.tlc(LS, "HintCombine", cfg="HintCombineFixed", workers=4, timeout=900).ok
    exprs = vlib.read_ndjson(cases)
    # 2. the REAL filters: what they publish vs what they decide, observed through a Spy on a real stack
    bins = vlib.cargo_build(["filters"])
    vlib.run_bin(bins["filters"], env={"VH_IN": cases, "VH_OUT": w / "trace.ndjson"}, timeout=1800)
    lines = vlib.read_ndjson(w / "trace.ndjson")
    # one chunk boundary per 300 lines: insert resets
    chunked = []
    for i, x in enumerate(lines[1:]):
        if i % 300 == 0:
            chunked.append({"ev": "reset", "beh": i // 300})
        chunked.append(x)
    found, results = trace.validate(D, "FiltersTrace", chunked, "c08", nchunks=8, jobs=8, tags=("BAD", "DRIFT"), timeout=1800)
    n_eval = sum(len(x.get("res", [])) for x in lines)
    for b, pos, rec in found["BAD"]:
        bad_entries = [e for e in rec.get("res", []) if not sound(e, rec["hint"])][:3]
        out.violation("filter %s in context %s publishes a summary its own decision contradicts: hint=%s %s"
                      % (json.dumps(rec["f"]), rec["ctx"], rec["hint"], json.dumps(bad_entries)), {"f": rec["f"], "ctx": rec["ctx"], "hint": rec["hint"], "entries": bad_entries})
    for b, pos, rec in found["DRIFT"]:
        out.drift.append("real filter differs from the formulas of FilterExpr: %s ctx=%s" % (json.dumps(rec["f"]), rec["ctx"]))
    # 3. whole stacks: the composed collector's register_callsite / max_level_hint vs what any layer would receive
    rng = random.Random(vlib.seed() * 11 + 8)
    behs = []
    for _ in range(500 if quick else 5000):
        b = lc.behaviour(rng, "c07")
        b["steps"] = b["steps"][:5]
        behs.append(b)
    slines, sfound, sres = lc.execute(behs, "c08s", "c07")
    seen = set()
    f17 = [f for f in vlib.known_findings("C08") if f["id"] == "F17"]
    f28 = [f for f in vlib.known_findings("C08") if f["id"] == "F28"]
    for b, pos, rec in sfound["BAD8"]:
        if b in seen:
            continue
        seen.add(b)
        if f17 and c07.has_and_then(behs[b]["stack"]):
            out.known_finding("F17", f17[0]["what"])
            continue
        if f28 and c07.has_vec_none(behs[b]["stack"]):
            out.known_finding("F28", f28[0]["what"])
            continue
        out.violation("stack %d: the composed collector's summary (register_callsite / max_level_hint) is below what its layers accept: hint=%s stack=%s"
                      % (b, rec["summary"]["hint"], json.dumps(behs[b]["stack"])[:600]), {"behaviour": behs[b], "summary": rec["summary"]})
    out.traces = len(exprs) + len(behs)
    out.evaluations = n_eval + 40 * len(behs)
    out.distinct_nontrivial = len(exprs) + len({json.dumps(b["flat"], sort_keys=True) for b in behs})
    out.exhaustive = False
    out.rule = ("filter level: every expression enumerated by TLC is built as a real filter and, through a Spy on a per-layer-filtered stack fed by 40 real "
                "macro callsites in 2 contexts, its callsite_enabled / max_level_hint / enabled answers are recorded (one evaluation per expression x "
                "metadata x context); stack level: random stacks, the composed collector's register_callsite for 40 metadata and its max_level_hint against "
                "what any layer would receive per Filters!Enabled; distinct = distinct expressions + distinct flat stacks")
    out.samples = [lines[1]["f"], {k: v for k, v in lines[1].items() if k != "res"}, lines[1]["res"][:3], behs[0]["stack"]]
    out.assumptions = ["dynamic closures are driven by a harness flag (context), not by registry lookups",
                       "EnvFilter is covered by C11, not by the expression grammar here"]


def sound(e, hint):
    cs, en, lvl = e["cs"], e["en"], e["m"]["lvl"]
    return not ((cs == "never" and en is True) or (cs == "always" and en is False) or (hint != 9 and en is True and lvl > hint))


def replay(out, path):
    d = json.load(open(path))["replay"]
    print(json.dumps(d)[:2000])
