"""C19 - levels and level filters: one total order, text round-trips (spec/Levels).
TLC enumerates the complete case table and checks M (the code's encoding) against A (Rank);
the harness evaluates every case with the real operators; TLC validates the results against A."""
import vlib
from vlib import SPEC, WORK


def run(out, tier):
    w = vlib.workdir("c19")
    cases = w / "cases.ndjson"
    trace = w / "trace.ndjson"
    r = vlib.require_ok(vlib.tlc(SPEC / "Levels", "MCLevels", env={"CASES_OUT": cases}, workers=4, coverage=True),
                        "Levels: M implements A on every case")
    out.add_tlc(r, "MCLevels exhaustive (one state per case; invariants MImplementsA, DeviationsStillThere, OperatorsCoherent, RoundTrip)")
    rows = vlib.read_ndjson(cases)
    if len(rows) != r.distinct:
        raise vlib.ToolError("case export incomplete: %d != %d" % (len(rows), r.distinct))

    bins = vlib.cargo_build(["c19"])
    vlib.run_bin(bins["c19"], env={"VH_IN": cases, "VH_OUT": trace})
    res = vlib.read_ndjson(trace)
    if len(res) != len(rows):
        raise vlib.ToolError("harness evaluated %d of %d cases" % (len(res), len(rows)))

    t = vlib.tlc(SPEC / "Levels", "LevelsTrace", env={"TRACE": trace}, workers=1, dfs=True)
    vlib.require_ok(t, "LevelsTrace: validation of implementation results against A")
    bad = t.tagged("BAD")
    if len(bad) != 1:
        raise vlib.ToolError("LevelsTrace did not report")
    bad = bad[0]
    out.traces = 1
    out.evaluations = len(res)
    out.exhaustive = True
    out.distinct_nontrivial = sum(1 for x in rows if not (x["c"]["k"] == "cmp" and x["c"]["lk"] == x["c"]["rk"] and x["c"]["l"] == x["c"]["r"]))
    out.rule = ("cases are the elements of the TLA+ set Levels!Cases (all ordered pairs of the 5 levels / 6 filters x kinds x "
                "10 operators, every case pattern of every name, digits 0-9, noise-affixed spellings, conversions, MAX_LEVEL "
                "round trips), each evaluated once by the real code; distinct by construction (a set); non-trivial = all except "
                "comparisons of a value with itself")
    out.samples = [res[i] for i in range(0, len(res), max(1, len(res) // 6))][:6]
    out.assumptions = ["ranks are read back from the Debug text of Level/LevelFilter, not through the operators under test",
                       "MAX_LEVEL round trip uses one child process per value and a collector publishing the hint"]
    known = vlib.known_findings("C19")
    seen_dev = set()
    for i in bad:
        row = res[i - 1]
        f = [k for k in known if k["signature"].get("dev") == row["dev"] and row["c"]["k"] == k["signature"]["kind"]]
        if f:
            out.known_finding(f[0]["id"], f[0]["what"])
            seen_dev.add(row["dev"])
        else:
            out.violation("real operator disagrees with the total order: %r" % (row,), row)
    for k in known:
        if k["signature"]["dev"] not in seen_dev:
            vlib.log("note: known finding %s no longer observed (stale entry?)" % k["id"])
    out.extra["binding"] = "spec->impl: TLC wrote the case table the harness evaluates; impl->spec: TLC (LevelsTrace) validated every result against A and checked the table is complete"


def replay(out, path):
    import json
    row = json.load(open(path))["replay"]
    w = vlib.workdir("c19_replay")
    vlib.write_ndjson(w / "cases.ndjson", [{"c": row["c"], "dev": row["dev"]}])
    bins = vlib.cargo_build(["c19"])
    vlib.run_bin(bins["c19"], env={"VH_IN": w / "cases.ndjson", "VH_OUT": w / "trace.ndjson"})
    print(open(w / "trace.ndjson").read())
