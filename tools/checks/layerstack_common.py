"""Shared by C07, C08 (stack clause) and C09: random stacks (tree form + flat form) and histories for
spec/LayerStack, executed by the harness binary `layerstack`."""
import json
import random

import trace
import vlib
from vlib import SPEC

D = SPEC / "LayerStack"
TGTS = ["a", "a::b", "ab", "b"]


# ---------------------------------------------------------------- filter expressions
def leaf(rng, dyn_ok=True):
    k = rng.choice(["level", "level", "targets", "fn"] + (["dyn", "dyn"] if dyn_ok else []))
    if k == "level":
        return {"k": "level", "l": rng.choice([0, 1, 2, 3, 4, 5])}
    if k == "targets":
        n = rng.choice([1, 2, 2, 3])
        ts = rng.sample(["", "a", "a::b", "ab", "b"], n)
        if rng.random() < 0.3:
            ts.append(rng.choice(ts))  # the same target again: the later directive replaces the earlier
        return {"k": "targets", "dirs": [{"t": t, "l": rng.choice([0, 1, 3, 5])} for t in ts]}
    if k == "fn":
        l = rng.choice([1, 3, 4])
        return {"k": "fn", "l": l, "tgt": rng.choice(["*", "a", "b"]), "hint": rng.choice([9, 9, l, 5])}
    l = rng.choice([1, 3, 5])
    return {"k": "dyn", "l": l, "flag": rng.choice(["", "p", "p"]), "hint": rng.choice([9, 9, l])}


def expr(rng, depth):
    if depth <= 0 or rng.random() < 0.5:
        return leaf(rng)
    k = rng.choice(["and", "or", "not", "some", "none"])
    if k == "none":
        return {"k": "none"}
    if k in ("not", "some"):
        return {"k": k, "a": expr(rng, depth - 1)}
    return {"k": k, "a": expr(rng, depth - 1), "b": expr(rng, depth - 1)}


# ---------------------------------------------------------------- stacks
class Namer:
    def __init__(self):
        self.i = 0
        self.ids = 0

    def next_id(self):
        self.ids += 1
        return self.ids

    def next(self):
        self.i += 1
        return "L%d" % self.i


def rec(nm, rng, sometimes=False):
    e = {"e": "rec", "name": nm.next()}
    if sometimes and rng.random() < 0.3:
        e["interest"] = "sometimes"
    return e


def filtered(nm, rng, inner=None, wraps=False):
    e = {"e": "filtered", "f": expr(rng, 2), "inner": inner or rec(nm, rng)}
    if wraps and rng.random() < 0.4:
        e["fwrap"] = rng.choice(["box", "arc", "some", "reload"])
    return e


def elem_c07(nm, rng):
    k = rng.choice(["rec", "filtered", "filtered", "filtered", "gfilter", "tree1", "tree2", "tree3", "vec", "vecnone", "opt", "box", "nested", "evveto"])
    if k == "rec":
        return rec(nm, rng)
    if k == "filtered":
        return filtered(nm, rng, wraps=True)
    if k == "gfilter":
        return {"e": "gfilter", "f": leaf(rng)}
    if k == "tree1":
        return {"e": "filtered", "f": expr(rng, 1), "inner": {"e": "and_then", "a": rec(nm, rng), "b": filtered(nm, rng)}}
    if k == "tree2":
        return {"e": "and_then", "a": filtered(nm, rng), "b": rng.choice([rec(nm, rng), filtered(nm, rng)])}
    if k == "tree3":
        none = {"e": "opt", "inner": None}
        a, b = rng.choice([(none, rec(nm, rng)), (rec(nm, rng), none), (none, filtered(nm, rng)), (filtered(nm, rng), none)])
        return {"e": "and_then", "a": a, "b": b}
    if k == "vec":
        return {"e": "vec", "items": [rng.choice([filtered(nm, rng), rec(nm, rng)]) for _ in range(rng.choice([1, 2, 2]))]}
    if k == "vecnone":   # an absent element next to real ones: the Vec answers the none-marker query although it is not absent
        items = [{"e": "opt", "inner": None}] + [rng.choice([filtered(nm, rng), filtered(nm, rng), rec(nm, rng)]) for _ in range(rng.choice([1, 1, 2]))]
        rng.shuffle(items)
        return {"e": "vec", "items": items}
    if k == "opt":
        none = {"e": "opt", "inner": None}
        # also an absent layer behind further wrappers: Some(None), Box(None)
        return rng.choice([{"e": "opt", "inner": filtered(nm, rng)}, none, none, {"e": "opt", "inner": none}, {"e": "box", "inner": none}])
    if k == "box":
        return {"e": "box", "inner": filtered(nm, rng)}
    if k == "nested":
        return {"e": "filtered", "f": expr(rng, 1), "inner": filtered(nm, rng)}
    return {"e": "evveto", "tgt": rng.choice(["b", "ab"])}


def wrapper(rng, inner, nm=None):
    k = rng.choice(["box", "opt", "vec1", "reload", "reload", "boxbox", "optbox"])
    if k == "box":
        return {"e": "box", "inner": inner}
    if k == "opt":
        return {"e": "opt", "inner": inner}
    if k == "vec1":
        return {"e": "vec", "items": [inner]}
    if k == "reload":
        e = {"e": "reload", "inner": inner}
        if nm is not None:
            e["id"] = nm.next_id()
        return e
    if k == "boxbox":
        return {"e": "box", "inner": {"e": "box", "inner": inner}}
    return {"e": "opt", "inner": {"e": "box", "inner": inner}}


def elem_c09(nm, rng):
    k = rng.choice(["rec", "rec", "wrapped", "wrapped", "wrapped", "none", "emptyvec", "identity", "and_then", "vec2", "evveto", "wrapped_none", "swap", "swap"])
    if k == "rec":
        return rec(nm, rng, sometimes=True)
    if k == "wrapped_none":     # an absent layer behind further wrappers: Some(None), Box(None), Some(vec![]), [None], reload(None) ...
        return wrapper(rng, rng.choice([{"e": "opt", "inner": None}, {"e": "vec", "items": []}]))
    if k == "wrapped":
        return wrapper(rng, rec(nm, rng, sometimes=True), nm)
    if k == "swap":              # reload handle over Some(layer) / None, switched during the history
        return {"e": "swap", "id": nm.next_id(), "on": rng.random() < 0.6, "inner": rec(nm, rng)}
    if k == "none":
        return {"e": "opt", "inner": None}
    if k == "emptyvec":
        return {"e": "vec", "items": []}
    if k == "identity":
        return {"e": "identity"}
    if k == "and_then":
        return {"e": "and_then", "a": rec(nm, rng), "b": wrapper(rng, rec(nm, rng), nm) if rng.random() < 0.5 else rec(nm, rng)}
    if k == "vec2":
        items = [rec(nm, rng), wrapper(rng, rec(nm, rng), nm)]
        if rng.random() < 0.4:
            items.insert(rng.randint(0, 2), {"e": "opt", "inner": None})
        return {"e": "vec", "items": items}
    return {"e": "evveto", "tgt": "b"}


def flatten(elems, on=None):
    """`on`: the current state of the swap elements (id -> present?), default: as built"""
    flat = {"layers": [], "globals": [], "vetoes": []}
    on = on or {}

    def go(e, fs):
        if e is None:
            return
        k = e["e"]
        if k == "rec":
            flat["layers"].append({"name": e["name"], "filters": list(fs), "interest": e.get("interest", "always")})
        elif k == "gfilter":
            assert not fs
            flat["globals"].append(e["f"])
        elif k == "evveto":
            assert not fs
            flat["vetoes"].append(e["tgt"])
        elif k == "filtered":
            go(e["inner"], fs + [e["f"]])
        elif k == "and_then":
            go(e["a"], fs)
            go(e["b"], fs)
        elif k == "vec":
            for x in e["items"]:
                go(x, fs)
        elif k in ("opt", "box", "reload"):
            go(e["inner"], fs)
        elif k == "swap":
            if on.get(e["id"], e["on"]):
                go(e["inner"], fs)
        elif k == "identity":
            pass
        else:
            raise ValueError(k)

    for e in elems:
        go(e, [])
    return flat


# ---------------------------------------------------------------- histories
def ctl_ids(elems):
    """(ids of elements whose write lock can be held, swap elements by id)"""
    holds, swaps = [], {}

    def go(e):
        if not isinstance(e, dict):
            return
        if e.get("e") in ("reload", "swap") and "id" in e:
            holds.append(e["id"])
        if e.get("e") == "swap":
            swaps[e["id"]] = e["on"]
        for x in [e.get("inner"), e.get("a"), e.get("b")] + list(e.get("items", [])):
            go(x)
    for e in elems:
        go(e)
    return holds, swaps


def history(rng, steps, nthreads, flavour, elems=None):
    out = []
    holds, swaps = ctl_ids(elems or [])
    serial = 0
    live = {}  # serial -> dict(children=set(), thread entered list)
    ent = {t: [] for t in range(1, nthreads + 1)}
    flag_on = False
    while len(out) < steps:
        t = rng.randint(1, nthreads)
        ops = ["event"] * 6 + ["new"] * 3 + ["setflag"] * (2 if flavour == "c07" else 1)
        if flavour == "c07":
            ops += ["probe"] * (2 if rng.random() < 0.3 else 0)
        if live:
            ops += ["enter"] * 3 + ["record", "event_of", "drop", "drop"]
            if flavour == "c09":
                ops += ["follows", "record"]
        if any(ent.values()):
            ops += ["exit"] * 3
        if flavour == "c09":
            ops += ["rebuild"] if rng.random() < 0.2 else []
            if swaps and not live:
                ops += ["swap"] * 3
        op = rng.choice(ops)
        m = {"lvl": rng.randint(1, 5), "tgt": rng.choice(TGTS), "kind": "event"}
        if op == "event":
            out.append({"op": "event", "t": t, "m": m, "pk": "ctx", "p": 0})
        elif op == "event_of":
            out.append({"op": "event", "t": t, "m": m, "pk": "of", "p": rng.choice(list(live))})
        elif op == "probe":
            out.append({"op": "probe", "t": t, "m": m})
        elif op == "setflag":
            flag_on = not flag_on
            out.append({"op": "setflag", "t": t, "ctx": ["p"] if flag_on else []})
        elif op == "rebuild":
            out.append({"op": "rebuild", "t": t})
        elif op == "swap":
            # only while no span is alive: which spans a layer that comes and goes "has seen" is not this property
            k = rng.choice(list(swaps))
            swaps[k] = not swaps[k]
            out.append({"op": "swap", "t": 1, "id": k, "on": swaps[k], "flat": flatten(elems, swaps)})
        elif op == "new":
            if serial >= 30:
                continue
            serial += 1
            m["kind"] = "span"
            live[serial] = set()
            for s in ent[t]:
                live[s].add(serial)  # possible descendants: created while s was entered on this thread
            out.append({"op": "new", "t": t, "m": m, "pk": "ctx", "p": 0})
        elif op == "enter":
            s = rng.choice(list(live))
            if any(s in ent[x] for x in ent):  # no re-entry, one thread at a time
                continue
            ent[t].append(s)
            out.append({"op": "enter", "t": t, "s": s})
        elif op == "exit":
            ts = [x for x in ent if ent[x]]
            t = rng.choice(ts)
            s = rng.choice(ent[t])
            ent[t].remove(s)
            out.append({"op": "exit", "t": t, "s": s})
        elif op == "record":
            out.append({"op": "record", "t": t, "s": rng.choice(list(live))})
        elif op == "follows":
            a, b = rng.choice(list(live)), rng.choice(list(live))
            out.append({"op": "follows", "t": t, "s": a, "p": b})
        elif op == "drop":
            cands = [s for s in live if not any(s in ent[x] for x in ent) and not (live[s] & set(live))]
            if not cands:
                continue
            s = rng.choice(cands)
            del live[s]
            st = {"op": "drop", "t": t, "s": s}
            if rng.random() < 0.3:      # the last reference is a raw one, given back through Dispatch::try_close / drop_span
                st["raw"] = rng.choice(["try_close", "drop_span"])
            if holds and rng.random() < 0.5:
                st["during_modify"] = rng.choice(holds)
            out.append(st)
    return out


def behaviour(rng, flavour):
    nm = Namer()
    if flavour == "c07":
        if rng.random() < 0.2:
            # a dynamic global filter between other layers (its rejection must reset the per-layer filter state)
            g = {"e": "gfilter", "f": rng.choice([{"k": "dyn", "l": rng.choice([1, 3, 5]), "flag": rng.choice(["p", "p", ""]), "hint": 9},
                                                  {"k": "mixed", "l": rng.choice([1, 3, 5]), "flag": rng.choice(["p", "p", ""])},
                                                  {"k": "mixed", "l": rng.choice([1, 3]), "flag": ""}])}
            elems = [rng.choice([rec(nm, rng), filtered(nm, rng)]), g, filtered(nm, rng)]
            if rng.random() < 0.5:
                elems.append(rng.choice([rec(nm, rng), filtered(nm, rng)]))
        elif rng.random() < 0.08:
            # a single and_then tree with an absent half directly on the registry (outside the shape of finding F17)
            none = {"e": "opt", "inner": None}
            x = rng.choice([rec(nm, rng), filtered(nm, rng), filtered(nm, rng)])
            # ... or with one per-layer-filtered and one unfiltered half, alone on the registry (the unfiltered half keeps the tree from
            # counting as per-layer-filtered, whichever half it is)
            a, b = rng.choice([(none, x), (x, none), (rec(nm, rng), filtered(nm, rng)), (filtered(nm, rng), rec(nm, rng))])
            elems = [{"e": "and_then", "a": a, "b": b}]
        elif rng.random() < 0.08:
            # an absent layer ABOVE a stack that has a real hint and an unfiltered receiver, below a less verbose per-layer-filtered
            # layer: the inner half of the top Layered contains a None, but its hint is not OFF
            lv = rng.choice([3, 4, 5])
            elems = ([{"e": "gfilter", "f": {"k": "level", "l": lv}}] if rng.random() < 0.7 else []) + [rec(nm, rng)]
            elems.append(rng.choice([{"e": "opt", "inner": None}, {"e": "box", "inner": {"e": "opt", "inner": None}}]))
            elems.append({"e": "filtered", "f": {"k": "level", "l": rng.choice([1, 2])}, "inner": rec(nm, rng)})
        elif rng.random() < 0.15:
            # hint mixtures: per-layer-filtered layers of different verbosity, some of them inside a Vec next to an absent
            # member (the Vec then answers the none-marker query), in every order
            def lf():
                return {"e": "filtered", "f": {"k": "level", "l": rng.choice([1, 2, 3, 4, 5])}, "inner": rec(nm, rng)}
            def vn():
                items = [{"e": "opt", "inner": None}, lf()] + ([lf()] if rng.random() < 0.3 else [])
                rng.shuffle(items)
                return {"e": "vec", "items": items}
            elems = [rng.choice([lf(), lf(), vn(), {"e": "box", "inner": lf()}]) for _ in range(rng.choice([2, 2, 3]))]
            if not any(e["e"] == "vec" for e in elems):
                elems[rng.randrange(len(elems))] = vn()
        else:
            n = rng.choice([1, 2, 2, 3, 3, 4])
            elems = [elem_c07(nm, rng) for _ in range(n)]
        cwrap = ""
    else:
        n = rng.choice([1, 2, 3, 3, 4, 5])
        elems = [elem_c09(nm, rng) for _ in range(n)]
        cwrap = rng.choice(["", "", "box", "arc", "boxbox", "static"])
    return {"src": "random-" + flavour, "stack": elems, "flat": flatten(elems), "cwrap": cwrap, "log_reg": flavour == "c09",
            "bystander": flavour == "c09" and rng.random() < 0.4,
            "steps": history(rng, 50, rng.choice([1, 1, 2]), flavour, elems)}


def execute(behs, name, mode):
    w = vlib.workdir(name)
    vlib.write_ndjson(w / "behaviours.ndjson", behs)
    bins = vlib.cargo_build(["layerstack"])
    vlib.run_bin(bins["layerstack"], env={"VH_IN": w / "behaviours.ndjson", "VH_OUT": w / "trace.ndjson"}, timeout=1200)
    lines = vlib.read_ndjson(w / "trace.ndjson")
    found, res = trace.validate(D, "LayerStackTrace", lines, name, nchunks=8, jobs=8, cfg="LayerStackTrace" if mode == "c07" else "LayerStackTraceC09",
                                tags=("BAD", "F3", "BAD8"))
    return lines, found, res
