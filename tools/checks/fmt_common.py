"""Shared by C13 and C14: behaviours for the harness binary `fmtout` and projection of the raw records."""
import json
import random
import re

LEVELS = {"ERROR": 1, "WARN": 2, "INFO": 3, "DEBUG": 4, "TRACE": 5}
COMPACT = {"X": 1, "!": 2, "i": 3, ":": 4, ".": 5}
ANSI = re.compile(r"\x1b\[[0-9;]*m")

S = lambda i: {"k": "sink", "id": i}
SHAPES = {
    "s": lambda p: S(1),
    "max": lambda p: {"k": "max", "l": p["l1"], "a": S(1)},
    "min": lambda p: {"k": "min", "l": p["l1"], "a": S(1)},
    "filt": lambda p: {"k": "filt", "t": p["t"], "a": S(1)},
    "and": lambda p: {"k": "and", "a": S(1), "b": S(2)},
    "and_max_min": lambda p: {"k": "and", "a": {"k": "max", "l": p["l1"], "a": S(1)}, "b": {"k": "min", "l": p["l2"], "a": S(2)}},
    "orelse_max": lambda p: {"k": "orelse", "a": {"k": "max", "l": p["l1"], "a": S(1)}, "b": S(2)},
    "orelse_min_max": lambda p: {"k": "orelse", "a": {"k": "min", "l": p["l1"], "a": S(1)}, "b": {"k": "max", "l": p["l2"], "a": S(2)}},
    "orelse_chain": lambda p: {"k": "orelse", "a": {"k": "max", "l": p["l1"], "a": S(1)}, "b": {"k": "orelse", "a": {"k": "filt", "t": p["t"], "a": S(2)}, "b": S(3)}},
    "and_orelse": lambda p: {"k": "and", "a": {"k": "orelse", "a": {"k": "max", "l": p["l1"], "a": S(1)}, "b": S(2)}, "b": S(3)},
    "band": lambda p: {"k": "max", "l": p["l2"], "a": {"k": "min", "l": p["l1"], "a": S(1)}},
    "filt_max": lambda p: {"k": "filt", "t": p["t"], "a": {"k": "max", "l": p["l1"], "a": S(1)}},
    "orelse_filt_max": lambda p: {"k": "orelse", "a": {"k": "filt", "t": p["t"], "a": {"k": "max", "l": p["l1"], "a": S(1)}}, "b": S(2)},
    "and3": lambda p: {"k": "and", "a": {"k": "filt", "t": p["t"], "a": {"k": "max", "l": p["l1"], "a": S(1)}},
                       "b": {"k": "orelse", "a": {"k": "min", "l": p["l2"], "a": S(2)}, "b": S(3)}},
}
SE = {"none": [], "new": ["new"], "enter": ["enter"], "exit": ["exit"], "close": ["close"], "active": ["enter", "exit"], "full": ["new", "enter", "exit", "close"]}
NAMES = ["spA", "spB", "spC", "spD"]


def steps_c13(rng, nsteps, nthreads):
    out, serial, live, ent = [], 0, {}, {t: [] for t in range(1, nthreads + 1)}
    recorded = set()
    while len(out) < nsteps:
        t = rng.randint(1, nthreads)
        ops = ["event"] * 6 + ["new"] * 3 + ["burst"]
        if live:
            ops += ["enter"] * 3 + ["drop", "event_of", "event_root", "record"]
        if any(ent.values()):
            ops += ["exit"] * 3
            if live and any(ent[x] and ent[x][-1] == max(live) for x in ent):
                ops += ["close_in_exit"] * 2
        op = rng.choice(ops)
        lvl, tgt = rng.randint(1, 5), rng.choice(["a", "b"])
        n = len(out)
        if op in ("event", "event_of", "event_root"):
            fields = [{"name": "fb", "val": {"t": "str", "v": "e%dy" % n}}]
            if rng.random() < 0.25:
                # a field whose name merely begins with `log` (the formatters skip tracing-log's own `log.*` metadata fields only)
                fields.append({"name": rng.choice(["login", "log_level"]), "val": {"t": "str", "v": "L%dq" % n}})
            if len(fields) < 2 and rng.random() < 0.3:      # (the driver's hand-made events carry at most four values)
                fields.append({"name": "dotted.name", "val": rng.choice([{"t": "u64", "v": "42"}, {"t": "bool", "v": "true"}, {"t": "f64", "v": "1.5"}])})
            e = {"op": "event", "t": t, "lvl": lvl, "tgt": tgt, "pk": {"event": "ctx", "event_of": "of", "event_root": "root"}[op], "p": 0, "fields": fields}
            if op == "event_of":
                e["p"] = rng.choice(list(live))
            if rng.random() < 0.08:
                e["fields"].append({"name": "fa", "val": {"t": "boom", "v": ""}})
                e["aborted"] = True
            elif rng.random() < 0.08:
                # a field whose Debug impl itself emits an event (message token n + 5000): see `nested` in FmtRecord
                e["fields"].append({"name": "fa", "val": {"t": "nest", "v": str(n + 5000)}})
                e["nested"] = True
            out.append(e)
        elif op == "burst":
            out.append({"op": "burst", "t": 1, "threads": rng.choice([2, 4, 8]), "per": rng.choice([3, 10]), "lvl": lvl, "tgt": tgt})
        elif op == "new":
            if serial >= 25:
                continue
            serial += 1
            name = rng.choice(NAMES[:3])
            live[serial] = name
            out.append({"op": "new", "t": t, "s": serial, "name": name, "pk": "ctx", "p": 0,
                        "fields": [{"name": "fa", "val": {"t": "str", "v": "s%dx" % serial}}]})
        elif op == "record":
            # a second field of the span, recorded after its creation (once)
            cands = [s for s in live if s not in recorded]
            if not cands:
                continue
            s = rng.choice(cands)
            recorded.add(s)
            out.append({"op": "record", "t": t, "s": s, "name": live[s], "fields": [{"name": "fb", "val": {"t": "str", "v": "r%dz" % s}}]})
        elif op == "enter":
            s = rng.choice(list(live))
            if any(s in ent[x] for x in ent):
                continue
            ent[t].append(s)
            out.append({"op": "enter", "t": t, "s": s, "name": live[s]})
        elif op == "exit":
            ts = [x for x in ent if ent[x]]
            t = rng.choice(ts)
            s = ent[t].pop()  # LIFO keeps every open span's ancestors entered
            out.append({"op": "exit", "t": t, "s": s, "name": live[s]})
        elif op == "close_in_exit":
            # the newest span (no children) is entered: its last handle goes while it is entered, so the exit is what closes it -
            # the lifecycle points `exit` and `close` both fall into that one operation, in this order
            s = max(live)
            t = next(x for x in ent if ent[x] and ent[x][-1] == s)
            out.append({"op": "drop", "t": t, "s": s, "name": live[s], "entered": True})
            ent[t].pop()
            out.append({"op": "exit", "t": t, "s": s, "name": live[s], "closing": True})
            del live[s]
        elif op == "drop":
            cands = [s for s in live if not any(s in ent[x] for x in ent)]
            # only spans without live descendants created under them: keep it simple - drop the newest such span
            cands = [s for s in cands if s == max(live)]
            if not cands:
                continue
            s = cands[0]
            out.append({"op": "drop", "t": t, "s": s, "name": live[s]})
            del live[s]
    return out


def behaviour_c13(rng):
    fmt = rng.choice(["full", "full", "compact", "pretty", "json"])
    shape = rng.choice(list(SHAPES))
    params = {"l1": rng.choice([1, 2, 3, 4]), "l2": rng.choice([2, 3, 4, 5]), "t": rng.choice(["a", "b\"q"])}
    if shape == "band" and params["l1"] > params["l2"]:
        params["l1"], params["l2"] = params["l2"], params["l1"]
    opts = {"target": rng.random() < 0.8, "level": rng.random() < 0.85, "thread_ids": rng.random() < 0.3, "thread_names": rng.random() < 0.3,
            "file": rng.random() < 0.3, "line": rng.random() < 0.3, "ansi": rng.random() < 0.3, "time": (rng.random() < 0.4 and fmt != "compact"),
            "span_events": rng.choice(list(SE)), "flatten": rng.random() < 0.3, "current_span": True, "span_list": True}
    nth = rng.choice([1, 2, 3])
    # a sink that records and then reports an I/O error: the routing of the record must not depend on it
    failing = [rng.choice([1, 2, 3])] if rng.random() < 0.25 else []
    # a sink that accepts only a few bytes per write call (the record must still arrive whole), and sinks whose writer holds a
    # lock for as long as it lives (an aborted format must not leave it poisoned)
    short = {"id": rng.choice([x for x in (1, 2, 3) if x not in failing]), "n": rng.choice([1, 7, 32])} if rng.random() < 0.25 else {"id": 0, "n": 0}
    locked = rng.sample([1, 2, 3], rng.choice([1, 3])) if rng.random() < 0.3 else []
    if short["id"] and fmt == "pretty":
        fmt = "full"       # (pretty records contain newlines: the chunks of a short-writing sink could not be re-assembled)
    # front end: the fmt::subscriber() layer on a registry, or the fmt() collector builder (own option forwarding, own Collect impl)
    front = rng.choice(["layer", "layer", "builder"])
    steps = steps_c13(rng, 40, nth)
    twin = front == "layer" and fmt != "pretty" and rng.random() < 0.3
    if twin:
        # (each fmt subscriber formats an event's fields itself: a field whose Debug impl emits an event would emit it once per
        # subscriber - such fields are left out next to a twin)
        for st in steps:
            if st.get("nested"):
                st["fields"] = [f for f in st["fields"] if f["val"]["t"] != "nest"]
                del st["nested"]
    return {"src": "random-c13", "format": fmt, "opts": opts, "opts_first": rng.random() < 0.4, "front": front,
            # a second fmt subscriber with the same field formatter next to the recorded one (layer front end, not pretty)
            "twin": twin,
            # the collector as the process's global default without any scoped default (the usual init() set-up), or scoped per thread
            "global": rng.random() < 0.4,
            "writer": {"shape": shape, "params": params, "failing": failing, "short": short, "locked": locked},
            "steps": steps}


def reset_fields(b):
    return {"format": b["format"], "level": b["opts"]["level"], "se": SE[b["opts"]["span_events"]], "tree": SHAPES[b["writer"]["shape"]](b["writer"]["params"]),
            "global": bool(b.get("global", False))}


def project_write(raw, fmt, opts, step, spanrec=None):
    """raw record text -> the observation of FmtRecord!RecordOk; spanrec: span serial -> value recorded later for its field fb"""
    spanrec = spanrec or {}
    txt = ANSI.sub("", raw)
    w = {"nl": txt.endswith("\n"), "oneline": txt.count("\n") == 1}
    level = 0
    spans, toks = [], []
    if fmt == "json":
        try:
            o = json.loads(txt)
            level = LEVELS.get(o.get("level", ""), 0)
            spans = [int(re.fullmatch(r"s(\d+)x", s.get("fa", "")).group(1)) for s in o.get("spans", []) if re.fullmatch(r"s(\d+)x", str(s.get("fa", "")))]
            msg = o.get("message") if "message" in o else o.get("fields", {}).get("message", "")
            body = msg if isinstance(msg, str) else ""
            for sp in o.get("spans", []):
                m = re.fullmatch(r"s(\d+)x", str(sp.get("fa", "")))
                if m and int(m.group(1)) in spanrec and sp.get("fb") != spanrec[int(m.group(1))]:
                    return dict(w, level=level, spans=spans, toks=[-1], fields_ok=False)
        except Exception:
            return dict(w, level=-1, spans=[], toks=[-1], fields_ok=False)
    else:
        body = txt
        if fmt == "compact":
            m = re.match(r"^\s*([X!i:.]) ", txt)
            level = COMPACT.get(m.group(1), 0) if (m and opts["level"]) else 0
        else:
            m = re.search(r"\b(ERROR|WARN|INFO|DEBUG|TRACE)\b", txt)
            level = LEVELS[m.group(1)] if m else 0
        spans = [int(x) for x in re.findall(r"s(\d+)x", txt)]
        # a span's later-recorded field is shown next to its first one, as a separate field
        for k in set(spans):
            if k in spanrec and not re.search(r'fa[=:] ?"s%dx"(, | )fb[=:] ?"%s"' % (k, re.escape(spanrec[k])), txt):
                return dict(w, level=level, spans=spans, toks=[-1], fields_ok=False)
    for m in re.finditer(r"\bm(\d+)\b|\b(new|enter|exit|close)\b", body if fmt == "json" else txt):
        toks.append(int(m.group(1)) + 1000 if m.group(1) else {"new": 1, "enter": 2, "exit": 3, "close": 4}[m.group(2)])
    fields_ok = True
    for f in step.get("fields", []):
        v = f["val"]
        if f["name"] in ("fb", "login", "log_level") and v["t"] == "str" and step["op"] == "event":
            fields_ok = fields_ok and (v["v"] in txt)
    return dict(w, level=level, spans=spans, toks=toks, fields_ok=fields_ok)
