"""C05 - a registry span closes exactly once, after its last reference and last child (spec/Registry)."""
from checks import registry_common as rc


def run(out, tier):
    rc.run(out, tier, "C05")


def replay(out, path):
    rc.replay(out, path, "C05")
