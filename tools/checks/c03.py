"""C03 - span handles drive their collector through a well-formed, balanced protocol (spec/SpanProtocol)."""
import json

import trace
import vlib
from vlib import SPEC

D = SPEC / "SpanProtocol"


def sim(cfg, n, depth, seed_, out, what):
    per = max(1, (n + 7) // 8)
    r = vlib.tlc(D, "MCSpanProtocolSim", cfg=cfg, workers=8, simulate=per, depth=depth, seed_=seed_, timeout=900)
    if not r.ok:
        vlib.log(r.out[-3000:])
        raise vlib.ToolError("MCSpanProtocolSim failed: %s" % r.kind)
    behs = r.tagged("BEH")
    out.tlc_runs.append({"what": what, "behaviours": len(behs), "wall_s": round(r.wall, 1)})
    return behs


def execute(behs, name):
    w = vlib.workdir(name)
    vlib.write_ndjson(w / "behaviours.ndjson", behs)
    bins = vlib.cargo_build(["spanproto"])
    vlib.run_bin(bins["spanproto"], env={"VH_IN": w / "behaviours.ndjson", "VH_OUT": w / "trace.ndjson"}, timeout=1200)
    lines = vlib.read_ndjson(w / "trace.ndjson")
    found, _ = trace.validate(D, "SpanProtocolTrace", lines, name, nchunks=8, jobs=8)
    return lines, found


def judge(out, behs, lines, found):
    out.traces = len(behs)
    ops = [x for x in lines if x.get("ev") == "op"]
    out.evaluations = len(ops)
    out.distinct_nontrivial = len({json.dumps(b["steps"], sort_keys=True) for b in behs if any(s["op"] in ("clone", "enter", "entered", "scope_begin", "instrument", "current") for s in b["steps"])})
    out.rule = ("a case is one program over the Span API (TLC -simulate of MCSpanProtocolSim: 40-step programs over 5 handle / 4 guard / "
                "2 future slots and 160-step programs over 7/5/3 slots, 3 threads, 3 collectors of which a random subset rejects target 'x', each "
                "installed plainly, boxed or arc'd; a third of the handle drops happen in a frame unwinding from a panic), "
                "run in its own OS process against real tracing::Span / Instrumented (tracing and tracing-futures); distinct = distinct "
                "programs that clone, enter, instrument or capture Span::current at least once")
    out.samples = [behs[0]["steps"][:10], [x for x in ops if x["calls"]][:4]]
    out.assumptions = ["recording collectors count references themselves and return the same id from clone_span",
                       "operations of different threads run in the global order the program prescribes"]
    seen = set()
    for b, pos, rec in sorted(found["BAD"], key=lambda x: (x[0], x[1])):
        if b in seen:
            continue  # later lines of the same program may only be consequences
        seen.add(b)
        out.violation("program %d, operation %d (%s): the calls the collectors received break the span protocol: %s"
                      % (b, pos, rec.get("op", rec.get("ev")), json.dumps(rec)[:500]),
                      {"behaviour": behs[b], "failing_step": pos, "observed": rec})
    for b, pos, rec in found["DRIFT"]:
        out.drift.append("program %d op %d: calls differ from MCalls (mechanism model): %s" % (b, pos, json.dumps(rec)[:300]))


def run(out, tier):
    quick = tier == "quick"
    r = vlib.require_ok(vlib.tlc(D, "MCSpanProtocol", cfg="MCSpanProtocolQ" if quick else "MCSpanProtocolT", workers=8, timeout=3000, heap="12g"),
                        "SpanProtocol: the calls of M satisfy the monitor for every program")
    out.add_tlc(r, "MCSpanProtocol exhaustive (%s): every program of <= %d operations over 2 threads, 2 collectors, 3 handle / 2 guard / 1 future slots; invariant Good"
                % (tier, 6 if quick else 8))
    s = vlib.seed()
    behs = sim("MCSpanProtocolSim", 320 if quick else 3200, 43, s, out, "MCSpanProtocolSim -simulate (40 steps)")
    behs += sim("MCSpanProtocolSimLong", 48 if quick else 480, 163, s + 1, out, "MCSpanProtocolSim -simulate (160 steps)")
    # binding-only choices the specification is indifferent to: how each collector is installed (plain / Box / Arc) and
    # whether a handle is dropped normally or by a frame that is unwinding from a panic
    import random
    rng = random.Random(s * 3 + 3)
    for b in behs:
        b["raw_ids"] = rng.random() < 0.5       # collectors hand out small ids that overlap between collectors (as real ones do)
        b["wrap"] = [rng.choice(["plain", "plain", "box", "arc"]) for _ in b["acc"]]
        for st in b["steps"]:
            if st["op"] == "drop" and rng.random() < 0.3:
                st["unwind"] = True
            elif st["op"] == "drop" and rng.random() < 0.25:
                st["inside"] = True     # the handle is dropped from inside a dispatcher lookup (get_default closure)
    for i in range(30 if quick else 300):
        behs.append(snippet(rng, i))
    lines, found = execute(behs, "c03")
    judge(out, behs, lines, found)


def snippet(rng, i):
    """hand-shaped programs for corners the simulation reaches rarely"""
    t = 1
    lib = rng.choice(["tracing", "futures"])
    kind = i % 4
    if kind == 3:
        # an owned entered guard named as the explicit parent of a new span (`parent: &guard`) and cloned (`guard.clone()` is a Span
        # handle, through Deref): neither may add or lose a reference of the guard's span
        steps = [{"op": "switch", "t": t, "d": 1}, {"op": "new", "t": t, "h": 1, "tgt": "a", "pk": "root", "p": 1}, {"op": "entered", "t": t, "h": 1, "g": 1}]
        extra = [{"op": "new", "t": t, "h": 2, "tgt": rng.choice(["a", "x"]), "pk": "of", "p": 1}, {"op": "clone", "t": t, "h": 1, "h2": 3}]
        rng.shuffle(extra)
        steps += extra + [{"op": "drop", "t": t, "h": 3}]
        steps += rng.choice([[{"op": "exit_entered", "t": t, "h": 0, "g": 1}, {"op": "drop", "t": t, "h": 2}, {"op": "drop", "t": t, "h": 1}],
                             [{"op": "drop", "t": t, "h": 2}, {"op": "drop_entered", "t": t, "h": 0, "g": 1}]])
        return {"src": "snippet-guard-as-parent", "acc": [True, True, True], "alias": [rng.random() < 0.3, False, False], "steps": steps}
    if kind == 0:
        # a future instrumented with a DISABLED span while another span is entered: no collector call may result
        steps = [{"op": "switch", "t": t, "d": 1}, {"op": "new", "t": t, "h": 1, "tgt": "a", "pk": "root", "p": 1}, {"op": "enter", "t": t, "h": 1, "g": 1},
                 {"op": "new", "t": t, "h": 2, "tgt": "x", "pk": "ctx", "p": 2}, {"op": "instrument", "t": t, "h": 2, "f": 1, "lib": lib},
                 {"op": "poll", "t": t, "h": 0, "f": 1}, {"op": "poll", "t": t, "h": 0, "f": 1},
                 {"op": rng.choice(["drop_fut", "into_inner"]), "t": t, "h": 0, "f": 1}, {"op": "exit", "t": t, "h": 0, "g": 1}, {"op": "drop", "t": t, "h": 1}]
        return {"src": "snippet-disabled-instrument", "acc": [False, True, True], "alias": [False, False, False], "steps": steps}
    if kind == 1:
        # the process-wide maximum level changes between an enter and its exit (and back)
        lo, hi = rng.choice([0, 1, 2]), 5
        ent = rng.choice([("enter", "exit"), ("entered", "exit_entered"), ("scope_begin", "scope_end")])
        steps = [{"op": "switch", "t": t, "d": 1}, {"op": "new", "t": t, "h": 1, "tgt": "a", "pk": "root", "p": 1},
                 {"op": ent[0], "t": t, "h": 1, "g": 1}, {"op": "maxlevel", "t": t, "lvl": lo}, {"op": ent[1], "t": t, "h": 0, "g": 1}]
        if ent[0] != "entered":
            steps += [{"op": ent[0], "t": t, "h": 1, "g": 1}, {"op": "maxlevel", "t": t, "lvl": hi}, {"op": ent[1], "t": t, "h": 0, "g": 1},
                      {"op": "maxlevel", "t": t, "lvl": lo}, {"op": "record", "t": t, "h": 1}, {"op": "drop", "t": t, "h": 1}]
        return {"src": "snippet-maxlevel", "acc": [True, True, True], "alias": [False, False, False], "steps": steps}
    # handles of two collectors that handed out the SAME id: a.clone_from(&b)
    steps = [{"op": "switch", "t": t, "d": 1}, {"op": "new", "t": t, "h": 1, "tgt": "a", "pk": "root", "p": 1},
             {"op": "switch", "t": t, "d": 2}, {"op": "new", "t": t, "h": 2, "tgt": "a", "pk": "root", "p": 2},
             {"op": "clone_from", "t": t, "h": 1, "h2": 2, "hf": 3},
             {"op": "enter", "t": t, "h": 3, "g": 1}, {"op": "exit", "t": t, "h": 0, "g": 1}, {"op": "drop", "t": t, "h": 3}, {"op": "drop", "t": t, "h": 2}]
    return {"src": "snippet-clone-from", "acc": [True, True, True], "alias": [False, False, False], "raw_ids": True, "steps": steps}


def replay(out, path):
    d = json.load(open(path))["replay"]
    lines, found = execute([d["behaviour"]], "c03_replay")
    for x in lines:
        print(json.dumps(x))
    judge(out, [d["behaviour"]], lines, found)
