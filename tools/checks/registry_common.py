"""Shared by C05 and C06 (spec/Registry, harness binary `registry`)."""
import json

import trace
import vlib
from vlib import SPEC

D = SPEC / "Registry"


def sim(cfg, n, seed_, out, what):
    per = max(1, (n + 7) // 8)
    r = vlib.tlc(D, "MCRegistrySim", cfg=cfg, workers=8, simulate=per, depth=63, seed_=seed_, timeout=900)
    if not r.ok:
        vlib.log(r.out[-3000:])
        raise vlib.ToolError("MCRegistrySim failed: %s" % r.kind)
    behs = r.tagged("BEH")
    out.tlc_runs.append({"what": what, "behaviours": len(behs), "wall_s": round(r.wall, 1)})
    return behs


def gen_recycle(rng):
    """slot recycling: spans with (explicit / contextual) parents are created and closed over and over on one or two
    threads of one registry, with explicit roots in between - a new span lands in the pooled slot of a closed one"""
    steps = [{"op": "switch", "t": 1, "r": 1}, {"op": "switch", "t": 2, "r": 1}]
    n, held, entered = 0, [], {1: [], 2: []}
    for _ in range(rng.randint(20, 45)):
        t = rng.choice([1, 1, 1, 2])
        c = rng.random()
        if n < 40 and (c < 0.5 or not held):
            pk = rng.choice(["root", "root", "of", "of", "ctx"]) if held else "root"
            st = {"op": "new", "t": t, "pk": pk, "p": rng.choice(held) if pk == "of" else 0}
            n += 1
            held.append(n)
            steps.append(st)
        elif c < 0.62 and held and len(entered[t]) < 2:
            cand = [x for x in held if x not in entered[1] and x not in entered[2]]
            if cand:
                x = rng.choice(cand)
                entered[t].append(x)
                steps.append({"op": "enter", "t": t, "s": x})
        elif c < 0.72 and entered[t]:
            steps.append({"op": "exit", "t": t, "s": entered[t].pop()})
        else:
            cand = [x for x in held if x not in entered[1] and x not in entered[2]]
            if cand:
                x = rng.choice(cand[-3:])          # mostly recent spans: their slots are the next to be reused
                held.remove(x)
                steps.append({"op": "drop", "t": t, "s": x})
    for t in (1, 2):
        while entered[t]:
            steps.append({"op": "exit", "t": t, "s": entered[t].pop()})
    return {"src": "recycle", "steps": steps}


def execute(behs, name):
    w = vlib.workdir(name)
    vlib.write_ndjson(w / "behaviours.ndjson", behs)
    bins = vlib.cargo_build(["registry"])
    vlib.run_bin(bins["registry"], env={"VH_IN": w / "behaviours.ndjson", "VH_OUT": w / "trace.ndjson"}, timeout=1200)
    lines = vlib.read_ndjson(w / "trace.ndjson")
    found, _ = trace.validate(D, "RegistryTrace", lines, name, nchunks=8, jobs=8, tags=("BAD5", "BAD6", "F2", "DRIFT"))
    return lines, found


def exhaustive(out, tier):
    quick = tier == "quick"
    r = vlib.require_ok(vlib.tlc(D, "MCRegistry", cfg="MCRegistryQ" if quick else "MCRegistryT", workers=8, timeout=3000, heap="12g"),
                        "Registry: M's observations satisfy A outside the F2 history class")
    out.add_tlc(r, "MCRegistry exhaustive (%s): every history of <= %d operations, 2 threads, 2 registries, 3 spans, 1 capture slot; invariants Good (A's verdict on M's observation, histories containing an F2 hazard excluded by the `tainted` ghost), RefIsCounts"
                % (tier, 8 if quick else 10))
    # the open finding F2 must still be exhibited by the model when hazards are not excluded
    r2 = vlib.tlc(D, "MCRegistry", cfg="MCRegistryF2", workers=8, timeout=900)
    if r2.kind == "invariant":
        out.extra["f2_counterexample_in_model"] = True
    else:
        out.extra["f2_counterexample_in_model"] = False
        vlib.log("note: the model no longer exhibits F2 (stale known-findings entry?)")


def run(out, tier, prop):
    quick = tier == "quick"
    exhaustive(out, tier)
    s = vlib.seed() + (5 if prop == "C05" else 6)
    behs = sim("MCRegistrySim", 400 if quick else 4000, s, out, "MCRegistrySim -simulate, default = owning registry (60 steps)")
    behs += sim("MCRegistrySimDense", 400 if quick else 4000, s + 2, out, "MCRegistrySim -simulate, dense: 2 threads, 4 spans (re-entry, out-of-order exits, drops while entered)")
    behs += sim("MCRegistrySimForeign", 120 if quick else 1200, s + 1, out, "MCRegistrySim -simulate, foreign / absent defaults allowed (F2 history class)")
    # the history of findings/repro/f2.rs: last handle dropped while entered, exit under another registry's default
    behs.append({"src": "f2-reproducer", "steps": [
        {"op": "switch", "t": 1, "r": 1}, {"op": "new", "t": 1, "pk": "root", "p": 1}, {"op": "enter", "t": 1, "s": 1},
        {"op": "switch", "t": 1, "r": 2}, {"op": "drop", "t": 1, "s": 1}, {"op": "exit", "t": 1, "s": 1}]})
    import random
    rng = random.Random(s * 5 + 1)
    for _ in range(60 if quick else 600):
        behs.append(gen_recycle(rng))
    if prop == "C05":
        # reference-count race at the granularity of try_close's atomics: the model, its negative control, and real threads
        r = vlib.require_ok(vlib.tlc(D, "RefCountRace", cfg="RefCountRace", workers=2, timeout=300), "RefCountRace")
        out.add_tlc(r, "RefCountRace exhaustive: 3 holders releasing the last references concurrently (fetch_sub / decide), AtMostOnce, ExactlyOnceAtEnd")
        if vlib.tlc(D, "RefCountRace", cfg="RefCountRaceNeg", workers=2, timeout=300).ok:
            raise vlib.ToolError("negative control: a non-atomic decrement-then-load was not detected by AtMostOnce")
        # ... and for ANY number of holders, by the proof system (an inductive invariant; not a bounded check)
        n = vlib.tlapm(D, "RefCountRaceProof")
        out.extra["tlaps_obligations_proved"] = n
        for k in (2, 3):
            behs.append({"src": "racedrop", "mode": "racedrop", "rounds": 60000 if quick else 1000000, "threads": k, "steps": []})
    lines, found = execute(behs, prop.lower())
    judge(out, behs, lines, found, prop)


def judge(out, behs, lines, found, prop):
    out.traces = len(behs)
    ops = [x for x in lines if x.get("ev") == "op"]
    out.evaluations = len(ops)
    out.distinct_nontrivial = len({json.dumps(b["steps"], sort_keys=True) for b in behs
                                   if sum(1 for s in b["steps"] if s["op"] in ("enter", "exit", "drop", "tdrop")) >= 4})
    out.rule = ("a case is one history (TLC -simulate of MCRegistrySim: 60 operations over 3 threads, 2 registries, <= 12 spans, 2 capture slots) run "
                "in its own OS process against real Registry stacks with two recording layers + ErrorSubscriber; plus slot-recycling histories (create / close "
                "churn with explicit parents and explicit roots); distinct = distinct histories with "
                "at least 4 enter/exit/drop operations")
    out.samples = [behs[0]["steps"][:10], [x for x in ops if x.get("closes")][:3]]
    out.assumptions = ["operations of different threads run in the prescribed global order (reference-count interleavings are the RegistryRace model)",
                       "registry ids are logged as a dense index of the raw 64-bit id"]
    key = "BAD5" if prop == "C05" else "BAD6"
    seen = set()
    for b, pos, rec in sorted(found[key], key=lambda x: (x[0], x[1])):
        if b in seen:
            continue
        seen.add(b)
        out.violation("history %d, operation %d (%s): observation contradicts the abstract registry: %s" % (b, pos, rec.get("op", rec.get("ev")), json.dumps(rec)[:500]),
                      {"behaviour": behs[b], "failing_step": pos, "observed": rec})
    if prop == "C05":
        known = [f for f in vlib.known_findings("C05") if f["id"] == "F2"]
        for b, pos, rec in found["F2"]:
            if known:
                out.known_finding("F2", known[0]["what"])
            else:
                out.violation("history %d op %d: close path through a foreign default: %s" % (b, pos, json.dumps(rec)[:400]), {"behaviour": behs[b], "failing_step": pos})
    for b, pos, rec in found["DRIFT"]:
        out.drift.append("history %d op %d: observation differs from the mechanism model: %s" % (b, pos, json.dumps(rec)[:300]))


def replay(out, path, prop):
    d = json.load(open(path))["replay"]
    lines, found = execute([d["behaviour"]], prop.lower() + "_replay")
    for x in lines:
        print(json.dumps(x))
    judge(out, [d["behaviour"]], lines, found, prop)
