"""Shared by C05 and C06 (spec/Registry, harness binary `registry`)."""
import json

import trace
import vlib
from vlib import SPEC

D = SPEC / "Registry"


def sim(cfg, n, seed_, out, what):
    per = max(1, (n + 7) // 8)
    r = vlib.tlc(D, "MCRegistrySim", cfg=cfg, workers=8, simulate=per, depth=63, seed_=seed_, timeout=900)
    if not r.ok:
        vlib.log(r.out[-3000:])
        raise vlib.ToolError("MCRegistrySim failed: %s" % r.kind)
    behs = r.tagged("BEH")
    out.tlc_runs.append({"what": what, "behaviours": len(behs), "wall_s": round(r.wall, 1)})
    return behs


def gen_recycle(rng):
    """slot recycling: spans with (explicit / contextual) parents are created and closed over and over on one or two
    threads of one registry, with explicit roots in between - a new span lands in the pooled slot of a closed one"""
    steps = [{"op": "switch", "t": 1, "r": 1}, {"op": "switch", "t": 2, "r": 1}]
    n, held, entered = 0, [], {1: [], 2: []}
    for _ in range(rng.randint(20, 45)):
        t = rng.choice([1, 1, 1, 2])
        c = rng.random()
        if n < 40 and (c < 0.5 or not held):
            pk = rng.choice(["root", "root", "of", "of", "ctx"]) if held else "root"
            st = {"op": "new", "t": t, "pk": pk, "p": rng.choice(held) if pk == "of" else 0}
            n += 1
            held.append(n)
            steps.append(st)
        elif c < 0.62 and held and len(entered[t]) < 2:
            cand = [x for x in held if x not in entered[1] and x not in entered[2]]
            if cand:
                x = rng.choice(cand)
                entered[t].append(x)
                steps.append({"op": "enter", "t": t, "s": x})
        elif c < 0.72 and entered[t]:
            steps.append({"op": "exit", "t": t, "s": entered[t].pop()})
        else:
            cand = [x for x in held if x not in entered[1] and x not in entered[2]]
            if cand:
                x = rng.choice(cand[-3:])          # mostly recent spans: their slots are the next to be reused
                held.remove(x)
                steps.append({"op": "drop", "t": t, "s": x})
    for t in (1, 2):
        while entered[t]:
            steps.append({"op": "exit", "t": t, "s": entered[t].pop()})
    return {"src": "recycle", "steps": steps}


def decorate(behs, rng):
    """implementation-level variations the abstract history does not distinguish (the specification's verdict is the same):
    the collector behind Box / Arc, a layer whose on_close panics, a per-layer-filtered third layer with some spans hidden from it, raw references
    (Dispatch::clone_span given back by try_close / drop_span), handles dropped by an unwinding panic, and drops that
    overlap other threads' operations (parked inside a layer's on_close until `release`; they take effect there)"""
    for b in behs:
        if b.get("mode") or b.get("src") == "f2-reproducer":
            continue
        b["wrap"] = rng.choice(["none", "none", "box", "arc"])
        b["plf"] = rng.random() < 0.5
        out, pending_release, steps = [], None, b["steps"]
        nbad = 0
        for i, st in enumerate(steps):
            st = dict(st)
            if st["op"] == "new" and b["plf"] and rng.random() < 0.35:
                st["hide"] = True
            elif st["op"] == "new" and nbad < 4 and rng.random() < 0.2:
                # one of the span's fields cannot be formatted (its Debug impl fails): the ErrorSubscriber stores nothing for it,
                # a captured SpanTrace must list it all the same
                st["bad"] = nbad
                nbad += 1
            if st["op"] == "clone" and rng.random() < 0.35:
                st["raw"] = rng.choice(["try_close", "drop_span"])
            if st["op"] == "exit" and rng.random() < 0.2:
                st["unwind"] = True
            if st["op"] == "drop":
                if rng.random() < 0.5:
                    st["front"] = True
                if rng.random() < 0.15:
                    st["unwind"] = True
                run = 0
                while i + 1 + run < len(steps) and steps[i + 1 + run]["t"] != st["t"]:
                    run += 1
                if pending_release is None and run >= 1 and rng.random() < 0.4:
                    st["hold"] = True
                    pending_release = (i + rng.randint(1, run), st["t"])
                elif not st.get("unwind") and "then" not in st and rng.random() < 0.15:
                    # the handle is given up by user code inside a layer's on_event, i.e. inside a collector callback
                    st["inside"] = "event"
                elif not st.get("unwind") and "then" not in st and rng.random() < 0.2:
                    # user code inside the outermost layer's on_close panics for this span (the panic is caught by the owner
                    # of the handle): the span is closed all the same - gone afterwards, its parent released
                    st["boom"] = True
            out.append(st)
            if pending_release and pending_release[0] == i:
                out.append({"op": "release", "t": pending_release[1]})
                pending_release = None
        if pending_release:
            out.append({"op": "release", "t": pending_release[1]})
        b["steps"] = out
    return behs


def gen_overlap(rng):
    """closes that overlap across threads: thread 1 is parked inside a layer's on_close for a span while thread 2
    creates, closes and cascades other spans of the same registry (the CloseGuard counter is per thread)"""
    steps = [{"op": "switch", "t": 1, "r": 1}, {"op": "switch", "t": 2, "r": 1}]
    n = 0
    def new(t, pk, p=0):
        nonlocal n
        n += 1
        steps.append({"op": "new", "t": t, "pk": pk, "p": p})
        return n
    for _ in range(rng.randint(2, 4)):
        a = new(1, "root")
        x = new(1, "of", a) if rng.random() < 0.6 else a
        mine = [new(2, "root")]
        for _ in range(rng.randint(0, 2)):
            mine.append(new(2, "of", rng.choice(mine)))
        steps.append({"op": "drop", "t": 1, "s": x, "hold": True})
        rng.shuffle(mine)
        for y in mine:
            steps.append({"op": "drop", "t": 2, "s": y})
            if rng.random() < 0.3:
                steps.append({"op": "event", "t": 2, "pk": "root", "p": 1})
        if x != a and rng.random() < 0.5:
            steps.append({"op": "drop", "t": 2, "s": a})       # the parked child still holds it: it closes in the cascade at release
            a = None
        steps.append({"op": "release", "t": 1})
        if a is not None and x != a:
            steps.append({"op": "drop", "t": 1, "s": a})
    return {"src": "overlap", "steps": steps}


def gen_nested(rng):
    """user code inside a layer's on_close gives up the last handle of ANOTHER span: that span's whole close (and cascade)
    runs nested inside the first one; both must end up closed and gone"""
    steps = [{"op": "switch", "t": 1, "r": 1}, {"op": "switch", "t": 2, "r": 1}]
    n = 0

    def new(t, pk, p=0):
        nonlocal n
        n += 1
        steps.append({"op": "new", "t": t, "pk": pk, "p": p})
        return n
    if rng.random() < 0.5:
        # ... of the OTHER registry, created as its k-th span on the same thread (so the two spans carry the same raw id): the
        # close in progress of one registry's span must not be mistaken for a frame of the other's
        k = rng.randint(1, 3)
        a = [new(1, "root") for _ in range(k)]
        steps.append({"op": "switch", "t": 1, "r": 2})
        b = [new(1, "root") for _ in range(k)]
        back = rng.random() < 0.6
        if back:
            steps.append({"op": "switch", "t": 1, "r": 1})
        (x, y) = (a[-1], b[-1]) if back else (b[-1], a[-1])
        steps.append({"op": "drop", "t": 1, "s": x, "then": y})
        for z in a[:-1] + b[:-1]:
            steps.append({"op": "drop", "t": rng.choice([1, 2]), "s": z})
        if not back:
            steps.append({"op": "switch", "t": 1, "r": 1})
    for _ in range(rng.randint(1, 3)):
        t = rng.choice([1, 1, 2])
        p = new(t, "root") if rng.random() < 0.6 else None
        s = new(t, "of", p) if p and rng.random() < 0.6 else new(t, "root")
        q = new(t, "root") if rng.random() < 0.4 else None
        y = new(t, "of", rng.choice([x for x in (p, q) if x])) if (p or q) and rng.random() < 0.7 else new(t, "root")
        kids = [new(t, "of", y)] if rng.random() < 0.3 else []        # y has an open child: its nested drop closes nothing yet
        if rng.random() < 0.3:
            steps.append({"op": "event", "t": t, "pk": "of", "p": y})
        steps.append({"op": "drop", "t": t, "s": s, "then": y})
        for k in kids:
            steps.append({"op": "drop", "t": t, "s": k})
        for x in (p, q):
            if x:
                steps.append({"op": "drop", "t": rng.choice([1, 2]), "s": x})
    return {"src": "nested", "steps": steps}


def execute(behs, name):
    w = vlib.workdir(name)
    vlib.write_ndjson(w / "behaviours.ndjson", behs)
    bins = vlib.cargo_build(["registry"])
    vlib.run_bin(bins["registry"], env={"VH_IN": w / "behaviours.ndjson", "VH_OUT": w / "trace.ndjson"}, timeout=1200)
    lines = vlib.read_ndjson(w / "trace.ndjson")
    found, _ = trace.validate(D, "RegistryTrace", lines, name, nchunks=8, jobs=8, tags=("BAD5", "BAD6", "F2", "F32", "DRIFT"))
    return lines, found


def exhaustive(out, tier):
    quick = tier == "quick"
    r = vlib.require_ok(vlib.tlc(D, "MCRegistry", cfg="MCRegistryQ" if quick else "MCRegistryT", workers=8, timeout=3000, heap="12g"),
                        "Registry: M's observations satisfy A in every history (foreign and absent defaults included)")
    out.add_tlc(r, "MCRegistry exhaustive (%s): every history of <= %d operations, 2 threads, 2 registries, 3 spans, 1 capture slot; invariants Good (A's verdict on M's observation; closes are routed through the registry's own dispatcher - ViaDefault = FALSE - so no history is excluded any more), RefIsCounts"
                % (tier, 8 if quick else 10))
    # negative control: the design before finding F2 was repaired (closes routed through the thread's current default,
    # ViaDefault = TRUE) must violate the verdict
    r2 = vlib.tlc(D, "MCRegistry", cfg="MCRegistryF2", workers=8, timeout=900)
    if r2.kind != "invariant":
        raise vlib.ToolError("negative control: the pre-F2 design (closes through the current default) was not rejected by GoodEvenIfTainted")
    out.extra["negative_control_pre_F2_design_rejected"] = True


def run(out, tier, prop):
    quick = tier == "quick"
    exhaustive(out, tier)
    s = vlib.seed() + (5 if prop == "C05" else 6)
    behs = sim("MCRegistrySim", 400 if quick else 4000, s, out, "MCRegistrySim -simulate, default = owning registry (60 steps)")
    behs += sim("MCRegistrySimDense", 400 if quick else 4000, s + 2, out, "MCRegistrySim -simulate, dense: 2 threads, 4 spans (re-entry, out-of-order exits, drops while entered)")
    behs += sim("MCRegistrySimForeign", 120 if quick else 1200, s + 1, out, "MCRegistrySim -simulate, foreign / absent defaults allowed (the history class of finding F2, repaired)")
    # the history of findings/repro/f2.rs: last handle dropped while entered, exit under another registry's default
    behs.append({"src": "f2-reproducer", "steps": [
        {"op": "switch", "t": 1, "r": 1}, {"op": "new", "t": 1, "pk": "root", "p": 1}, {"op": "enter", "t": 1, "s": 1},
        {"op": "switch", "t": 1, "r": 2}, {"op": "drop", "t": 1, "s": 1}, {"op": "exit", "t": 1, "s": 1}]})
    import random
    rng = random.Random(s * 5 + 1)
    for _ in range(60 if quick else 600):
        behs.append(gen_recycle(rng))
    # half of the histories also run with implementation-level variations; the other half stay plain
    plain = behs[::2]
    behs = plain + decorate([json.loads(json.dumps(b)) for b in behs[1::2]], rng)
    for _ in range(40 if quick else 400):
        behs.append(gen_overlap(rng))
    for _ in range(40 if quick else 400):
        behs.append(gen_nested(rng))
    if prop == "C05":
        # reference-count race at the granularity of try_close's atomics: the model, its negative control, and real threads
        r = vlib.require_ok(vlib.tlc(D, "RefCountRace", cfg="RefCountRace", workers=2, timeout=300), "RefCountRace")
        out.add_tlc(r, "RefCountRace exhaustive: 3 holders releasing the last references concurrently (fetch_sub / decide), AtMostOnce, ExactlyOnceAtEnd")
        if vlib.tlc(D, "RefCountRace", cfg="RefCountRaceNeg", workers=2, timeout=300).ok:
            raise vlib.ToolError("negative control: a non-atomic decrement-then-load was not detected by AtMostOnce")
        # the CloseGuard protocol (deferred slot removal) with closes overlapping across threads and nested inside on_close;
        # negative controls: a registry-wide counter, and the per-thread frame counter the code used before finding F29 was repaired
        r = vlib.require_ok(vlib.tlc(D, "CloseGuard", cfg="CloseGuard", workers=2, timeout=300), "CloseGuard")
        out.add_tlc(r, "CloseGuard exhaustive: 2 threads x 3 closes each through 3 Layered frames, closes nested inside on_close, every interleaving of start_close / on_close / guard drop; ReadableDuringClose, ClearedAfterClose")
        if vlib.tlc(D, "CloseGuard", cfg="CloseGuardNeg", workers=2, timeout=300).ok:
            raise vlib.ToolError("negative control: a registry-wide close counter was not detected by ClearedAfterClose")
        if vlib.tlc(D, "CloseGuard", cfg="CloseGuardF29", workers=2, timeout=300).ok:
            raise vlib.ToolError("negative control: the per-thread frame counter (finding F29) was not detected by ClearedAfterClose")
        # ... and for ANY number of holders, by the proof system (an inductive invariant; not a bounded check)
        n = vlib.tlapm(D, "RefCountRaceProof")
        out.extra["tlaps_obligations_proved"] = n
        for k in (2, 3):
            behs.append({"src": "racedrop", "mode": "racedrop", "rounds": 60000 if quick else 1000000, "threads": k, "steps": []})
        # storage reuse after user code panicked while holding a span's extensions
        behs.append({"src": "poison", "mode": "poison", "rounds": 20 if quick else 200, "reuse": 3, "steps": []})
    lines, found = execute(behs, prop.lower())
    judge(out, behs, lines, found, prop)
    if prop == "C05":
        extmap(out, tier)


def extmap(out, tier):
    """the spans' type maps (spec/Extensions): TLC -simulate histories of new / close / insert / replace / remove / get, run on a
    real Registry; TLC validates what every operation returned, which stored values were dropped and that new spans start empty"""
    quick = tier == "quick"
    DE = SPEC / "Extensions"
    per = 40 if quick else 400
    r = vlib.tlc(DE, "MCExtensionsSim", workers=4, simulate=per, depth=52, seed_=vlib.seed() + 55, timeout=600)
    if not r.ok:
        vlib.log(r.out[-3000:])
        raise vlib.ToolError("MCExtensionsSim failed: %s" % r.kind)
    behs = r.tagged("BEH")
    out.tlc_runs.append({"what": "MCExtensionsSim -simulate: type-map histories (10 spans, 3 types, 50 operations); invariants Unique, ClosedIsEmpty", "behaviours": len(behs), "wall_s": round(r.wall, 1)})
    w = vlib.workdir("c05x")
    vlib.write_ndjson(w / "behaviours.ndjson", behs)
    bins = vlib.cargo_build(["extmap"])
    vlib.run_bin(bins["extmap"], env={"VH_IN": w / "behaviours.ndjson", "VH_OUT": w / "trace.ndjson"}, timeout=600)
    lines = vlib.read_ndjson(w / "trace.ndjson")
    found, _ = trace.validate(DE, "ExtensionsTrace", lines, "c05x", nchunks=4, jobs=4, tags=("BAD",))
    seen = set()
    for b, pos, rec in sorted(found["BAD"], key=lambda x: (x[0], x[1])):
        if b in seen:
            continue
        seen.add(b)
        out.violation("type-map history %d, operation %d (%s): returned value / dropped values / initial contents contradict Extensions: %s" % (b, pos, rec.get("op"), json.dumps(rec)[:400]),
                      {"extmap_behaviour": behs[b], "failing_step": pos, "observed": rec})
    out.extra["extmap_histories"] = len(behs)
    return len(behs)


def judge(out, behs, lines, found, prop):
    out.traces = len(behs)
    ops = [x for x in lines if x.get("ev") == "op"]
    out.evaluations = len(ops)
    out.distinct_nontrivial = len({json.dumps(b["steps"], sort_keys=True) for b in behs
                                   if sum(1 for s in b["steps"] if s["op"] in ("enter", "exit", "drop", "tdrop")) >= 4})
    out.rule = ("a case is one history (TLC -simulate of MCRegistrySim: 60 operations over 3 threads, 2 registries, <= 12 spans, 2 capture slots) run "
                "in its own OS process against real Registry stacks with two recording layers + ErrorSubscriber; plus slot-recycling histories (create / close "
                "churn with explicit parents and explicit roots); distinct = distinct histories with "
                "at least 4 enter/exit/drop operations")
    out.samples = [behs[0]["steps"][:10], [x for x in ops if x.get("closes")][:3]]
    out.assumptions = ["operations of different threads run in the prescribed global order (reference-count interleavings are the RegistryRace model)",
                       "registry ids are logged as a dense index of the raw 64-bit id"]
    key = "BAD5" if prop == "C05" else "BAD6"
    seen = set()
    for b, pos, rec in sorted(found[key], key=lambda x: (x[0], x[1])):
        if b in seen:
            continue
        seen.add(b)
        out.violation("history %d, operation %d (%s): observation contradicts the abstract registry: %s" % (b, pos, rec.get("op", rec.get("ev")), json.dumps(rec)[:500]),
                      {"behaviour": behs[b], "failing_step": pos, "observed": rec})
    if prop == "C05":
        known = [f for f in vlib.known_findings("C05") if f["id"] == "F2"]
        for b, pos, rec in found["F2"]:
            if known:
                out.known_finding("F2", known[0]["what"])
            else:
                out.violation("history %d op %d: close path through a foreign default: %s" % (b, pos, json.dumps(rec)[:400]), {"behaviour": behs[b], "failing_step": pos})
    if prop == "C05":
        known = [f for f in vlib.known_findings("C05") if f["id"] == "F32"]
        for b, pos, rec in found.get("F32", []):
            if known:
                out.known_finding("F32", known[0]["what"])
            else:
                out.violation("history %d op %d: a handle given up inside a layer's on_event leaks the parent's reference: %s" % (b, pos, json.dumps(rec)[:400]),
                              {"behaviour": behs[b], "failing_step": pos, "observed": rec})
    for b, pos, rec in found["DRIFT"]:
        out.drift.append("history %d op %d: observation differs from the mechanism model: %s" % (b, pos, json.dumps(rec)[:300]))


def replay(out, path, prop):
    d = json.load(open(path))["replay"]
    if "extmap_behaviour" in d:
        w = vlib.workdir("c05x_replay")
        vlib.write_ndjson(w / "behaviours.ndjson", [d["extmap_behaviour"]])
        bins = vlib.cargo_build(["extmap"])
        vlib.run_bin(bins["extmap"], env={"VH_IN": w / "behaviours.ndjson", "VH_OUT": w / "trace.ndjson"}, timeout=600)
        lines = vlib.read_ndjson(w / "trace.ndjson")
        for x in lines:
            print(json.dumps(x))
        found, _ = trace.validate(SPEC / "Extensions", "ExtensionsTrace", lines, "c05x_replay", nchunks=1, jobs=1, tags=("BAD",))
        for b, pos, rec in found["BAD"]:
            out.violation("type-map history: operation %d contradicts Extensions" % pos, d)
        return
    lines, found = execute([d["behaviour"]], prop.lower() + "_replay")
    for x in lines:
        print(json.dumps(x))
    judge(out, [d["behaviour"]], lines, found, prop)
