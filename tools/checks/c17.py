"""C17 - #[instrument] preserves behaviour exactly and adds one well-formed span per call (spec/Instrument)."""
import json
import random
import subprocess
import sys

import trace
import vlib
from vlib import SPEC, VERIF

D = SPEC / "Instrument"
FALLBACK = False
CORPUS = VERIF / "harness/vh/corpus/instr.json"


def regen():
    r = subprocess.run([sys.executable, str(VERIF / "tools/gen_instrument_corpus.py")], capture_output=True, text=True)
    if r.returncode != 0:
        raise vlib.ToolError("instrument corpus generation failed: " + r.stderr[-500:])
    vlib.log(r.stdout.strip())


def gen_cases(rng, twins, quick):
    cases = []
    for t in twins:
        for n in t["inputs"]:
            cases.append({"mode": "accept", "outer": rng.random() < 0.5, "calls": [{"twin": t["id"], "n": n}], "schedule": []})
            if not quick or rng.random() < 0.5:
                cases.append({"mode": rng.choice(["none", "never", "dynamic", "cap"]), "outer": rng.random() < 0.5, "calls": [{"twin": t["id"], "n": n}], "schedule": []})
            # a collector accepting exactly the levels up to thr (hint = thr): the span and each ret / err event are judged by their own level
            lv = sorted({t["level"], t["retcfg"]["level"], t["errcfg"]["level"]} - {0})
            if len(lv) > 1 or not quick or rng.random() < 0.3:
                thr = rng.choice([x for x in range(1, 5) if lv[0] <= x < lv[-1]] or [rng.randint(1, 4)])
                cases.append({"mode": "thr", "thr": thr, "outer": rng.random() < 0.5, "calls": [{"twin": t["id"], "n": n}], "schedule": []})
    asyncs = [t for t in twins if t["kind"] != "sync"]
    for _ in range(150 if quick else 2500):
        k = rng.choice([2, 2, 3])
        calls = []
        for _ in range(k):
            t = rng.choice(asyncs if rng.random() < 0.85 else twins)
            calls.append({"twin": t["id"], "n": rng.choice(t["inputs"])})
        cases.append({"mode": "accept", "outer": rng.random() < 0.4, "calls": calls, "schedule": [rng.randrange(k) for _ in range(rng.randint(2, 14))]})
    return cases


def expect(t, n, outcome):
    """the specification's expectations of one call, given the PLAIN twin's outcome"""
    def sub(v):
        return v.replace("{n+1}", str(n + 1)).replace("{n}", str(n))
    events = []
    if not outcome.startswith("panic:"):
        rc, ec = t["retcfg"], t["errcfg"]
        is_ok, is_err = outcome.startswith("Ok("), outcome.startswith("Err(")

        def disp(v):      # Display text of a value given its Debug text
            if v.startswith("Tok("):
                return "tok-" + v[4:-1]
            if v.startswith("MyErr("):
                return "my-err-" + v[6:-1]
            return v
        if t["has_err"] and is_err:
            inner = outcome[4:-1]
            events.append({"field": "error", "v": inner if ec["mode"] == "debug" else disp(inner), "level": ec["level"]})
        elif t["has_ret"] and not (t["has_err"] and is_err):
            v = outcome[3:-1] if (t["has_err"] and is_ok) else outcome
            events.append({"field": "return", "v": disp(v) if rc["mode"] == "display" else v, "level": rc["level"]})
    return {"name": t["name"], "level": t["level"], "target": t["target"], "parent": t["parent"], "follows": t["follows"],
            "fields": [{"name": k, "v": sub(v), "m": t.get("meths", {}).get(k, "any")} for k, v in sorted(t["fields"].items())], "events": events}


def canon_drops(log):
    """Arguments that die at the same program point are dropped in an order that depends on how the compiler captured them
    (function parameters vs. variables moved into an async block); the property counts drops, so a maximal run of consecutive
    drop effects is compared as a multiset: rewrite each run in sorted order."""
    eff = [x for x in log if x["k"] == "effect"]
    i = 0
    while i < len(eff):
        j = i
        while j < len(eff) and eff[j]["what"].startswith("drop:") and eff[j]["call"] == eff[i]["call"]:
            j += 1
        if j - i > 1:
            names = sorted(e["what"] for e in eff[i:j])
            for e, nm in zip(eff[i:j], names):
                e["what"] = nm
        i = max(j, i + 1)


def execute(cases, twins, name, nchunks=8):
    w = vlib.workdir(name)
    global FALLBACK
    try:
        bins = vlib.cargo_build(["instr"])
    except vlib.ToolError:
        # boxed-future twins with ret / err (feature `fragile`) may stop compiling when the attribute changes; run the rest
        bins = vlib.cargo_build(["instr"], no_default=True)
        FALLBACK = True
        vlib.log("[c17] the full corpus does not compile; running without the boxed-future ret/err twins")
        keep = [c for c in cases if not any(twins[x["twin"]]["fragile"] for x in c["calls"])]
        cases[:] = keep
    vlib.write_ndjson(w / "cases.ndjson", cases)
    vlib.run_bin(bins["instr"], env={"VH_IN": w / "cases.ndjson", "VH_OUT": w / "trace.ndjson"}, timeout=1800)
    lines = vlib.read_ndjson(w / "trace.ndjson")
    for x in lines:
        if x.get("ev") != "case":
            continue
        canon_drops(x["plain"])
        canon_drops(x["inst"])
        outs = {d["call"]: d["outcome"] for d in x["plain"] if d["k"] == "done"}
        x["x"] = [expect(twins[c["twin"]], c["n"], outs.get(i, "panic:missing")) for i, c in enumerate(x["calls"])]
    found, results = trace.validate(D, "InstrumentTrace", lines, name, nchunks=nchunks, jobs=nchunks, tags=("BAD",), timeout=2400)
    whys = []
    for r in results:
        whys += r.tagged("WHY")[0]
    return lines, found, whys


def judge(out, cases, twins, found, whys):
    seen = set()
    for (b, pos, rec), why in zip(found["BAD"], whys):
        c = cases[rec["ci"]]
        key = (tuple(x["twin"] for x in c["calls"]), why)
        if key in seen:
            continue
        seen.add(key)
        desc = "; ".join("t%d %s %s -> %s, n=%d" % (x["twin"], twins[x["twin"]]["kind"], twins[x["twin"]]["attr"], twins[x["twin"]]["ret"], x["n"]) for x in c["calls"])
        out.violation("clause %s of Instrument fails for [%s] under mode %s (outer=%s, schedule=%s)" % (why, desc[:500], c["mode"], c["outer"], c["schedule"]),
                      {"case": c, "why": why, "expect": rec["x"], "inst": rec["inst"], "plain": rec["plain"]})


def run(out, tier):
    quick = tier == "quick"
    regen()
    twins = json.load(open(CORPUS))
    r = vlib.require_ok(vlib.tlc(D, "MCInstrument", cfg="MCInstrument", workers=6, timeout=1800, heap="6g"), "Instrument: the expansion's runs are accepted")
    out.add_tlc(r, "MCInstrument exhaustive: two calls (sync / async, <= 2 suspension points, ok / err / panic, ret / err events) interleaved at poll "
                   "granularity; every complete log of the expansion mechanism satisfies Accept")
    neg = vlib.tlc(D, "MCInstrument", cfg="MCInstrumentNeg", workers=6, timeout=1800, heap="6g")
    if neg.ok:
        raise vlib.ToolError("negative control: a span held across .await was accepted")
    rng = random.Random(vlib.seed() * 23 + 17)
    cases = gen_cases(rng, twins, quick)
    lines, found, whys = execute(cases, twins, "c17", nchunks=8 if quick else 14)
    judge(out, cases, twins, found, whys)
    if FALLBACK and not out.violations:
        raise vlib.ToolError("the boxed-future ret/err twins of the corpus do not compile against this tree and the rest of the corpus shows no violation")
    out.traces = len(cases)
    out.evaluations = sum(len(x["inst"]) + len(x["plain"]) for x in lines if x.get("ev") == "case")
    out.distinct_nontrivial = len(twins)
    out.exhaustive = False
    out.rule = ("a case runs the plain and the attributed twin(s) of a generated corpus (%d twin pairs: sync / async fn / Box::pin(async move) style x argument "
                "patterns (by value, &, &mut, mut binding, tuple and struct destructuring, generic, impl Trait, &self / &mut self / self) x return shapes "
                "(unit, value, droppable value, Result, impl Trait, early return, ?, panic) x attribute arguments (name, level, target, parent, follows_from, "
                "skip, skip_all, fields with expressions / %% / ? / overriding names, ret and err with modes and levels)) with every input that selects a "
                "different path, under an accepting collector (with or without an entered outer span) and under none / never / dynamic / capped "
                "collectors, plus interleaved polls of 2-3 calls by a manual executor; both chronological logs (effects + collector callbacks) go to TLC, "
                "which evaluates Instrument!Accept" % len(twins))
    out.samples = [twins[1]["attr"], twins[200]["attr"], cases[0], cases[-1]]
    out.assumptions = ["single-threaded executor; Debug / Display of helper types have no side effects",
                       "`parent` / `follows_from` are written before `target` (attr.rs rejects the other order at compile time)"]


def replay(out, path):
    d = json.load(open(path))["replay"]
    twins = json.load(open(CORPUS))
    c = d["case"]
    lines, found, whys = execute([c], twins, "c17_replay", nchunks=1)
    for x in lines:
        if x.get("ev") == "case":
            for w in ("plain", "inst"):
                print(w)
                for y in x[w]:
                    print("   ", json.dumps(y)[:300])
    judge(out, [c], twins, found, whys)
