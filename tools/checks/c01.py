"""C01 - caches never change what a collector's own filter decides (spec/Dispatch)."""
import json
import random

import vlib
from vlib import SPEC
from checks import dispatch_common as dc


def run(out, tier):
    quick = tier == "quick"
    # 1. exhaustive: M (interest cache, MAX_LEVEL, registrar list, thread-local slot) implements A
    r = vlib.require_ok(vlib.tlc(SPEC / "Dispatch", "MCDispatch", cfg="MCDispatchQ" if quick else "MCDispatchT",
                                 workers=8, timeout=3000, heap="12g"),
                        "Dispatch: CacheTransparent / CurAgree in every reachable state")
    out.add_tlc(r, "MCDispatch exhaustive (%s): invariants CacheTransparent, CurAgree, GlobalAgree, CurAlive, MaxLevelCovers evaluated for every (thread, callsite) in every state" % ("Q" if quick else "T"))
    # 2. spec -> impl: TLC-generated behaviours; 3. impl -> spec: long random histories
    rng = random.Random(vlib.seed())
    behs = dc.tlc_behaviours(400 if quick else 4000, vlib.seed(), out, "MCDispatchSim -simulate: behaviours replayed against the real crates")
    nrand = 60 if quick else 600
    for i in range(nrand):
        behs.append({"src": "random-long", "steps": dc.gen_history(rng, 150, 10, 4, "filters")})
    for i in range(60 if quick else 600):
        behs.append({"src": "churn", "steps": dc.gen_churn(rng)})
    for i in range(30 if quick else 300):
        behs.append({"src": "flip", "steps": dc.gen_flip(rng)})
    lines, found, results = dc.run_and_validate(out, behs, "c01")
    judge(out, behs, lines, found, "C01")


def judge(out, behs, lines, found, prop):
    emits = [x for x in lines if x.get("ev") == "emit"]
    out.traces = len(behs)
    out.evaluations = len(lines)
    sig = set()
    for x in emits:
        sig.add((x["c"]["lvl"], x["c"]["tgt"], x["k"], x["got"] != 0))
    # distinct non-trivial: emissions (callsite, kind, thread, position) whose outcome needed the filter: count distinct
    # (behaviour, step) emissions that were delivered or rejected while a collector was current
    nontriv = set()
    beh = -1
    for x in lines:
        if x.get("ev") == "reset":
            beh = x["beh"]
            pos = 0
            continue
        pos += 1
        if x.get("ev") == "emit":
            nontriv.add((json.dumps(behs[beh]["steps"][:pos], sort_keys=True)))
    out.distinct_nontrivial = len(nontriv)
    out.rule = ("each trace is one OS process running one behaviour (TLC -simulate behaviours of MCDispatchSim and seeded random "
                "histories of 150 steps over 10 collectors / 4 threads / 15 callsites x {event, span, enabled!}, plus collector-turnover histories "
                "in which the global maximum level goes down and up across already registered callsites); counted: distinct "
                "history prefixes ending in an emission (the emission's outcome depends on the whole prefix)")
    out.samples = [behs[0]["steps"][:12], [x for x in lines[:40] if x.get("ev") == "emit"][:5]]
    out.assumptions = ["collectors' filters are self-consistent records (level threshold x target set x static/dyn/lazy x true-upper-bound hint)",
                       "default features (compile-time maximum = TRACE)", "one process per behaviour; threads execute operations in the prescribed global order"]
    for b, pos, rec in found["BAD"]:
        out.violation("behaviour %d step %d: real code disagrees with the abstract spec: %s" % (b, pos, json.dumps(rec)),
                      {"behaviour": behs[b], "failing_step": pos, "observed": rec})
    for b, pos, rec in found["DRIFT"]:
        out.drift.append("behaviour %d step %d: mechanism model disagrees (MAX_LEVEL / guard chain): %s" % (b, pos, json.dumps(rec)))


def replay(out, path):
    d = json.load(open(path))["replay"]
    lines, found, _ = dc.run_and_validate(out, [d["behaviour"]], "c01_replay")
    for x in lines:
        print(json.dumps(x))
    judge(out, [d["behaviour"]], lines, found, "C01")
