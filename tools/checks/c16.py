"""C16 - rolling appender: a write lands in its period's file; only the oldest are pruned (spec/Rolling)."""
import calendar
import datetime
import json
import random

import trace
import vlib
from vlib import SPEC

D = SPEC / "Rolling"
PER = {"minutely": 60, "hourly": 3600, "daily": 86400, "never": 0}
FMT = {"minutely": "%Y-%m-%d-%H-%M", "hourly": "%Y-%m-%d-%H", "daily": "%Y-%m-%d", "never": "%Y-%m-%d"}


def ts(y, mo, d, h=0, mi=0, s=0):
    return calendar.timegm((y, mo, d, h, mi, s))


ANCHORS = [ts(2023, 12, 31, 23, 59, 30), ts(2024, 2, 28, 23, 59, 0), ts(2024, 2, 29, 23, 58, 59), ts(2023, 2, 28, 23, 59, 59), ts(2032, 2, 29, 23, 59, 59),
           ts(2000, 2, 29, 12, 0, 0), ts(1999, 12, 31, 23, 59, 59), ts(2024, 6, 30, 23, 59, 58), ts(2036, 2, 28, 23, 59, 0), ts(1970, 1, 1, 0, 0, 30), ts(2021, 3, 14, 1, 59, 59)]


def expected_name(kind, k, prefix, suffix):
    if kind == "never":
        parts = [x for x in (prefix, suffix) if x]
        return ".".join(parts)
    date = datetime.datetime.utcfromtimestamp(k * PER[kind]).strftime(FMT[kind])
    parts = [x for x in (prefix, date, suffix) if x]
    return ".".join(parts)


def name_to_period(kind, name, prefix, suffix):
    if kind == "never":
        return 0
    core = name
    if prefix:
        if not core.startswith(prefix + "."):
            return None
        core = core[len(prefix) + 1:]
    if suffix:
        if not core.endswith("." + suffix):
            return None
        core = core[:-(len(suffix) + 1)]
    try:
        dt = datetime.datetime.strptime(core, FMT[kind])
    except ValueError:
        return None
    return calendar.timegm(dt.timetuple()) // PER[kind]


def behaviour(rng, i):
    kind = rng.choice(["minutely", "minutely", "hourly", "daily", "never"])
    P = PER[kind]
    prefix = rng.choice(["app", "app", "my.log", None])
    suffix = rng.choice([None, None, "log", "txt", "my.log"])
    if prefix is None and suffix is None and kind == "never":
        prefix = "app"
    maxf = rng.choice([0, 0, 1, 2, 3])
    t0 = rng.choice(ANCHORS) if rng.random() < 0.7 else rng.randint(0, 2000000000)
    now = t0
    cur = (t0 // P) if P else 0
    nd = (cur + 1) * P if P else 0
    steps = []
    for n in range(rng.choice([8, 14, 20])):
        r = rng.random()
        if P:
            if r < 0.2:
                pass  # time stands still
            elif r < 0.4:
                now += rng.choice([1, 1, 2, 7])
            elif r < 0.55:
                now = nd  # exactly the boundary
            elif r < 0.65:
                now = nd - 1
            elif r < 0.8:
                now = nd + P * rng.choice([0, 1, 2, 5]) + rng.randint(0, P - 1)  # possibly a multi-period jump
            elif r < 0.9:
                now -= rng.choice([1, 30, P, 3 * P])  # the clock steps back
            else:
                now += rng.randint(0, 3 * P)
        else:
            now += rng.choice([0, 1, 86400 * 40])
        now = max(0, min(now, 2100000000))
        rot = bool(P) and now >= nd
        old_nd = nd
        if rot:
            cur = now // P
            nd = (cur + 1) * P
        c = rng.random()
        if c < 0.08 and P and rot and steps:
            # a writer obtained in the previous period is still held by another thread while this period's first make_writer runs
            prev_now = steps[-1]["now"]
            steps.append({"op": "held", "now1": prev_now, "now": now, "ids": [1000 * (n + 1) + j for j in (1, 2, 3)], "rot_hint": rot})
        elif c < 0.3:
            # racing MakeWriter users at this clock reading, under a random schedule of the appender's yield points
            k = rng.choice([2, 2, 3])
            ids = [1000 * (n + 1) + j for j in range(1, k + 1)]
            st = {"op": "race", "now": now, "ids": ids, "schedule": [rng.randint(1, k) for _ in range(rng.choice([0, 4, 8, 12]))], "rot_hint": rot}
            if P and rot and rng.random() < 0.5:
                if now // P > old_nd // P and rng.random() < 0.6:
                    # a slow thread took its (due) clock reading in an earlier period, is overtaken after should_rollover by the
                    # thread that rotates for `now`, and resumes afterwards: it must lose the rotation and change nothing
                    st["ids"], st["nows"], st["schedule"] = ids[:2], [old_nd + rng.choice([0, 1]), now], [1] + [2] * 30 + [1] * 30
                elif old_nd > 0:
                    # some threads read the clock just before the boundary (not due): only the thread reading `now` rotates
                    nows = [now] + [max(0, old_nd - rng.choice([1, 2, 30])) for _ in range(k - 1)]
                    rng.shuffle(nows)
                    st["nows"] = nows
            steps.append(st)
        else:
            steps.append({"op": "write", "iface": rng.choice(["mut", "mw"]), "now": now, "id": n + 1, "rot_hint": rot})
    # files left by earlier runs: some older periods, sometimes also a LATER one holding data (the clock was set back while the
    # program was down): pruning counts them, and rotating into an existing file appends to it
    left = []
    if P and rng.random() < 0.35:
        k0 = t0 // P
        ks = sorted(rng.sample(range(max(0, k0 - 6), k0), min(k0, rng.choice([1, 2, 4]))))
        left = [{"k": k, "ids": []} for k in ks]
        if rng.random() < 0.5:
            left.append({"k": k0 + rng.choice([1, 2]), "ids": [9001, 9002]})
            rng.shuffle(left)
    leftovers = [{"name": expected_name(kind, f["k"], prefix, suffix), "content": "".join("b%d\n" % x for x in f["ids"])} for f in left]
    # files in the directory that are NOT the appender's: another name altogether, and (with a prefix and a suffix configured) the
    # same prefix and date with another suffix - never deleted, never counted towards the file limit
    foreign = []
    if rng.random() < 0.5:
        foreign.append({"name": "zzz-other.dat", "content": "keep me\n"})
        if prefix is not None and suffix is not None:
            other = "json" if suffix != "json" else "old"
            for dk in (1, 2):
                foreign.append({"name": expected_name(kind, max(0, (t0 // P if P else 0) - dk), prefix, other), "content": "theirs\n"})
        rng.shuffle(foreign)
    leftovers = foreign[:1] + leftovers + foreign[1:]
    # with a prefix only, the appender may equally be made by RollingFileAppender::new or the helper functions
    ctor = rng.choice(["builder", "new", "helper"]) if (prefix is not None and suffix is None and maxf == 0) else "builder"
    return {"src": "random-c16", "id": i, "kind": kind, "prefix": prefix, "suffix": suffix, "max_files": maxf, "t0": t0, "steps": steps, "ctor": ctor,
            "left": left, "leftovers": leftovers, "foreign": foreign}


def to_trace(behs, lines):
    out = []
    b = None
    for x in lines:
        if x.get("ev") == "reset":
            b = behs[x["beh"]]
            pend = {"ev": "reset", "beh": x["beh"], "p": PER[b["kind"]], "max_files": b["max_files"], "t0": b["t0"], "init_ok": False, "left": b.get("left", [])}
            out.append(pend)
            continue
        if x.get("ev") == "init":
            fs = x.get("files", [])
            k0 = (b["t0"] // PER[b["kind"]]) if PER[b["kind"]] else 0
            mine = [f for f in fs if f["name"] == expected_name(b["kind"], k0, b["prefix"], b["suffix"])]
            out[-1]["init_ok"] = ("error" not in x and len(fs) == 1 + len(b.get("left", [])) + len({f["name"] for f in b.get("foreign", [])}) and len(mine) == 1 and mine[0]["content"] == "")
            continue
        if x.get("ev") != "op":
            out.append(x)
            continue
        files, names_ok = [], True
        foreign = {f["name"]: f["content"] for f in b.get("foreign", [])}
        present = {f["name"]: f["content"] for f in x["listing"]}
        if any(present.get(nm) != c for nm, c in foreign.items()):
            names_ok = False        # somebody else's file was deleted or changed
        for f in x["listing"]:
            if f["name"] in foreign:
                continue
            k = name_to_period(b["kind"], f["name"], b["prefix"], b["suffix"])
            if k is None or f["name"] != expected_name(b["kind"], k, b["prefix"], b["suffix"]):
                names_ok = False
                k = -1 - len(files)
            ids = []
            for ln in f["content"].split("\n")[:-1] if f["content"].endswith("\n") or f["content"] == "" else ["<torn>"]:
                if ln.startswith("b") and ln[1:].isdigit():
                    ids.append(int(ln[1:]))
                else:
                    ids.append(-1)
            files.append({"k": k, "ids": ids})
        rec = {"ev": "op", "op": x["op"], "now": x["now"], "id": x.get("id", 0), "ids": x.get("ids", []), "write_ok": x["write_ok"], "names_ok": names_ok, "files": files}
        if x.get("nows"):
            rec["nows"] = x["nows"]
        out.append(rec)
    return out


def run(out, tier):
    quick = tier == "quick"
    r = vlib.require_ok(vlib.tlc(D, "MCRolling", workers=4, timeout=900), "Rolling: concurrent MakeWriter users")
    out.add_tlc(r, "MCRolling exhaustive: 3 writers through the MakeWriter path around a period boundary (clock 59, 60, 60, 61), one step per should_rollover load / CAS / refresh_writer / read-lock / write; invariants ExactlyOnce, RightFile, OneRotationPerBoundary")
    rng = random.Random(vlib.seed() * 5 + 16)
    behs = [behaviour(rng, i) for i in range(300 if quick else 3000)]
    w = vlib.workdir("c16")
    vlib.write_ndjson(w / "behaviours.ndjson", behs)
    bins = vlib.cargo_build(["rolling"])
    vlib.run_bin(bins["rolling"], env={"VH_IN": w / "behaviours.ndjson", "VH_OUT": w / "raw.ndjson"}, timeout=2400)
    lines = vlib.read_ndjson(w / "raw.ndjson")
    tr = to_trace(behs, lines)
    found, results = trace.validate(D, "RollingTrace", tr, "c16", nchunks=8, jobs=8, tags=("BAD",))
    out.traces = len(behs)
    out.evaluations = sum(1 for x in tr if x.get("ev") == "op")
    out.distinct_nontrivial = len({(b["kind"], b["prefix"], b["suffix"], b["max_files"], tuple(s["now"] for s in b["steps"])) for b in behs if any(s["rot_hint"] for s in b["steps"])})
    out.rule = ("a case is one appender configuration (rotation kind x prefix / suffix x file limit 0-3) created at a scripted instant (year / month ends, leap "
                "days, 1970, 2037, random) with 8-20 writes whose clock readings stand still, advance, hit the boundary exactly, miss it by a second, jump "
                "several periods or step back, through the exclusive Write and the shared MakeWriter interface; after every write the directory listing "
                "(file name -> period via an independent calendar, contents -> buffer ids) is validated; distinct = distinct cases with at least one rotation")
    out.samples = [{k: behs[0][k] for k in ("kind", "prefix", "suffix", "max_files", "t0")}, behs[0]["steps"][:4], tr[1]]
    out.assumptions = ["file creation times order the pruning: the harness keeps successive rotations >= 12 ms apart (ext4 btime granularity)",
                       "file names are mapped to periods with Python's calendar (independent of the `time` crate)", "sequential histories here; the concurrent MakeWriter path is model-checked (MCRolling)"]
    seen = set()
    for b, pos, rec in sorted(found["BAD"], key=lambda x: (x[0], x[1])):
        if b in seen:
            continue
        seen.add(b)
        out.violation("appender %d (%s, max_files=%s) write %d: directory does not match the abstract appender: %s"
                      % (b, behs[b]["kind"], behs[b]["max_files"], pos, json.dumps(rec)[:600]), {"behaviour": behs[b], "failing_step": pos, "observed": rec})


def replay(out, path):
    d = json.load(open(path))["replay"]
    print(json.dumps(d)[:3000])
