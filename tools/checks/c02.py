"""C02 - an emission goes to the thread's scoped default, else to the global default (spec/Dispatch).
Same specification and driver as C01; the histories here stress scopes: nested set_default on 1-4
threads, set_global_default attempts at every position (before/after a thread used a scope or merely
emitted), panics that unwind scopes, threads starting late - mostly with accept-everything
collectors so that the only thing deciding an emission's fate is who the current collector is."""
import json
import random

import vlib
from vlib import SPEC
from checks import dispatch_common as dc
from checks import c01


def run(out, tier):
    quick = tier == "quick"
    r = vlib.require_ok(vlib.tlc(SPEC / "Dispatch", "MCDispatch", cfg="MCDispatchScopesQ" if quick else "MCDispatchScopesT",
                                 workers=8, timeout=3000, heap="12g"),
                        "Dispatch: CurAgree / GlobalAgree in every reachable state")
    out.add_tlc(r, "MCDispatch exhaustive, scope-heavy constants (%s): CurAgree (thread-local slot + SCOPED_COUNT + global vs. the LIFO scope stack), GlobalAgree, CurAlive, ScopedCountIsScopes" % tier)
    rng = random.Random(vlib.seed() + 2)
    behs = dc.tlc_behaviours(300 if quick else 3000, vlib.seed() + 2, out, "MCDispatchSim -simulate: behaviours replayed against the real crates")
    for i in range(80 if quick else 800):
        behs.append({"src": "random-scopes", "steps": dc.gen_history(rng, 120, 8, rng.choice([1, 2, 3, 4]), "scopes")})
    lines, found, results = dc.run_and_validate(out, behs, "c02")
    c01.judge(out, behs, lines, found, "C02")
    out.rule = ("one OS process per behaviour (the global default can be set once per process - every position of set_global_default "
                "in a history needs its own process); TLC -simulate behaviours plus seeded random scope-heavy histories (nesting <= 4, "
                "1-4 threads, panics unwinding scopes, set_global attempts at any point); counted: distinct history prefixes ending in an emission")


def replay(out, path):
    d = json.load(open(path))["replay"]
    lines, found, _ = dc.run_and_validate(out, [d["behaviour"]], "c02_replay")
    for x in lines:
        print(json.dumps(x))
    c01.judge(out, [d["behaviour"]], lines, found, "C02")
