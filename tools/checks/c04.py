"""C04 - racing callsite registration and collector turnover converge; none is stranded (spec/Race)."""
import itertools
import json
import random

import trace
import vlib
from vlib import SPEC

D = SPEC / "Race"

F_ALL = {"thr": 5, "tgts": ["a", "b"], "kind": "static", "hint": 9}
F_DYN3 = {"thr": 3, "tgts": ["a"], "kind": "dyn", "hint": 3}
F_ERR = {"thr": 1, "tgts": ["a", "b"], "kind": "static", "hint": 1}
F_SW = {"thr": 5, "tgts": ["a", "b"], "kind": "sw", "hint": 5}
C1 = {"lvl": 3, "tgt": "a"}
C2 = {"lvl": 5, "tgt": "b"}
hit = lambda c, k="event": {"op": "hit", "c": c, "k": k, "inspan": False}
new = lambda d: {"op": "new_default", "d": d}

# the scenarios of MCRegistrationRace (S1-S3), and more for the implementation only
SCEN = {
    "S1": {"collectors": {1: F_ALL, 2: F_DYN3}, "threads": [[new(1), hit(C1), hit(C2)], [new(2), hit(C1)]]},
    "S2": {"collectors": {1: F_ALL, 2: F_DYN3, 3: F_ERR}, "threads": [[new(1), hit(C1), hit(C1)], [new(3), hit(C1), {"op": "drop_default"}, new(2)]]},
    "S3": {"collectors": {1: F_ALL, 2: F_DYN3, 3: F_ERR},
           "threads": [[new(1), hit(C1), hit(C2)], [new(3), hit(C2), {"op": "rebuild"}], [hit(C1), new(2), hit(C1)]]},
    "S4": {"collectors": {1: F_ALL, 2: F_ALL}, "threads": [[new(1), hit(C1), hit(C2, "span")], [new(2), hit(C2), hit(C1, "span")]]},
    "S5": {"collectors": {1: F_ALL, 2: F_ERR, 3: F_ALL},
           "threads": [[new(1), hit(C1), hit(C2)], [new(2), {"op": "drop_default"}, {"op": "rebuild"}], [{"op": "set_global", "d": 3}, hit(C1)]]},
    "S6": {"collectors": {1: F_ALL, 2: F_DYN3},
           "threads": [[new(1), hit({"lvl": 1, "tgt": "a"}), hit({"lvl": 2, "tgt": "a"}), hit({"lvl": 4, "tgt": "b"})],
                       [new(2), hit({"lvl": 1, "tgt": "a"}), hit({"lvl": 2, "tgt": "a"}), hit({"lvl": 4, "tgt": "b"})]]},
    # two first hits of different callsites push onto the lock-free list at once; a collector created afterwards must
    # still be offered both callsites
    "S7": {"collectors": {1: F_ALL, 2: F_ALL, 3: F_ERR},
           "threads": [[new(1), hit(C1), {"op": "drop_default"}, new(3), hit(C2), hit(C1)], [new(2), hit(C2), hit(C1)]]},
    # a switchable collector (off at first) is switched on by its own thread, which then calls rebuild_interest_cache() as the
    # documentation demands - while another thread is inside the registry registering its first hits; the rebuild must not be lost
    "S8": {"collectors": {1: F_SW, 2: F_ERR},
           "threads": [[new(1), hit(C1), {"op": "switch", "on": True}, hit(C1), hit(C2)], [new(2), hit(C2), hit(C1), hit({"lvl": 4, "tgt": "a"})]]},
    "S9": {"collectors": {1: F_SW, 2: F_ALL},
           "threads": [[new(1), hit(C1), {"op": "switch", "on": True}, hit(C2), {"op": "switch", "on": False}, hit(C1)],
                       [hit({"lvl": 2, "tgt": "b"}), new(2), hit(C2), hit(C1, "span")]]},
}
MODEL = {"S1": 2, "S2": 2, "S3": 3}


def preemption_schedules(nthreads, maxlen, bound):
    """thread-choice sequences with at most `bound` switches away from a runnable thread, run lengths up to maxlen"""
    out = []
    ths = list(range(1, nthreads + 1))
    for first in ths:
        out.append([first] * 400)
        for n1 in range(0, maxlen):
            for second in ths:
                if second == first:
                    continue
                out.append([first] * n1 + [second] * 400)
                if bound >= 2:
                    for n2 in range(0, maxlen, 2):
                        for third in ths:
                            if third == second:
                                continue
                            out.append([first] * n1 + [second] * n2 + [third] * 400)
    return out


def run(out, tier):
    quick = tier == "quick"
    rng = random.Random(vlib.seed() * 7 + 4)
    behs = []
    for name, th in MODEL.items():
        r = vlib.require_ok(vlib.tlc(D, "MCRegistrationRace", cfg="MCRegistrationRace_" + name, workers=8, timeout=3000, heap="8g"),
                            "RegistrationRace " + name)
        out.add_tlc(r, "MCRegistrationRace %s exhaustive: every interleaving of %d threads at the granularity of each atomic operation / lock acquisition; invariants JudgedByOwnCollector, NoDeadlock, Quiescent; liveness Terminates" % (name, th))
        s = vlib.tlc(D, "MCRegistrationRaceSim", cfg="MCRegistrationRaceSim_" + name, workers=4, simulate=(12 if quick else 120), depth=400, seed_=vlib.seed(), timeout=900)
        if not s.ok:
            vlib.log(s.out[-3000:])
            raise vlib.ToolError("MCRegistrationRaceSim %s failed" % name)
        for sch in s.tagged("SCHED"):
            behs.append(dict(SCEN[name], name=name, src="tlc-simulate", schedule=sch))
    for name, sc in SCEN.items():
        n = len(sc["threads"])
        for _ in range(40 if quick else 400):
            behs.append(dict(sc, name=name, src="random", schedule=[rng.randint(1, n) for _ in range(rng.choice([10, 40, 120]))]))
        pre = preemption_schedules(n, 45 if not quick else 45, 2 if (n == 2) else 1)
        if quick:
            pre = rng.sample(pre, min(len(pre), 150))
        for sch in pre:
            behs.append(dict(sc, name=name, src="preemption-bounded", schedule=sch))
    # a third of the runs do not trust the lock notes (a lock released earlier than its note says is then still raced)
    for i, b in enumerate(behs):
        b["trust_locks"] = (i % 3 != 0)
    w = vlib.workdir("c04")
    vlib.write_ndjson(w / "scenarios.ndjson", [dict(b, collectors={str(k): v for k, v in b["collectors"].items()}) for b in behs])
    bins = vlib.cargo_build(["race"])
    vlib.run_bin(bins["race"], env={"VH_IN": w / "scenarios.ndjson", "VH_OUT": w / "raw.ndjson"}, timeout=3000)
    lines = vlib.read_ndjson(w / "raw.ndjson")
    tr = to_trace(behs, lines)
    found, results = trace.validate(D, "RaceTrace", tr, "c04", nchunks=8, jobs=8, tags=("BAD",))
    judge(out, behs, lines, tr, found, "C04")


def to_trace(behs, lines):
    tr = []
    for x in lines:
        if x.get("ev") == "reset":
            b = behs[x["beh"]]
            cols = [{"d": int(k), "f": v} for k, v in b.get("collectors", {}).items()]
            rl = b.get("reload")
            tr.append({"ev": "reset", "beh": x["beh"], "has_reload": bool(rl), "collectors": cols, "values": (rl or {}).get("values", []), "reloads": []})
            cur = tr[-1]
            continue
        y = {k: v for k, v in x.items() if k not in ("sites",)}
        if y.get("ev") == "op" and y.get("op") == "reload":
            cur["reloads"].append({"s": y["start"], "e": y["end"], "v": y["v"]})
        tr.append(y)
    return tr


def judge(out, behs, lines, tr, found, prop):
    out.traces = len(behs)
    out.evaluations = sum(1 for x in tr if x.get("op") == "hit") + sum(len(x.get("round", [])) for x in tr if x.get("ev") == "final")
    steps = [x.get("steps", 0) for x in lines if x.get("ev") == "sched"]
    distinct = set()
    cur = None
    for x in lines:
        if x.get("ev") == "reset":
            cur = x["beh"]
        if x.get("ev") == "sched":
            distinct.add((behs[cur]["name"], tuple(x.get("sites", []))))
    out.distinct_nontrivial = len(distinct)
    out.extra["yield_points_per_run"] = {"min": min(steps) if steps else 0, "max": max(steps) if steps else 0}
    out.rule = ("a case is one (scenario, schedule) pair run in its own OS process under the cooperative scheduler, which lets exactly one thread run between "
                "two yield points (cfg-guarded points at each atomic operation / lock acquisition of the registration and dispatch paths); schedules = TLC "
                "-simulate thread-choice sequences of the mechanism model, all schedules with at most 1-2 preemptions (sampled in the quick tier), and seeded "
                "random choices; distinct = distinct sequences of (thread, yield point) actually executed")
    out.samples = [{"scenario": behs[0]["name"], "threads": behs[0]["threads"], "schedule": behs[0]["schedule"][:30]},
                   next((x.get("sites", [])[:25] for x in lines if x.get("ev") == "sched"), [])]
    out.assumptions = ["sequentially consistent interleavings at the granularity of the yield points; weaker memory orderings are out of reach",
                       "a replayed schedule is a sequence of thread choices; a thread named while not runnable is skipped"]
    seen = set()
    f20 = [f for f in vlib.known_findings(prop) if f["id"] == "F20"]
    f26 = [f for f in vlib.known_findings(prop) if f["id"] == "F26"]
    by_beh = {}
    cur = None
    for x in tr:
        if x.get("ev") == "reset":
            cur = x["beh"]
            by_beh[cur] = []
        elif cur is not None:
            by_beh[cur].append(x)
    for b, pos, rec in sorted(found["BAD"], key=lambda x: (x[0], x[1])):
        if b in seen:
            continue
        if f20 and is_f20(behs[b], rec, by_beh.get(b, [])):
            out.known_finding("F20", f20[0]["what"])
            continue
        if f26 and is_f26(behs[b], rec, by_beh.get(b, [])):
            out.known_finding("F26", f26[0]["what"])
            continue
        seen.add(b)
        out.violation("scenario %s under schedule %s...: %s" % (behs[b]["name"], behs[b]["schedule"][:40], json.dumps({k: v for k, v in rec.items() if k != "round"})[:500]),
                      {"scenario": behs[b], "observed": {k: v for k, v in rec.items() if k != "round"}})


def is_f20(beh, rec, ops):
    """signature of known finding F20 (see known_findings.json)"""
    if (beh.get("reload") or {}).get("kind") not in ("env", "envplf") or rec.get("op") != "hit" or not rec.get("inspan") or rec.get("got") != 0:
        return False
    inspan = [o for o in ops if o.get("op") == "hit" and o.get("inspan")]
    if not inspan:
        return False
    first = min(inspan, key=lambda o: o["start"])
    others = [o for o in inspan if o["t"] != rec["t"] and o["start"] < rec["end"] and o["end"] > rec["start"]]
    return any(o is first or o["start"] <= first["end"] for o in others) or (first["t"] != rec["t"] and first["start"] < rec["end"] and first["end"] > rec["start"])


def is_f26(beh, rec, ops):
    """signature of known finding F26: the in-span emission overlaps a reload of the EnvFilter, i.e. its span instance may have
    been created under the previous filter instance, which the new instance knows nothing about"""
    if (beh.get("reload") or {}).get("kind") not in ("env", "envplf") or rec.get("op") != "hit" or not rec.get("inspan") or rec.get("got") != 0:
        return False
    return any(o.get("op") == "reload" and o["start"] < rec["end"] and o["end"] > rec["start"] for o in ops)


def replay(out, path):
    d = json.load(open(path))["replay"]
    print(json.dumps(d)[:3000])
