"""C06 - current span, parent and scope mirror each thread's enter/exit history (spec/Registry)."""
from checks import registry_common as rc


def run(out, tier):
    rc.run(out, tier, "C06")


def replay(out, path):
    rc.replay(out, path, "C06")
