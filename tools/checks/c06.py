"""C06 - current span, parent and scope mirror each thread's enter/exit history (spec/Registry)."""
import json
import random

import vlib
from checks import registry_common as rc


def macro_parents(out, tier):
    """the clause `an explicit parent or explicit root overrides it` at the macros: every span / event form of the generated
    macro corpus (C10's) runs once under an accepting collector; TLC (FieldsTrace, tag BADP) compares the parent the collector
    was shown - explicit root, the given span, or left to the context - with the form's `parent:` prefix"""
    from checks import c10
    c10.regen()
    sites = json.load(open(c10.CORPUS))
    rng = random.Random(vlib.seed() * 19 + 6)
    cases = [c10.make_case(rng, s, "accept") for s in sites if not s["skipped"] and s["kind"] in ("span", "event")]
    if tier == "quick":
        # every form with a parent: prefix, and every third of the others
        cases = [c for i, c in enumerate(cases) if c["decl"]["parent"] != "ctx" or i % 3 == 0]
    lines, found, _ = c10.execute(cases, "c06p", nchunks=8)
    seen = set()
    for b, pos, rec in found["BADP"]:
        if rec["cs"] in seen:
            continue
        seen.add(rec["cs"])
        s = sites[rec["cs"]]
        got = [c.get("pk") for c in rec["calls"] if c.get("call") in ("new_span", "event")]
        out.violation("callsite %d `%s!(%s)`: the collector was shown parent kind %s, the form says %s" % (rec["cs"], s["macro"], s["src"][:200], got, cases[rec["n"]]["decl"]["parent"]),
                      {"macro_case": cases[rec["n"]], "src": s["src"], "macro": s["macro"]})
    out.extra["macro_parent_cases"] = len(cases)


def run(out, tier):
    rc.run(out, tier, "C06")
    macro_parents(out, tier)


def replay(out, path):
    d = json.load(open(path))["replay"]
    if "macro_case" in d:
        from checks import c10
        lines, found, _ = c10.execute([d["macro_case"]], "c06p_replay", nchunks=1)
        for x in lines:
            print(json.dumps(x)[:2000])
        if found["BADP"]:
            out.violation("callsite `%s!(%s)`: parent differs from the form" % (d.get("macro"), d.get("src", "")[:200]), d)
        return
    rc.replay(out, path, "C06")
