"""C12 - after a reload returns, every thread filters with the new value (spec/Race: Reload, RaceTrace)."""
import json
import random

import trace
import vlib
from vlib import SPEC
from checks import c04

D = SPEC / "Race"
def val(thr, tgts, spanl=0, none=False):
    return {"thr": thr, "tgts": tgts, "spanl": spanl, "none": none}


V = [val(3, ["a"]), val(5, ["a", "b"]), val(1, ["b"]), val(4, ["a"])]
VENV = [val(3, ["a"]), val(3, ["a"], 5), val(1, ["a", "b"]), val(2, ["a"], 5)]
# ... through a value that accepts nothing (an empty Targets: its hint is OFF) and back
VOFF = [val(3, ["a"]), val(0, []), val(4, ["a", "b"]), val(0, [])]
# a reloadable Option<Targets>: Some(..) -> Some(..) -> None -> Some(..)
VOPT = [val(3, ["a"]), val(2, ["a", "b"]), val(0, [], none=True), val(1, ["b"])]
# an EnvFilter edited IN PLACE (Handle::modify + add_directive): only the level of the span-scoped directive changes
VMOD = [val(2, ["a"], 3), val(2, ["a"], 5), val(2, ["a"], 1), val(2, ["a"], 4)]
# ... starting from a filter WITHOUT any span-scoped directive: the first edit adds the first dynamic directive
VMOD0 = [val(2, ["a"], 0), val(2, ["a"], 5), val(2, ["a"], 1), val(2, ["a"], 4)]
CS = [{"lvl": 3, "tgt": "a"}, {"lvl": 5, "tgt": "b"}, {"lvl": 1, "tgt": "b"}, {"lvl": 4, "tgt": "a"}, {"lvl": 2, "tgt": "a"}]
hit = lambda c, k="event", inspan=False: {"op": "hit", "c": c, "k": k, "inspan": inspan}
rl = lambda v: {"op": "reload", "v": v}


def scenarios(rng, n):
    out = []
    for i in range(n):
        kind = rng.choice(["global", "global", "perlayer", "env", "env", "optglobal", "envmod", "envmod0", "envplf"])
        nth = rng.choice([2, 2, 3])
        threads = []
        reloads = [1, 2] if rng.random() < 0.7 else [rng.choice([1, 2, 3])]
        off = kind in ("global", "perlayer") and rng.random() < 0.4
        if off:
            reloads = [1, 2]
        # the reloading thread also emits; the others only emit - first some hits so that always / never verdicts are cached
        t1 = [hit(rng.choice(CS)) for _ in range(rng.choice([1, 2]))]
        for v in reloads:
            t1 += [rl(v)] + [hit(rng.choice(CS), rng.choice(["event", "span"])) for _ in range(rng.choice([1, 2]))]
        threads.append(t1)
        for _ in range(nth - 1):
            threads.append([hit(rng.choice(CS), rng.choice(["event", "event", "span"])) for _ in range(rng.choice([3, 4, 5]))])
        if kind in ("envmod", "envmod0"):
            for o in t1:
                if o["op"] == "reload":
                    o["how"] = "modify_add"
        elif rng.random() < 0.5:
            # the replacement goes through Handle::modify and yields to the scheduler while the write lock is held: an emitter
            # scheduled there really blocks on the handle's lock (or, if the code does not wait, is judged while the value is in flux)
            for o in t1:
                if o["op"] == "reload":
                    o["how"] = "modify_set"
        if kind in ("env", "envmod", "envmod0", "envplf"):   # emissions inside a span `w` that a span-scoped directive of the new value may enable
            for th in threads:
                for o in th:
                    if o["op"] == "hit" and rng.random() < 0.5:
                        o["inspan"], o["k"] = True, "event"
        out.append({"name": "R-%s-%d" % (kind, i), "collectors": {}, "reload": {"kind": "env" if kind in ("envmod", "envmod0") else kind,
                               # the recording layer above the reloadable filter may be a sampling layer (it answers `sometimes`)
                               "sampler": rng.random() < 0.4,
                               "values": VENV if kind in ("env", "envplf") else VMOD if kind == "envmod" else VMOD0 if kind == "envmod0" else VOPT if kind == "optglobal" else VOFF if off else V}, "threads": threads})
    return out


def run(out, tier):
    quick = tier == "quick"
    r = vlib.require_ok(vlib.tlc(D, "MCReload", workers=8, timeout=1800), "Reload: JudgedByAValueInEffect")
    out.add_tlc(r, "MCReload exhaustive: 1 reloader installing 2 further values (static and dynamic) x 2 emitters x 2 emissions x 3 callsites, every interleaving of "
                   "write-lock / store / unlock / per-callsite re-fold / MAX_LEVEL with gate / interest load / value read; invariant JudgedByAValueInEffect")
    # the registration race model exhibits known finding F20 (a collector is used for a callsite it was never offered)
    out.extra["f20_counterexample_in_model"] = (vlib.tlc(D, "MCRegistrationRace", cfg="MCRegistrationRace_F20", workers=4, timeout=600).kind == "invariant")
    rng = random.Random(vlib.seed() * 7 + 12)
    behs = []
    for sc in scenarios(rng, 40 if quick else 400):
        n = len(sc["threads"])
        for _ in range(6 if quick else 20):
            behs.append(dict(sc, src="random", schedule=[rng.randint(1, n) for _ in range(rng.choice([10, 60, 200]))]))
        pre = c04.preemption_schedules(n, 60, 1)
        for sch in rng.sample(pre, min(len(pre), 12 if quick else 60)):
            behs.append(dict(sc, src="preemption-bounded", schedule=sch))
    for i, b in enumerate(behs):
        b["trust_locks"] = (i % 3 != 0)
    w = vlib.workdir("c12")
    vlib.write_ndjson(w / "scenarios.ndjson", behs)
    bins = vlib.cargo_build(["race"])
    vlib.run_bin(bins["race"], env={"VH_IN": w / "scenarios.ndjson", "VH_OUT": w / "raw.ndjson"}, timeout=3000)
    lines = vlib.read_ndjson(w / "raw.ndjson")
    tr = c04.to_trace(behs, lines)
    for x in tr:
        if x.get("ev") == "final":  # the reloadable Targets filter matches by prefix: judge only the exact targets of the scenario
            x["round"] = [y for y in x["round"] if y["c"]["tgt"] in ("a", "b")]
    found, results = trace.validate(D, "RaceTrace", tr, "c12", nchunks=8, jobs=8, tags=("BAD",))
    c04.judge(out, behs, lines, tr, found, "C12")
    out.rule = ("a case is one (scenario, schedule) pair: a shared stack with a reloadable Targets filter (global layer or per-layer filter), one thread "
                "reloading 1-2 times (Targets as global layer or per-layer filter, EnvFilter, or an Option<Targets> layer going Some -> None) between emissions, 1-2 other threads emitting from 5 callsites (verdicts cached as always / never beforehand), run under "
                "the cooperative scheduler at the yield points of reload::Handle::modify, the callsite registry and MacroCallsite; every emission is judged by "
                "TLC against the values in effect between its start and end; quiescent round and dead-handle check at the end")


def replay(out, path):
    d = json.load(open(path))["replay"]
    print(json.dumps(d)[:3000])
