"""C09 - every layer sees every notification exactly once, inner before outer; wrappers are transparent (spec/LayerStack)."""
import json

from checks import c07
from checks import layerstack_common as lc


def run(out, tier):
    c07.run(out, tier, flavour="c09", prop="C09")
    out.rule = ("a case is one (stack, history) pair: unfiltered stacks of 1-5 elements (recording layers answering always or sometimes, wrapped in "
                "Box / Some / one-element Vec / reload / nested wrappers, None, empty Vec, Identity, and_then, two-element Vec, an event_enabled veto "
                "layer; the collector itself plain, boxed, arc'd or doubly boxed) with a 50-operation history covering all notification kinds "
                "(register_callsite passes, new span, record, follows_from, event, enter, exit, close, on_register_dispatch); the real stack's callbacks "
                "are validated against the FLAT form of the stack, i.e. with every wrapper erased")


def replay(out, path):
    d = json.load(open(path))["replay"]
    lines, found, _ = lc.execute([d["behaviour"]], "c09_replay", "c09")
    for x in lines:
        print(json.dumps(x))
    c07.judge(out, [d["behaviour"]], lines, found, "C09")
