"""C14 - JSON output is always one valid JSON object per line and faithful to the data (spec/JsonFields)."""
import hashlib
import json
import math
import random

import trace
import vlib
from vlib import SPEC

D = SPEC / "JsonFields"
FIELDS = ["fa", "fb", "we\"ird", "back\\slash", "ctl\u0001x", "uni z", "crab\U0001f980", "dotted.name", "r#ref", "r#return", "login", "log_level"]     # (names merely beginning with `log` are ordinary fields)
SPAN_NAMES = {"spA": "spA", "spB": "spB", "spC": "spC", "spD": "sp\"D\\"}
NASTY = ["", "plain", "quote\"inside", "back\\slash", "new\nline", "tab\tctl\u0001\u001f", "ls ps ", "crab\U0001f980\U0001f4a9", "{\"json\":1}", "'single'",
         "éè 中文", "</script>", "\\u0041", "null", "a" * 300]
INTS = {"u64": ["0", "1", "18446744073709551615", "9223372036854775808", "42"],
        "i64": ["0", "-1", "-9223372036854775808", "9223372036854775807"],
        "u128": ["0", "340282366920938463463374607431768211455", "18446744073709551616"],
        "i128": ["-170141183460469231731687303715884105728", "170141183460469231731687303715884105727", "7"]}
FLOATS = ["0", "-0.0", "1.5", "1e300", "-2.5e-7", "nan", "inf", "-inf", "3.141592653589793", "1e21", "123456789012345680000"]


def ck(name):
    """canonical field key: `r#ref` and `ref` name the same field (the formatter strips the raw-identifier prefix for some value types only)"""
    return name[2:] if name.startswith("r#") else name


def h(x):
    return hashlib.sha1(x.encode("utf-8", "surrogatepass")).hexdigest()[:12]


def rand_val(rng):
    t = rng.choice(["u64", "i64", "f64", "bool", "str", "str", "u128", "i128", "display", "debug", "bytes", "error", "error_send", "error_sync", "error_send_sync"])
    if t in INTS:
        return {"t": t, "v": rng.choice(INTS[t])}
    if t == "f64":
        return {"t": t, "v": rng.choice(FLOATS)}
    if t == "bool":
        return {"t": t, "v": rng.choice(["true", "false"])}
    return {"t": t, "v": rng.choice(NASTY)}


def debug_str(s):
    """Rust's Debug for str"""
    out = ['"']
    for ch in s:
        o = ord(ch)
        if ch == '"':
            out.append('\\"')
        elif ch == "\\":
            out.append("\\\\")
        elif ch == "\n":
            out.append("\\n")
        elif ch == "\t":
            out.append("\\t")
        elif ch == "\r":
            out.append("\\r")
        elif ch == "'":
            out.append("'")
        elif o < 0x20 or o == 0x7f or ch in "  " or (0x80 <= o < 0xa0):
            out.append("\\u{%x}" % o)
        else:
            out.append(ch)
    out.append('"')
    return "".join(out)


def expected_token(val):
    """documented type mapping: ints -> numbers, non-finite floats -> null, 128-bit -> strings, Display/Debug -> strings, bytes -> arrays"""
    t, v = val["t"], val["v"]
    if t in ("u64", "i64"):
        return ["n:" + str(int(v))]
    if t in ("u128", "i128"):
        return ["s:" + h(str(int(v)))]
    if t == "f64":
        f = {"nan": math.nan, "inf": math.inf, "-inf": -math.inf}.get(v)
        f = float(v) if f is None else f
        if math.isnan(f) or math.isinf(f):
            return ["null"]
        return ["f:" + repr(f)] + (["n:" + str(int(f))] if f == int(f) and abs(f) < 2 ** 63 else [])
    if t == "bool":
        return ["b:" + v]
    if t in ("str", "display", "error", "error_send", "error_sync", "error_send_sync"):     # every error trait object is recorded by its Display text
        return ["s:" + h(v)]
    if t == "debug":
        return ["s:" + h(debug_str(v))]
    if t == "bytes":   # an array of numbers, or the hex Debug rendering "[61 62]"
        bs = list(v.encode("utf-8"))
        return ["a:" + h(json.dumps(bs)), "s:" + h("[" + " ".join("%02x" % b for b in bs) + "]")]
    raise ValueError(t)


def observed_token(x):
    if x is None:
        return "null"
    if isinstance(x, bool):
        return "b:" + ("true" if x else "false")
    if isinstance(x, int):
        return "n:" + str(x)
    if isinstance(x, float):
        return "f:" + repr(x)
    if isinstance(x, str):
        return "s:" + h(x)
    if isinstance(x, list):
        return "a:" + h(json.dumps(x))
    return "o:" + h(json.dumps(x, sort_keys=True))


def pairs(fields):
    return [{"k": h(ck(f["name"])), "v": expected_token(f["val"])} for f in fields]


class Dup(Exception):
    pass


def no_dups(ps):
    d = {}
    for k, v in ps:
        if k in d:
            raise Dup(k)
        d[k] = v
    return d


META_KEYS = {"timestamp", "level", "target", "filename", "line_number", "threadName", "threadId", "span", "spans", "fields"}


def project(raw, opts):
    obs = {"valid": False, "fields": [], "has_span": False, "span": [], "spans": []}
    if not raw.endswith("\n") or raw.count("\n") != 1:
        return obs
    try:
        o = json.loads(raw, object_pairs_hook=no_dups)
    except (ValueError, Dup):
        return obs
    if not isinstance(o, dict):
        return obs
    obs["valid"] = True
    ev = {k: v for k, v in o.items() if k not in META_KEYS} if opts["flatten"] else o.get("fields", {})
    obs["fields"] = [{"k": h(ck(k)), "v": observed_token(v)} for k, v in ev.items()]
    conv = lambda d: [{"k": ("name" if k == "name" else h(ck(k))), "v": ("s:" + h(v) if k == "name" else observed_token(v))} for k, v in d.items()]
    if isinstance(o.get("span"), dict):
        obs["has_span"] = True
        obs["span"] = conv(o["span"])
    if isinstance(o.get("spans"), list):
        obs["spans"] = [conv(s) for s in o["spans"] if isinstance(s, dict)]
    return obs


def behaviour(rng):
    opts = {"target": rng.random() < 0.7, "level": rng.random() < 0.8, "thread_ids": rng.random() < 0.2, "thread_names": rng.random() < 0.2,
            "file": rng.random() < 0.2, "line": rng.random() < 0.2, "ansi": False, "time": rng.random() < 0.3, "span_events": "none",
            "flatten": rng.random() < 0.35, "current_span": rng.random() < 0.8, "span_list": rng.random() < 0.8}
    steps, serial, live, ent = [], 0, {}, {1: [], 2: []}
    npair = 0
    while len(steps) < 45:
        t = rng.choice([1, 1, 2])
        ops = ["event"] * 5 + ["new"] * 3
        if live:
            ops += ["record"] * 4 + ["enter"] * 3 + ["event_of"] * 2 + ["event_root"] + (["record_pair"] if npair < 2 else [])
        if any(ent.values()):
            ops += ["exit"] * 2
        op = rng.choice(ops)
        names = rng.sample(FIELDS, rng.choice([0, 1, 2, 3]))
        fields = [{"name": nm, "val": rand_val(rng)} for nm in names]
        for f in fields:
            # raw-identifier names (r#ref): the formatter strips `r#` only for values recorded through Debug/Display, so typed
            # values would appear under a second key; the generator gives such fields Debug/Display values only
            if f["name"].startswith("r#") and f["val"]["t"] not in ("debug", "display"):
                f["val"] = {"t": rng.choice(["debug", "display"]), "v": rng.choice(NASTY)}
        if op in ("event", "event_of", "event_root"):
            e = {"op": "event", "t": t, "lvl": rng.randint(1, 5), "tgt": rng.choice(["a", "b"]), "pk": {"event": "ctx", "event_of": "of", "event_root": "root"}[op],
                 "p": rng.choice(list(live)) if op == "event_of" else 0, "fields": fields}
            steps.append(e)
        elif op == "new":
            if serial >= 25:
                continue
            serial += 1
            nm = rng.choice(list(SPAN_NAMES))
            live[serial] = nm
            pk = rng.choice(["ctx", "ctx", "root", "of"]) if live and len(live) > 1 else "ctx"
            steps.append({"op": "new", "t": t, "s": serial, "name": nm, "pk": pk, "p": rng.choice([x for x in live if x != serial]) if pk == "of" else 0, "fields": fields})
        elif op == "record_pair":
            # two threads record different fields of the span at the same moment (the first value's Debug impl waits for the other call)
            npair += 1
            steps.append({"op": "record_pair", "t": t, "s": rng.choice(list(live)),
                          "fields": [{"name": "fa", "val": {"t": "display", "v": "slow%d" % len(steps)}}, {"name": "fb", "val": {"t": "str", "v": "fast%d" % len(steps)}}]})
        elif op == "record":
            if not fields:
                continue
            steps.append({"op": "record", "t": t, "s": rng.choice(list(live)), "fields": fields})
        elif op == "enter":
            s = rng.choice(list(live))
            if any(s in ent[x] for x in ent):
                continue
            ent[t].append(s)
            steps.append({"op": "enter", "t": t, "s": s})
        elif op == "exit":
            ts = [x for x in ent if ent[x]]
            t = rng.choice(ts)
            steps.append({"op": "exit", "t": t, "s": ent[t].pop()})
    front = rng.choice(["layer", "layer", "builder"])
    # (a second JSON subscriber next to the recorded one on the same registry - layer front end only)
    return {"src": "random-c14", "format": "json", "opts": opts, "opts_first": rng.random() < 0.3, "front": front, "twin": front == "layer" and rng.random() < 0.3, "writer": {"shape": "s", "params": {}}, "steps": steps}


def to_trace(behs, lines):
    out = []
    b = None
    for x in lines:
        if x.get("ev") == "reset":
            b = behs[x["beh"]]
            out.append({"ev": "reset", "beh": x["beh"], "flatten": b["opts"]["flatten"], "current_span": b["opts"]["current_span"], "span_list": b["opts"]["span_list"]})
            continue
        if x.get("ev") != "op":
            out.append(x)
            continue
        writes = [c["raw"] for c in x.get("calls", []) if "w" in c]
        r = {"ev": "op", "op": "record" if x["op"] == "record_pair" else x["op"], "t": x.get("t", 1), "s": x.get("s", 0), "p": x.get("p", 0), "pk": x.get("pk", "ctx"), "nwrites": len(writes)}
        r["exp"] = pairs(x.get("fields", []))
        if x["op"] == "new":
            r["nametok"] = "s:" + h(SPAN_NAMES[x["name"]])
        if x["op"] == "event":
            r["exp"] = r["exp"] + [{"k": h("message"), "v": ["s:" + h("m%d" % x["n"])]}]
            r["obs"] = project(writes[0], b["opts"]) if len(writes) == 1 else {"valid": False, "fields": [], "has_span": False, "span": [], "spans": []}
        out.append(r)
    return out


def run(out, tier):
    quick = tier == "quick"
    r = vlib.require_ok(vlib.tlc(D, "MCJsonFields", workers=4, timeout=900), "JsonFields: stored map = last write wins")
    out.add_tlc(r, "MCJsonFields exhaustive: histories of <= 3 record steps over 3 field names x 2 values; invariant StoredIsLastWriteWins (parse / insert / re-serialize cycle vs last-write-wins)")
    rng = random.Random(vlib.seed() * 5 + 14)
    behs = [behaviour(rng) for _ in range(300 if quick else 3000)]
    w = vlib.workdir("c14")
    vlib.write_ndjson(w / "behaviours.ndjson", behs)
    bins = vlib.cargo_build(["fmtout"])
    vlib.run_bin(bins["fmtout"], env={"VH_IN": w / "behaviours.ndjson", "VH_OUT": w / "raw.ndjson"}, timeout=1800)
    lines = vlib.read_ndjson(w / "raw.ndjson")
    tr = to_trace(behs, lines)
    found, results = trace.validate(D, "JsonFieldsTrace", tr, "c14", nchunks=8, jobs=8, tags=("BAD",))
    out.traces = len(behs)
    out.evaluations = sum(1 for x in tr if x.get("op") == "event")
    vals = set()
    for b in behs:
        for s in b["steps"]:
            for f in s.get("fields", []):
                vals.add((f["name"], f["val"]["t"], f["val"]["v"]))
    out.distinct_nontrivial = len(vals)
    out.rule = ("a case is one JSON-formatter configuration (flatten_event / current_span / span_list / display options) with a 45-operation history: spans "
                "(incl. a name needing escaping) created with 0-3 fields, any number of later record calls overriding them, events with contextual / explicit / "
                "root parents; field names incl. quotes, backslashes, control characters, U+2028, astral code points; values over all numeric types and extremes, "
                "NaN/inf, bools, nasty strings, Display/Debug, bytes, errors; each emitted line is parsed by Python's json (duplicate keys rejected) and projected "
                "to canonical tokens; distinct = distinct (field name, type, value) triples used")
    out.samples = [behs[0]["steps"][:5], [x for x in tr if x.get("op") == "event"][:2]]
    out.assumptions = ["per-character escaping validity is decided by Python's json parser inside the projection, not by TLC",
                       "reserved-key collisions are excluded by the generator", "Rust's Debug rendering of strings is mirrored by debug_str()"]
    seen = set()
    for b, pos, rec in sorted(found["BAD"], key=lambda x: (x[0], x[1])):
        if b in seen:
            continue
        seen.add(b)
        raw = ""
        idx = [i for i, x in enumerate(lines) if x.get("ev") == "reset" and x.get("beh") == b][0]
        raw = [c.get("raw") for c in lines[idx + pos].get("calls", []) if "w" in c]
        out.violation("configuration %d operation %d: JSON record does not match the recorded data: step=%s raw=%s"
                      % (b, pos, json.dumps(behs[b]["steps"][pos - 1])[:400], json.dumps(raw)[:600]),
                      {"behaviour": behs[b], "failing_step": pos, "raw": raw, "observed": rec})


def replay(out, path):
    d = json.load(open(path))["replay"]
    print(json.dumps(d)[:3000])
