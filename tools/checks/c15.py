"""C15 - the non-blocking writer neither loses, duplicates nor reorders accepted lines (spec/NonBlocking)."""
import json
import random

import trace
import vlib
from vlib import SPEC

D = SPEC / "NonBlocking"


def bulk_scenario(rng):
    """many producers hammer a full queue behind a closed gate: only the conservation of lines is judged"""
    P = rng.choice([4, 8])
    n = rng.choice([3000, 6000])
    s = [{"do": "gate", "open": False}] + [{"do": "offer", "p": p, "n": n} for p in range(1, P + 1)]
    s += [{"do": "wait_producers_long"}, {"do": "gate", "open": True}, {"do": "wait_idle"}, {"do": "drop_guard"}]
    return {"k": rng.choice([1, 2]), "lossy": True, "producers": P, "lines": n, "wfail": [], "ffail": [], "short": 0, "script": s, "kind": "bulk", "bulk": True}


def shutdown_batch_scenario(rng):
    """a write error on a later line of the very batch that ends with the guard's Shutdown message"""
    L = rng.choice([3, 4, 5])
    bad = rng.randint(2, L)
    s = [{"do": "gate", "open": False}, {"do": "offer", "p": 1, "n": L}, {"do": "wait_producers"}, {"do": "sleep", "ms": 5},
         {"do": "drop_guard_async"}, {"do": "sleep", "ms": 20}, {"do": "gate", "open": True}]
    return {"k": 8, "lossy": rng.random() < 0.5, "producers": 1, "lines": L, "wfail": [bad], "ffail": [], "short": 0, "script": s, "kind": "shutdown_batch"}


def scenario(rng):
    c = rng.random()
    if c < 0.02:
        return bulk_scenario(rng)
    if c < 0.08:
        return shutdown_batch_scenario(rng)
    k = rng.choice([1, 1, 2, 4])
    lossy = rng.random() < 0.5
    P = rng.choice([1, 2, 3])
    L = rng.choice([2, 3, 5, 8])
    sc = {"k": k, "lossy": lossy, "producers": P, "lines": L, "wfail": [], "ffail": [], "short": 0, "script": []}
    kind = rng.choice(["burst", "burst", "steady", "midstream", "faults", "faults", "lastflush", "short", "latewriter"])
    s = sc["script"]
    offer_all = [{"do": "offer", "p": p, "n": L} for p in range(1, P + 1)]
    if kind in ("faults", "lastflush"):
        n = P * L
        sc["wfail"] = sorted(rng.sample(range(1, n + 1), rng.choice([1, 1, 2])))
        sc["ffail"] = sorted(rng.sample(range(1, 6), rng.choice([0, 1, 2])))
    if kind == "short":
        sc["short"] = rng.choice([1, 3, 7])
        if rng.random() < 0.5:
            # the writer takes part of a line and then refuses the rest (WouldBlock): that line is lost, nothing else is
            sc["midfail"] = sorted(rng.sample(range(1, 12), rng.choice([1, 2])))
    if kind == "steady":
        for r in range(L):
            for p in range(1, P + 1):
                s.append({"do": "offer", "p": p, "n": 1})
            s.append({"do": "wait_producers"})
            if rng.random() < 0.5:
                s.append({"do": "wait_idle"})
        s += [{"do": "wait_idle"}, {"do": "drop_guard"}]
    elif kind == "midstream":
        s += offer_all
        s.append({"do": "sleep", "ms": rng.choice([0, 1, 2])})
        s.append({"do": "drop_guard_async"})
        s.append({"do": "wait_producers"})
    elif kind == "latewriter":
        # the handle is still written to after the guard is gone
        s += [{"do": "offer", "p": 1, "n": 2}, {"do": "wait_producers"}, {"do": "wait_idle"}, {"do": "drop_guard"},
              {"do": "offer", "p": 1, "n": 3}, {"do": "wait_producers"}]
        sc["lines"] = 5
    elif kind == "lastflush":
        # the flush of the batch that sees Shutdown fails (call index = number of batches so far + 1 .. we fail several)
        sc["ffail"] = [1, 2, 3, 4, 5, 6, 7, 8]
        s += offer_all + [{"do": "wait_producers"}, {"do": "wait_idle"}, {"do": "drop_guard"}]
    else:  # burst / faults / short: fill the queue behind a closed gate, then release
        s.append({"do": "gate", "open": False})
        s += offer_all
        if lossy:
            s.append({"do": "wait_producers"})
        else:
            s.append({"do": "sleep", "ms": 3})
        s.append({"do": "gate", "open": True})
        s += [{"do": "wait_producers"}, {"do": "wait_idle"}, {"do": "drop_guard"}]
    sc["kind"] = kind
    # which kind of I/O error the failing writes report (the worker treats them all alike; none is retried by write_all)
    sc["errkind"] = rng.choice(["other", "other", "broken_pipe", "connection_reset", "permission_denied", "timed_out", "unexpected_eof"])
    # the guard may also be dropped by a panic unwinding through its owner (the panic is caught): it must shut down all the same
    if rng.random() < 0.3:
        for st in s:
            if st["do"] == "drop_guard":
                st["do"] = "drop_guard_unwind"
    # how the producers' handles are made and used; for scenarios that do not depend on a small queue also which constructor
    order = ["limit", "lossy"] + (["name"] if rng.random() < 0.5 else [])
    rng.shuffle(order)
    sc["builder_order"] = order
    sc["make_writer"] = rng.random() < 0.3
    sc["write_all"] = rng.random() < 0.3
    if kind in ("steady", "latewriter", "lastflush", "midstream") and rng.random() < 0.4:
        sc["ctor"] = rng.choice(["new", "fn"])
        sc["k"], sc["lossy"] = 128000, True
    return sc


def run(out, tier):
    quick = tier == "quick"
    for k in (1, 2):
        for lossy in ("TRUE", "FALSE"):
            r = vlib.require_ok(vlib.tlc(D, "NonBlocking", cfg="NonBlockingQ_%d_%s" % (k, lossy), workers=4, timeout=1800),
                                "NonBlocking K=%d lossy=%s" % (k, lossy))
            out.add_tlc(r, "NonBlocking exhaustive: 2 producers x 2 lines, K=%d, lossy=%s, <= 2 write/flush faults, guard dropped at any point; invariants AtMostOnce, OnlyOffered, InAcceptanceOrder, NonLossyNoDrops, EarlyAcceptedAreWritten, GuardReleases; liveness <>(guard dropped) under weak fairness" % (k, lossy))
    r18 = vlib.tlc(D, "NonBlocking", cfg="NonBlockingF18", workers=4, timeout=600)
    out.extra["f18_counterexample_in_model"] = (r18.kind == "invariant")
    rng = random.Random(vlib.seed() * 3 + 15)
    scs = [scenario(rng) for _ in range(400 if quick else 4000)]
    w = vlib.workdir("c15")
    vlib.write_ndjson(w / "scenarios.ndjson", scs)
    bins = vlib.cargo_build(["nonblocking"])
    vlib.run_bin(bins["nonblocking"], env={"VH_IN": w / "scenarios.ndjson", "VH_OUT": w / "trace.ndjson", "VH_JOBS": "8"}, timeout=3000)
    lines = vlib.read_ndjson(w / "trace.ndjson")
    found, results = trace.validate(D, "NonBlockingTrace", lines, "c15", nchunks=8, jobs=8, tags=("BAD", "F18"))
    out.traces = len(scs)
    out.evaluations = len(lines)
    out.distinct_nontrivial = len({json.dumps(s, sort_keys=True) for s in scs})
    out.rule = ("a case is one scenario (queue capacity 1/2/4, lossy or not, 1-3 producers x 2-8 lines, a pacing script for the underlying writer's gate, "
                "injected write / flush errors incl. the flush of the shutdown batch, short writes, guard dropped after quiescence, mid-stream, or before "
                "later writes) run in its own process against the real non_blocking writer; every producer call and underlying-writer call is one event of a "
                "totally ordered log that TLC validates; distinct = distinct scenarios")
    out.samples = [scs[0], lines[1:8]]
    out.assumptions = ["the harness opens the underlying writer's gate before dropping the guard (the guard's 100 ms / 1 s time-outs are not meant to fire)",
                       "event order is the order of a global mutex-protected log, consistent with real time"]
    known = [f for f in vlib.known_findings("C15") if f["id"] == "F18"]
    seen = set()
    for b, pos, rec in sorted(found["BAD"], key=lambda x: (x[0], x[1])):
        if b in seen:
            continue
        seen.add(b)
        out.violation("scenario %d (%s) event %d: %s" % (b, scs[b]["kind"], pos, json.dumps(rec)), {"scenario": scs[b], "failing_event": pos, "observed": rec, "trace": scenario_lines(lines, b)})
    for b, pos, rec in found["F18"]:
        if known:
            out.known_finding("F18", known[0]["what"])
        else:
            out.violation("scenario %d: lines offered while the guard was dropped were accepted but never written nor counted" % b, {"scenario": scs[b]})


def scenario_lines(lines, beh):
    """the recorded events of one scenario (kept with a violation: the runs are real-time races and need not repeat)"""
    out, on = [], False
    for x in lines:
        if x.get("ev") == "reset":
            on = x.get("beh") == beh
        if on:
            out.append(x)
    return out


def replay(out, path):
    d = json.load(open(path))["replay"]
    w = vlib.workdir("c15_replay")
    vlib.write_ndjson(w / "scenarios.ndjson", [d["scenario"]])
    bins = vlib.cargo_build(["nonblocking"])
    vlib.run_bin(bins["nonblocking"], env={"VH_IN": w / "scenarios.ndjson", "VH_OUT": w / "trace.ndjson"})
    print(open(w / "trace.ndjson").read())
