"""C18 - log and tracing interoperate without losing, inventing or mislabelling records (spec/LogBridge)."""
import json
import random

import trace
import vlib
from vlib import SPEC, VERIF
from checks import c10

D = SPEC / "LogBridge"
RTARGETS = ["a", "a::b", "ab", "b", "skip", "skip::x", "skipper", "my-app", "my-app::db", "my_app::db"]
PREFIXES = ["", "a", "a::b", "skip"]
IGNORES = [[], ["skip"], ["skip", "a::b"], ["a"], ["skip::x", "skip"], ["a::b", "a"], ["my-app"], ["my-app", "skip"]]   # order of registration included
MSGS = ["plain", "", "with \"quotes\" and \\ back", "é 日本 \U0001F600", "multi\nline", "x" * 200, "{} {:?} braces", "tab\there"]


FIELD_X = [{"name": "x", "alt": "x", "kind": "value", "ty": "u32", "slot": -1, "pre": False}]
NOMSG = {"present": False, "text": "", "args": []}
# what the specification expects of the two attributed functions of the driver: spans like any other
INSTR = [{"op": "instr", "which": "sync", "decl": {"kind": "span", "level": 3, "target": "logbridge", "name": "inst_sync", "fields": FIELD_X, "record": [], "message": NOMSG}},
         # a future instrumented by hand (`.instrument(span)`), polled once and dropped: entered around the poll and around the drop
         {"op": "instr", "which": "manual", "decl": {"kind": "span", "level": 3, "target": "logbridge", "name": "manual_fut", "fields": FIELD_X, "record": [], "message": NOMSG, "fut": True}}]
# (an attributed `async fn` does not instrument its future when the span is disabled, so with no collector it logs creation and close only,
#  and under log-always the finished future is entered once more when dropped: not used as an oracle)


def hx(s):
    return s.encode("utf-8").hex()


def site_step(rng, sites, sid):
    c = c10.make_case(rng, sites[sid], "accept")
    c["decl"]["guard2"] = True      # Ctx::span_made also runs the entered() / exit() path on a clone
    return {"op": "site", "cs": sid, "slots": c["slots"], "decl": c["decl"]}


def gen_t2l(rng, sites, ids):
    """a history: callsites, with the first installation of a collector at a random position (or never)"""
    steps, scoped, glob = [], 0, False
    n = rng.randint(6, 14)
    first = rng.choice([0, 1, 2, 3, n // 2, n, n + 1])
    for i in range(n):
        if i >= first and rng.random() < 0.4:
            c = rng.random()
            if scoped < 2 and c < 0.5:
                scoped += 1
                steps.append({"op": "scoped_on"})
            elif scoped > 0 and c < 0.85:
                scoped -= 1
                steps.append({"op": "scoped_off"})
            elif not glob:
                glob = True
                steps.append({"op": "global"})
        if rng.random() < 0.15:
            steps.append({"op": "construct"})      # a Dispatch that is built but never installed
        if rng.random() < 0.2:
            steps.append(rng.choice(INSTR))         # a call of an #[instrument]ed function
        steps.append(site_step(rng, sites, rng.choice(ids)))
    while scoped > 0:
        scoped -= 1
        steps += [{"op": "scoped_off"}, site_step(rng, sites, rng.choice(ids))]
    return {"mode": "t2l", "steps": steps}


def some(rng, pool):
    return {"some": True, "v": rng.choice(pool)} if rng.random() < 0.6 else {"some": False, "v": ""}


def gen_l2t(rng, k=None):
    rounds = []
    for _ in range(6):
        col = {"cap": rng.randint(0, 5), "prefix": rng.choice(PREFIXES), "hint": rng.random() < 0.6, "inen": rng.random() < 0.5, "installed": rng.random() < 0.9}
        recs = []
        for _ in range(20):
            via = "logger"
            if col["installed"] and (col["inen"] or not col["hint"]) and rng.random() < 0.2:
                via = "format_trace"
            recs.append({"level": rng.randint(1, 5), "target": rng.choice(RTARGETS), "msg": hx(rng.choice(MSGS)),
                         "file": some(rng, ["src/lib.rs", "a b/c.rs", ""]), "module": some(rng, ["m", "a::b::c", ""]),
                         "line": rng.choice([-1, 0, 1, 4242, 2 ** 31 - 1]), "via_macro": via == "logger" and rng.random() < 0.35, "via": via})
        rounds.append({"collector": col, "records": recs})
    # every ignore list, and each way of handing it over, is used in turn (k = the behaviour's number)
    ignore = rng.choice(IGNORES) if k is None else IGNORES[k % len(IGNORES)]
    b = {"mode": "l2t", "ignore": ignore, "rounds": rounds}
    if rng.random() < 0.4:
        b["max_level"] = rng.randint(1, 5)
    if not ignore:
        b["ctor"] = rng.choice(["builder", "init_with_filter"]) if "max_level" in b else rng.choice(["builder", "init", "new"])
    else:
        b["ctor"] = rng.choice(["builder", "ignore_all", "ignore_mixed"]) if k is None else ["builder", "ignore_all", "ignore_mixed"][(k // len(IGNORES)) % 3]
    return b


def project(lines):
    """adds `proj` to every t2l site line: what each log record's TEXT says (trusted text projection)"""
    for x in lines:
        if x.get("ev") != "t2l" or x.get("op") != "site":
            continue
        d = x["decl"]
        names = [f["name"] for f in d["fields"] if f["kind"] != "empty"]
        alts = [f["alt"] for f in d["fields"] if f["kind"] != "empty"]
        msg = bytes.fromhex(d["message"]["text"]).decode("utf-8") if d["message"]["present"] else ""
        proj = []
        for r in x["records"]:
            t = bytes.fromhex(r["text"]).decode("utf-8")
            what = "enter" if t.startswith("-> ") else "exit" if t.startswith("<- ") else "close" if t.startswith("-- ") else "plain"
            proj.append({"what": what,
                         "fields_ok": all((n + "=") in t or (a + "=") in t for n, a in zip(names, alts)),
                         "msg_ok": msg in t,
                         "name_ok": d["kind"] != "span" or d["name"] in t})
        x["proj"] = proj
    return lines


def execute(behs, name, nchunks=8):
    w = vlib.workdir(name)
    bins = vlib.cargo_build(["logbridge"], package="vh-log", workspace=VERIF / "harness-log", target="../harness/target-log")
    binsa = vlib.cargo_build(["logbridge"], package="vh-logalways", workspace=VERIF / "harness-logalways", target="../harness/target-logalways")
    lines = []
    # behaviours marked `always` run in the build with tracing's log-always feature
    for tag, exe, part in (("", bins["logbridge"], [b for b in behs if not b.get("always")]), ("a", binsa["logbridge"], [b for b in behs if b.get("always")])):
        if not part:
            continue
        vlib.write_ndjson(w / ("behs%s.ndjson" % tag), part)
        vlib.run_bin(exe, env={"VH_IN": w / ("behs%s.ndjson" % tag), "VH_OUT": w / ("trace%s.ndjson" % tag)}, timeout=1800)
        idx = [i for i, b in enumerate(behs) if bool(b.get("always")) == (tag == "a")]
        for x in vlib.read_ndjson(w / ("trace%s.ndjson" % tag)):
            if x.get("ev") == "reset":
                x["beh"] = idx[x["beh"]]
            lines.append(x)
    lines = project(lines)
    found, results = trace.validate(D, "LogBridgeTrace", lines, name, nchunks=nchunks, jobs=nchunks, tags=("BAD",), timeout=2400)
    return lines, found, results


def judge(out, behs, sites, found):
    seen = set()
    for b, pos, rec in found["BAD"]:
        if b in seen:
            continue
        seen.add(b)
        if rec["ev"] == "t2l":
            src = ""
            if rec.get("op") == "site":
                s = sites[rec["cs"]]
                src = " `%s!(%s)`" % (s["macro"], s["src"][:160])
            recs = [(r["level"], r["target"], bytes.fromhex(r["text"]).decode("utf-8", "replace")[:60]) for r in rec["records"]]
            what = "tracing->log, behaviour %d step %d (%s%s): has_been_set=%s, log records %s are not what LogBridge requires" % (
                b, rec["i"], rec["op"], src, rec["has_been_set"], recs)
        elif rec["ev"] == "l2t":
            what = "log->tracing, behaviour %d: record %s -> enabled=%s events=%s, not what LogBridge requires" % (
                b, json.dumps(rec["rec"]), rec["enabled"], json.dumps(rec["events"])[:400])
        else:
            what = "behaviour %d: %s" % (b, json.dumps(rec)[:400])
        out.violation(what, {"behaviour": behs[b], "line": {k: v for k, v in rec.items() if k not in ("decl", "slots")}})


def run(out, tier):
    quick = tier == "quick"
    c10.regen()
    sites = json.load(open(c10.CORPUS))
    r = vlib.require_ok(vlib.tlc(D, "MCLogBridge", cfg="MCLogBridge", workers=2, timeout=600), "LogBridge: gates == Delivered, EXISTS == ever")
    out.add_tlc(r, "MCLogBridge: ASSUME BridgeExact (LogTracer's gate chain == Delivered for 96 collectors x 8 ignore lists x 5 levels x 7 targets); "
                   "exhaustive install/drop histories, invariant LogsIffNever")
    neg = vlib.tlc(D, "MCLogBridge", cfg="MCLogBridgeNeg", workers=2, timeout=600)
    if neg.ok:
        raise vlib.ToolError("negative control: ResetOnDrop was not detected by LogsIffNever")
    rng = random.Random(vlib.seed() * 19 + 18)
    ids = [s["id"] for s in sites if not s["skipped"]]
    behs = [{"mode": "levels"}]
    for _ in range(40 if quick else 600):
        behs.append(gen_t2l(rng, sites, ids))
    for k in range(24 if quick else 300):
        behs.append(gen_l2t(rng, k))
    # sweep: every callsite of the corpus once in a process that never installs a collector
    for k in range(0, len(ids), 60):
        behs.append({"mode": "t2l", "steps": [site_step(rng, sites, i) for i in ids[k:k + 60]]})
    # the same histories in the log-always build: records whatever is installed, and no expression evaluated twice
    for _ in range(16 if quick else 200):
        behs.append(dict(gen_t2l(rng, sites, ids), always=True))
    for k in range(0, len(ids), 150):
        behs.append({"mode": "t2l", "always": True, "steps": [{"op": "scoped_on"}] + [site_step(rng, sites, i) for i in ids[k:k + 150]]})
    lines, found, results = execute(behs, "c18", nchunks=8 if quick else 14)
    judge(out, behs, sites, found)
    out.traces = len(behs)
    out.evaluations = sum(1 for x in lines if x.get("ev") in ("t2l", "l2t"))
    out.distinct_nontrivial = len({x["cs"] for x in lines if x.get("op") == "site"}) + len({json.dumps([x["rec"]["level"], x["rec"]["target"]]) for x in lines if x.get("ev") == "l2t"})
    out.exhaustive = False
    out.rule = ("a trace is one OS process: (t2l) 6-14 callsites of the generated macro corpus (every event!/span! arm, built with tracing's log feature) with the "
                "first installation of a scoped or global collector at a varying position, later drops and re-installations, plus a sweep running every "
                "callsite of the corpus once in processes that never install a collector; each step's log records "
                "(level, target, text projected to 'contains message / every field / span name') are validated against LogBridge!ExpectedRecords; "
                "(l2t) LogTracer with one of 4 ignore lists, 6 collectors (level cap x target prefix x hint or none x installed or not) x 20 records "
                "(5 levels x 7 targets x 8 messages x file/line/module present or absent, direct or via log!); Log::enabled's answer, the number of events "
                "and their normalized metadata are validated; plus the level conversion tables; evaluations = steps + records")
    l2 = [b for b in behs if b["mode"] == "l2t"]
    out.samples = [behs[1]["steps"][0]["decl"], l2[0]["rounds"][0]["collector"], l2[0]["rounds"][0]["records"][0]]
    out.assumptions = ["one collector is current at a time (no second dispatcher raising the global max level)",
                       "log record text is projected by substring tests on field names, message and span name",
                       "tracing's log-always feature is not exercised"]


def replay(out, path):
    d = json.load(open(path))["replay"]
    sites = json.load(open(c10.CORPUS))
    lines, found, _ = execute([d["behaviour"]], "c18_replay", nchunks=1)
    for x in lines:
        print(json.dumps({k: v for k, v in x.items() if k not in ("decl", "slots")})[:600])
    judge(out, [d["behaviour"]], sites, found)
