"""C11 - target/level/span directives: most-specific-directive rule, Targets == EnvFilter, would_enable, Display round trip,
span-scoped raising (spec/Directives)."""
import json
import random
import re

import trace
import vlib
from vlib import SPEC

D = SPEC / "Directives"
TARGETS = ["a", "a::b", "ab", "b"]
TFORM = re.compile(r"^[^\[\]=]*\[\{[^\]=]*\}\]=[^=]*$")
# value tokens of field k: (token as the directive spells it and as the spec compares it, how the script records it)
VTOK = ["1", "2", "true", "false", "-3", "1.5", "2.5", "abc", "abd", "18446744073709551615", "-1"]
# values that share a bit pattern or a spelling prefix with another one: when a directive mentions the key, the script also records the value
NEAR = {"18446744073709551615": "-1", "-1": "18446744073709551615", "1": "i:1", "abc": "abd", "1.5": "2.5", "true": "false"}


def recorded(rng, v):
    """the script-side spelling of a value: the integer 1 may also be recorded as an i64"""
    return "i:1" if v == "1" and rng.random() < 0.3 else v


LNAMES = ["off", "error", "warn", "info", "debug", "trace"]


def render_dir(d, rng):
    span = ""
    if d["s"] or d["f"]:
        fld = ""
        if d["f"]:
            fld = "{" + d["f"] + ("=" + d["v"] if d["v"] else "") + "}"
        span = "[" + d["s"] + fld + "]"
    name = LNAMES[d["l"]]
    lvl = rng.choice([name, name.upper(), name.capitalize(), str(d["l"])])
    head = d["t"] + span
    if not head:
        return lvl                     # bare level: the global default
    if d["l"] == 5 and rng.random() < 0.3:
        return head + rng.choice(["", "", "="])   # bare target / span, or an empty level: TRACE
    return head + "=" + lvl


def rand_dir(rng, static_only, names, tgts):
    t = rng.choice(tgts)
    if static_only:
        s, f, v = "", rng.choice(["", "", "", "k"]), ""
    else:
        s = rng.choice(names)
        f, v = rng.choice([("", ""), ("", ""), ("k", ""), ("k", "1"), ("k", "2"), ("k", rng.choice(VTOK + ["18446744073709551615"] * 2))])
    return {"t": t, "s": s, "f": f, "v": v, "l": rng.choice([0, 1, 2, 3, 3, 4, 5, 5])}


def rand_script(rng, vals=()):
    vals = list(vals)
    ops, state, entered = [{"op": "all"}], {}, []
    if vals and rng.random() < 0.4:
        # a value recorded AFTER the span was created decides whether a value directive applies
        v = rng.choice(vals)
        ops += [{"op": "span", "h": 3, "lvl": rng.choice([3, 4, 5]), "tgt": rng.choice(TARGETS), "name": "s1", "k": "", "kt": ""},
                {"op": "record", "h": 3, "k": v, "kt": recorded(rng, v)}, {"op": "enter", "h": 3}, {"op": "all"}, {"op": "exit", "h": 3}, {"op": "all"},
                {"op": "close", "h": 3}]
    for _ in range(rng.randint(3, 12)):
        free = [h for h in (1, 2, 3) if h not in state]
        idle = [h for h in state if h not in entered]
        c = rng.random()
        if free and c < 0.35:
            h = rng.choice(free)
            name = rng.choice(["s1", "s1", "s2"])
            k = rng.choice(["", "1", "1", "2"] + vals * 2) if name == "s1" else ""
            state[h] = name if k == "" else name + "+"
            ops.append({"op": "span", "h": h, "lvl": rng.choice([1, 2, 3, 4, 5, 5]), "tgt": rng.choice(TARGETS), "name": name, "k": k, "kt": recorded(rng, k)})
        elif idle and c < 0.65:
            h = rng.choice(idle)
            entered.append(h)
            ops += [{"op": "enter", "h": h}, {"op": "all"}]
        elif entered and c < 0.8:
            h = entered.pop()
            ops += [{"op": "exit", "h": h}, {"op": "all"}]
        elif idle and c < 0.9:
            h = rng.choice([x for x in idle])
            if state[h] == "s1":           # a field is recorded once, while the span is not entered
                state[h] = "s1+"
                k = rng.choice(["1", "2"] + vals)
                ops.append({"op": "record", "h": h, "k": k, "kt": recorded(rng, k)})
        elif idle:
            h = rng.choice(idle)
            del state[h]
            ops.append({"op": "close", "h": h})
        else:
            ops.append({"op": "event", "lvl": rng.randint(1, 5), "tgt": rng.choice(TARGETS), "k": rng.random() < 0.5})
    while entered:
        ops += [{"op": "exit", "h": entered.pop()}, {"op": "all"}]
    return ops


def gen_cases(rng, n):
    cases = []
    for i in range(n):
        static_only = rng.random() < 0.4
        nd = rng.choice([0, 1, 1, 2, 2, 2, 3, 3, 4])
        tgts = rng.choice([["", "a", "a::b", "ab", "b"], ["", "a", "a::b"], ["a", "ab"], [""]])
        names = rng.choice([["", "s1", "s2"], ["s1"], ["", "s1"]])
        dirs = [rand_dir(rng, static_only, names, tgts) for _ in range(nd)]
        if dirs and rng.random() < 0.3:   # duplicates / conflicting entries
            d = dict(rng.choice(dirs))
            d["l"] = rng.choice([0, 1, 3, 5])
            dirs.insert(rng.randint(0, len(dirs)), d)
        segs = [render_dir(d, rng) for d in dirs]
        if rng.random() < 0.15:           # empty segments are skipped
            segs.insert(rng.randint(0, len(segs)), "")
        s = ",".join(segs)
        # Targets only knows `target[{fields}]=level`; any other bracket form is EnvFilter-only syntax
        tv = any("[" in g and not TFORM.match(g) for g in segs)
        # the script prefers the values the directives mention (and a near miss)
        vals = [d["v"] for d in dirs if d["v"]] + [rng.choice(VTOK)]
        vals += [NEAR[v] for v in list(vals) if v in NEAR and NEAR[v] in VTOK]
        script = rand_script(rng, vals)
        if i % 9 == 4:
            # targeted shape: a value directive of a LOW level selecting a MORE verbose span - the span exists only if the filter's
            # published hint says TRACE (field values are not known before recording), whichever way the filter was built
            v = rng.choice(VTOK)
            dl = rng.choice([1, 2, 3, 4])
            dirs = [{"t": rng.choice(["", "a"]), "s": "s1", "f": "k", "v": v, "l": dl}]
            if rng.random() < 0.5:
                dirs.insert(rng.randint(0, 1), {"t": rng.choice(["", "b"]), "s": "", "f": "", "v": "", "l": rng.randint(0, dl)})
            segs = [render_dir(d, rng) for d in dirs]
            s, tv = ",".join(segs), True
            late = rng.random() < 0.5
            script = [{"op": "all"},
                      {"op": "span", "h": 1, "lvl": rng.randint(dl + 1, 5), "tgt": "a", "name": "s1", "k": "" if late else v, "kt": "" if late else recorded(rng, v)}]
            if late:
                script.append({"op": "record", "h": 1, "k": v, "kt": recorded(rng, v)})
            script += [{"op": "enter", "h": 1}, {"op": "all"}, {"op": "exit", "h": 1}, {"op": "all"}, {"op": "close", "h": 1}]
        cases.append({"id": i, "s": s, "dirs": dirs, "tv": tv, "x": rng.randint(0, 5), "script": script})
    return cases


# strings outside the generated grammar: only parse acceptance and the Display round trips are judged
ODD = ["a[{k,j}]=info", "[{k,j}]=trace", "a=info,,b=warn,", ",", "a::b=", "A=INFO", "a=info,a=", "ab[{k}]=off,ab[{k}]=2"]


def odd_cases():
    return [{"id": -1, "s": s, "dirs": [], "tv": True, "odd": True, "x": 3, "script": []} for s in ODD]


def execute(cases, name, nchunks=8):
    w = vlib.workdir(name)
    vlib.write_ndjson(w / "cases.ndjson", cases)
    bins = vlib.cargo_build(["directives"])
    vlib.run_bin(bins["directives"], env={"VH_IN": w / "cases.ndjson", "VH_OUT": w / "trace.ndjson"}, timeout=1800)
    lines = vlib.read_ndjson(w / "trace.ndjson")
    # callsite registration is process-wide and its ORDER matters to caches (an event callsite registered before any span
    # callsite the filter tracks): every 8th case also runs alone in a fresh process, where its script makes the first hits
    fresh = [dict(c, idx=i) for i, c in enumerate(cases) if i % 8 == 3 and c.get("script")]

    def one(c):
        p = w / ("fresh_%d.ndjson" % c["idx"])
        vlib.write_ndjson(p, [c])
        o = w / ("fresh_%d.out.ndjson" % c["idx"])
        vlib.run_bin(bins["directives"], env={"VH_IN": p, "VH_OUT": o}, timeout=300)
        return vlib.read_ndjson(o)
    for part in vlib.parallel(one, fresh, jobs=8):
        lines += part
    found, results = trace.validate(D, "DirectivesTrace", lines, name, nchunks=nchunks, jobs=nchunks, tags=("BAD", "TVSE"), timeout=2400)
    return lines, found, results


def judge(out, cases, lines, found):
    seen = set()
    f24 = [f for f in vlib.known_findings("C11") if f["id"] == "F24"]
    for b, pos, rec in found["BAD"]:
        i = rec["i"]
        key = (i, rec.get("cfg", "case"))
        if key in seen:
            continue
        seen.add(key)
        c = cases[i]
        if rec["ev"] == "case" and f24 and re.search(r"\{[^}]*,", c["s"]) and rec.get("t_ok"):
            out.known_finding("F24", f24[0]["what"])
            continue
        if rec["ev"] == "case":
            what = "filter %r: parse / would_enable / Display round trip differs from Directives: %s" % (
                c["s"], json.dumps({k: v for k, v in rec.items() if k not in ("script", "dirs", "would")}))
        else:
            what = "filter %r in stack %s: step %s got reply %s, which Directives does not allow" % (
                c["s"], rec["cfg"], json.dumps({k: v for k, v in rec.items() if k not in ("reply", "ev", "i", "cfg")}), json.dumps(rec["reply"])[:200])
        out.violation(what, {"case": c, "line": rec})
    f23 = [f for f in vlib.known_findings("C11") if f["id"] == "F23"]
    tv = {rec["i"] for b, pos, rec in found["TVSE"]}
    for i in sorted(tv):
        if f23:
            out.known_finding("F23", f23[0]["what"])
        else:
            out.violation("Targets accepted %r (span syntax) and filters differently from EnvFilter" % cases[i]["s"], {"case": cases[i]})


def run(out, tier):
    quick = tier == "quick"
    # 1. the mechanism (scope stack, by_id, max-level gates) implements the property in every reachable state
    r = vlib.require_ok(vlib.tlc(D, "MCDirectives", cfg="MCDirectivesQ" if quick else "MCDirectivesT", workers=10, timeout=3000, heap="8g"),
                        "Directives: mechanism == property in every reachable state")
    out.add_tlc(r, "MCDirectives exhaustive: filters of <= 2 directives from a universe of 36 x {Targets, EnvFilter} x well-nested scripts over 2 span "
                   "handles; invariants EventsExact, SpansAllowed, WouldAgrees, BothAgree, ScopeIsEntered, HintSound")
    if not quick:
        neg = vlib.tlc(D, "MCDirectives", cfg="MCDirectivesNeg", workers=10, timeout=3000, heap="8g")
        if neg.ok:
            raise vlib.ToolError("negative control: the seeded design error SkipOffPush was not detected by EventsExact")
    # 2. the real filters
    rng = random.Random(vlib.seed() * 13 + 11)
    cases = gen_cases(rng, 500 if quick else 6000) + odd_cases()
    lines, found, results = execute(cases, "c11", nchunks=8 if quick else 14)
    judge(out, cases, lines, found)
    nops = sum(1 for x in lines if x["ev"] == "op")
    out.traces = sum(1 for x in lines if x["ev"] == "start")
    out.evaluations = sum(40 if x.get("op") == "all" else 1 for x in lines if x["ev"] == "op") + 20 * len(cases)
    out.distinct_nontrivial = len({c["s"] for c in cases})
    out.exhaustive = False
    out.rule = ("a case is one directive string (0-5 directives over targets {none,a,a::b,ab,b}, span names {none,s1,s2}, field k with no value / 1 / 2, "
                "levels OFF..TRACE spelled as names in any case or digits, bare levels and bare targets, duplicates in any position) parsed by the real "
                "Targets and EnvFilter, each installed as a global layer and as a per-layer filter, plus the re-parsed Display output of each; one "
                "well-nested script (spans with name / field value, record, enter, exit, close, 40-event probes after every enter and exit) runs "
                "against every stack and every reply is validated against Directives; traces = stacks run, distinct = distinct directive strings")
    out.samples = [cases[0]["s"], cases[1]["s"], cases[2]["s"], cases[2]["script"][:4]]
    out.assumptions = ["field values are recorded only while the span is not entered", "directives carry at most one field (see F24)",
                       "enter/exit histories are well nested on one thread", "a field is recorded at most once per span"]


def replay(out, path):
    d = json.load(open(path))["replay"]
    c = d["case"]
    c["id"] = 0
    lines, found, _ = execute([c], "c11_replay", nchunks=1)
    for x in lines:
        print(json.dumps(x)[:400])
    judge(out, [c], lines, found)
