#!/usr/bin/env python3
"""Writes MANIFEST.json from the table below (one source of truth for what is claimed)."""
import json
from pathlib import Path

V = Path(__file__).resolve().parent.parent
TECH = "TLA+ specification model-checked with TLC, bound to the implementation by trace validation (TLC checks recorded implementation traces against the abstract spec) and replay of TLC-generated cases/behaviours"

CLAIMS = {
    "C19": {
        "text": "Complete enumeration: TLC visits every case of the finite space (all operand pairs x operators x kinds, all case patterns of every name, digits, noise spellings, conversions, MAX_LEVEL round trips), checks the code's inverted encoding (M) against the rank order (A) on each, writes the table; the harness evaluates every row with the real operators and TLC validates every result against A. exhaustive=true.",
        "note": "Trusted: the harness's rank read-back via Debug text; the TLA+ transcription of usize::from_str. Known findings F11/F12 (undocumented spellings accepted) are reported as KNOWN-FINDING.",
        "ref": "4 (C19)",
    },
}

PROPS = [json.loads(l)["id"] for l in open(V / "properties.jsonl")]


def main():
    checks = []
    for pid in PROPS:
        if pid not in CLAIMS:
            continue
        c = CLAIMS[pid]
        checks.append({
            "property_id": pid,
            "quick_cmd": "./check %s --tier quick" % pid,
            "thorough_cmd": "./check %s --tier thorough" % pid,
            "evidence_file": "/verif/evidence/%s.json" % pid,
            "replay_cmd_template": "./check %s --replay {path}" % pid,
            "engine": "tlc",
            "level_claimed": {"category": "model_checking", "text": c["text"], "design_ref": "DESIGN.md section " + c["ref"]},
            "level_note": c["note"],
            "technique": c.get("technique", TECH),
        })
    na = [{"property_id": p, "reason": "not yet built in this round (planned: DESIGN.md section 8); no claim is made"}
          for p in PROPS if p not in CLAIMS]
    hooks_commits = json.load(open(V / "hooks.json")) if (V / "hooks.json").exists() else []
    m = {
        "version": 1,
        "setup_cmd": "./setup.sh",
        "hooks": {
            "guard": "--cfg tokio_rs_tracing_verif",
            "enable": "rustflags in /verif/harness/.cargo/config.toml: --cfg tokio_rs_tracing_verif --check-cfg cfg(tokio_rs_tracing_verif)",
            "baseline_off_cmd": "cd /repo && cargo test --workspace --no-fail-fast --offline",
            "source_commits": hooks_commits,
            "add_only": True,
        },
        "engines": [{"name": "tlc", "path": "/verif/check", "serves_properties": [c["property_id"] for c in checks],
                     "kind_free_text": "TLA+ specs in /verif/spec checked by TLC 1.8; Rust conformance harness in /verif/harness (path deps on /repo); python driver in /verif/tools"}],
        "checks": checks,
        "not_applicable": na,
        "notes": "See DESIGN.md. Verdict rule: VIOLATION only when TLC rejects an execution of the real code against the abstract specification of the property; known findings are listed in known_findings.json.",
    }
    json.dump(m, open(V / "MANIFEST.json", "w"), indent=1)
    print("claimed:", [c["property_id"] for c in checks])


if __name__ == "__main__":
    main()
