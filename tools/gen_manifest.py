#!/usr/bin/env python3
"""Writes MANIFEST.json from the table below (one source of truth for what is claimed)."""
import json
from pathlib import Path

V = Path(__file__).resolve().parent.parent
TECH = "TLA+ specification model-checked with TLC, bound to the implementation by trace validation (TLC checks recorded implementation traces against the abstract spec) and replay of TLC-generated cases/behaviours"

CLAIMS = {
    "C17": {
        "text": "Specification Instrument: a run is one chronological log of effects (argument clones / drops, body steps) and collector callbacks tagged with the call being polled; Accept = TwinEq (the attributed twin's effect sequence and outcome equal the plain twin's) + OneSpan (exactly one span per call with the configured name / level / target / parent / follows_from and exactly the expected field set, each field once) + Bracket (every body effect while the call's span is entered, enter / exit only during the call's own polls) + NothingElse (nothing of another call while the span is entered) + Events (exactly the expected ret / err events, with value text, level and target, emitted inside the span after the body) + Closed + Silent (no span or event under none / never / dynamic / capped collectors). MCInstrument is the expansion mechanism (sync guard; Instrumented future entering per poll, ret/err in the last poll, re-entering on drop) for two calls interleaved at poll granularity over 36 call shapes each: TLC checks every complete log is accepted (negative control: span held across .await). Binding: a generated corpus of 460 twin pairs (sync / async fn / Box::pin(async move) style x argument patterns x return shapes x attribute arguments) compiled against /repo; every twin x every path-selecting input runs plain and attributed under an accepting collector (with / without an entered outer span) and under disabling ones, plus 150/2500 interleavings of 2-3 calls polled by a manual executor; both logs and the expectations (from the corpus declaration and the PLAIN twin's outcome) go to TLC, which evaluates Accept and names the failing clause.",
        "note": "Drops of arguments that die at the same program point are compared as a multiset (their relative order depends on parameter vs. closure-capture order). Bodies use every argument (as async_trait output does). skip_all does not exist at this commit and is not generated; `parent` / `follows_from` must be written before `target` (attr.rs rejects the other order at compile time - noted in DESIGN.md). If the boxed-future ret/err twins stop compiling the check falls back to the rest of the corpus (cargo feature `fragile`).",
        "ref": "4 (C17)",
    },
    "C18": {
        "text": "Specification LogBridge. log -> tracing: a record handed to LogTracer (with an ignore list) while collector `cur` is current becomes exactly one event iff `cur` accepts the RECORD's level and target (level acceptance announced through max_level_hint, checked in enabled(), both, or neither) and the target is under no ignored prefix; M is the code's gate chain (record level <= LevelFilter::current(), ignore list, cur.enabled(record metadata) in LogTracer::enabled and again in dispatch_record) and TLC checks M == A for 96 collectors x 8 ignore lists x 5 levels x 7 targets. tracing -> log: ghost `ever` (a collector has been installed at some point) against the EXISTS flag over every install / drop history (negative control: flag reset on drop). Binding, one OS process per trace: (l2t) LogTracer with 4 ignore lists, rounds of 6 filtering collectors (cap x target prefix x hint x level-in-enabled x installed or not) x 20 records (5 levels x 7 targets x 8 messages x file/line/module present or absent, direct or via log!): Log::enabled's answer, event count, normalized target / level / file / line / module and the message are validated by TLC; (t2l) the generated macro corpus of C10 compiled WITH tracing's log feature: histories of callsites with the first scoped / global installation at varying positions, drops and re-installations, plus a sweep of all 2128 compiling callsites in processes that never install a collector; each step's log records (level, target, text projection) are validated against ExpectedRecords (event: one record; span: creation, each record of a declared field, enter, exit, close) before the first installation and must be empty afterwards; plus the level conversion tables.",
        "note": "Record text is projected by substring tests (message, `name=` of every present field, span name). Span creation may use either the span's target or tracing::span (both accepted). log-always and a second live dispatcher raising the global max level are not exercised. Separate cargo workspace /verif/harness-log so that tracing's log feature is not unified into the other drivers.",
        "ref": "4 (C18)",
    },
    "C10": {
        "text": "Specification Fields: a callsite declaration (macro kind, level, declared fields in order with name form / value form / type / value slot, format-string message, later Span::record calls) determines the ONLY visit sequence (message first, then the present fields in declaration order, each once, through the documented typed route TypeRoute with exactly the canonical / Display / Debug text of the supplied value) and the ONLY evaluation counts (once when enabled, none when disabled by Interest::never, enabled()=false or the max-level hint; shorthand values bound outside the macro always once) the property allows; MCFields is the macro expansion as a step machine (three gates, element-by-element array construction, ValueSet::record) checked by TLC against it for every callsite shape of <= 2 fields x 4 value forms x 4 message forms x 4 collector modes. Binding: a generated corpus of 2241 real macro callsites (span!, event!, the ten level shorthands, enabled!; name forms ident / dotted / string literal / r# / {CONST}; value forms =, =%, =?, Empty, shorthand, %shorthand, ?shorthand; positions alone / before a field / before a message / braced; prefixes name: / target: / parent:; 53 value types incl. all integer widths, NonZero, Wrapping, floats, strings, bytes, the four dyn Error flavours, Box, references, display()/debug() wrappers; later Span::record of declared and undeclared names) is compiled against /repo and run under four collectors with boundary and random value assignments; a typed recording Visit logs (name, method, exact text), counters log every evaluation; TLC validates every run against Fields.",
        "note": "254 generated forms are rejected by the macros at compile time (listed with the compiler message in harness/vh/corpus/macros_skip.json) and are not part of the corpus. Built without tracing's `log` feature. The compile-time stage is exercised by a second build of the same driver and corpus with tracing's `max_level_info` (workspace harness-static): callsites above INFO must evaluate nothing and reach no collector under accepting collectors; the other max_level_* / release_max_level_* features are not built. Display/Debug texts of sigil fields use an alphabet whose Rust formatting is known to the generator; typed fields use arbitrary Unicode / bit patterns.",
        "ref": "4 (C10)",
    },
    "C11": {
        "text": "Specification Directives: a filter is a sequence of [target prefix, span name, field, value, level] directives; A states the property declaratively (most specific matching static directive decides; a span-scoped directive contributes its level while a span matching it by target, name, field presence and recorded value is entered, and for that span itself) and M is the code's mechanism (ordered directive sets with replacement, scope stack of levels pushed on enter / popped on exit, by_id table, statics / dynamics max-level gates and the published hint). TLC explores every filter of <= 2 directives from a 36-directive universe x {Targets, EnvFilter} x every well-nested script over 2 span handles and checks in every reachable state that M's decision for all 40 event metadata equals A's, span decisions are allowed ones, would_enable equals actual filtering, Targets == EnvFilter on static filters, the stack equals the entered tracked spans, and the hint hides nothing (thorough: larger span universe and a negative control with the seeded design error). Binding: 500/6000 directive strings (0-5 directives, level spellings in any case / digits / bare levels / bare targets / empty level / empty segments / duplicates) are parsed by the real Targets and EnvFilter, installed as global layer and as per-layer filter, plus the re-parsed Display output of each; one script of real macro callsites (spans with names and field values, record, enter, exit, close, 40-event probes) runs against each of the 6 stacks and TLC validates every reply, the would_enable table and the Display round trips against A.",
        "note": "Where the property text leaves room the spec allows a set of answers for SPAN metadata (field-name directives applied to spans; whether a span matching a span-scoped directive is enabled above that directive's level); events have exactly one allowed answer. Assumptions: one field per directive, a field recorded at most once and not while entered, well-nested enter/exit on one thread. F21, F22, F25 were found here and fixed; F23 / F24 (Targets taking bracket syntax for a target name; comma inside braces) are reported as KNOWN-FINDING.",
        "ref": "4 (C11)",
    },
    "C04": {
        "text": "Mechanism specification RegistrationRace at the granularity of each atomic operation and lock acquisition (MacroCallsite interest byte and UNREGISTERED/REGISTERING/REGISTERED CAS, callsite::register under the read lock with the lock-free push as load / store-next / CAS, register_dispatch and rebuild under the write lock re-folding one callsite at a time, MAX_LEVEL, scoped defaults): TLC explores every interleaving of three 2-3 thread scenarios and checks no deadlock, a thread's own installed collector judges its emissions (never delivered to a rejecting collector, never missed), quiescence (every listed callsite offered to every live collector, interest and MAX_LEVEL admit what live collectors accept, list complete) and termination. Binding: the real code is run under a cooperative scheduler that releases one thread at a time between cfg-guarded yield points placed at those same operations; schedules are TLC -simulate thread-choice sequences of the model, all schedules with <= 1-2 preemptions (sampled in quick) and seeded random ones over 7 scenarios; TLC validates every run against the interleaving-independent abstract verdict (RaceTrace) incl. a quiescent round over all callsites.",
        "note": "Sequentially consistent interleavings only. A third of the runs ignore the lock notes and detect real blocking by time-out, so that a lock released earlier than annotated is still raced. Hooks: b56ccfa, 833e06c.",
        "ref": "4 (C04)",
    },
    "C12": {
        "text": "Mechanism specification Reload (reload = write-lock / store / unlock / per-callsite re-fold / MAX_LEVEL as separately scheduled steps; emission = MAX_LEVEL gate / cached interest / value read under the read lock), checked by TLC for every interleaving of one reloader (2 reloads, static and dynamic values) with 2 emitters: every emission is judged by a value in effect at some moment of the emission, hence by the new value once reload has returned. Binding: shared stacks with a reloadable Targets filter (global or per-layer) or EnvFilter (incl. a span-scoped directive, next to a second `sometimes` collector), one thread reloading between emissions and 1-2 threads emitting, run under the cooperative scheduler at the yield points of reload::Handle::modify, the registry and MacroCallsite; TLC validates each emission against the values in effect between its start and end, plus a quiescent round and the dead-handle error.",
        "note": "Known finding F20 (EnvFilter span directive missed by the thread losing the registration race) is reported as KNOWN-FINDING. Hooks: 4b170c9 and those of C04.",
        "ref": "4 (C12)",
    },
    "C16": {
        "text": "Specification Rolling (A): the appender as clock readings -> period index, `cur` / next rotation instant, files as period -> buffer sequence, creation order, pruning to the file limit; MCRolling (M): 3 concurrent MakeWriter users around a boundary with one step per should_rollover load / CAS / refresh_writer / read lock / write, checked by TLC for exactly-once storage, right file (or the file being replaced) and one rotation per boundary. Binding: 300/3000 appenders (4 rotation kinds x prefix/suffix x file limit) created at scripted instants (year / month ends, leap days, random) through the clock hook, 8-20 writes with standing, advancing, exact-boundary, boundary-1, multi-period and backward clock readings through both interfaces, plus races of 2-3 MakeWriter users scheduled at the appender's yield points; after every write TLC validates the directory listing (file names mapped to periods by an independent calendar, contents to buffer ids) against A.",
        "note": "Clock readings are below 2^31 (TLC integers), so the year-2100 leap rule of file names is out of reach; creation-time ordering relies on the harness keeping rotations >= 12 ms apart. Hooks: clock override + yield points (9b2dc2a).",
        "ref": "4 (C16)",
    },
    "C13": {
        "text": "Specification FmtRecord: writer expressions over recording sinks denote, per event metadata, the set of sinks to be written (Route); TLC checks exhaustively (all 2187 expressions to depth 3 over 3 sinks, 5 levels x 2 targets) that the operational reading of the real combinators (OptionalWriter / Tee / OrElse as MakeFor) denotes Route. Binding: 300/3000 configurations (full/compact/pretty/json x option combinations x span-event settings x 14 real MakeWriterExt expressions with random parameters) run a 40-operation history (events with contextual / explicit / root parents, span lifecycle, events whose Debug field panics, bursts of 2-8 threads emitting simultaneously); every make_writer_for / write on every sink is recorded raw, projected, and TLC validates per operation: exactly the Route sinks, each asked once with the event's metadata and written once with one complete newline-terminated record naming the level, the event's scope in nesting order and only this event's message.",
        "note": "Record text is projected with regular expressions / the JSON parser (trusted). F6 (stale buffer after an aborted format) and F19 (pretty formatter ignores explicit root) were found and fixed (1c8f256, 7e2222b).",
        "ref": "4 (C13)",
    },
    "C14": {
        "text": "Specification JsonFields: per span a map of field name -> acceptable renderings, creation fields overridden by any number of later records (last write wins); an event's line must parse (Python json, duplicate keys rejected) to an object whose fields equal the recorded ones and whose span / spans equal the maps of the event's scope root -> leaf. TLC checks exhaustively that the formatter's parse / insert / re-serialize cycle implements last-write-wins (<= 3 record steps, 3 names, 2 values) and validates 300/3000 recorded histories (45 operations each: nasty field names and values over all types and extremes, explicit / root / contextual parents, all flatten_event / current_span / span_list combinations) operation by operation.",
        "note": "Per-character escaping validity and value identity are decided by the independent parser and the canonical-token projection in the harness (python), not by TLC; byte slices may appear as arrays or as their hex Debug string. F8 and F10 were found and fixed (deb5108, 71ebcb4).",
        "ref": "4 (C14)",
    },
    "C15": {
        "text": "TLC explores every interleaving of 2 producers x 2 lines, queue capacity 1 and 2, lossy and non-lossy, up to 2 injected write/flush faults, the guard dropped at any point, through the worker loop of worker.rs (blocking recv, try_recv drain, flush, error aborts the batch, Shutdown / rendez-vous / writer drop) and checks the abstract invariants (each attempt an offered line, at most once, in acceptance order; non-lossy never drops; everything accepted before the drop is attempted, a flush follows, the writer is released) plus liveness of the guard's drop under weak fairness. Binding: 400/4000 scenarios (capacity, lossy, 1-3 producers, gate pacing forcing full / empty queues, write and flush errors incl. the shutdown batch, short writes, guard dropped after quiescence / mid-stream / before later writes) run against the real non_blocking writer over a scripted underlying writer; TLC validates each totally ordered event log against the abstract invariants stated on events.",
        "note": "The guard's real-time time-outs are assumed not to fire (the harness opens the gate before dropping the guard). Known finding F18 (lines racing with the guard's drop can be accepted and vanish) is reported as KNOWN-FINDING; lines offered after the drop returned are still judged. F7 was found with this model and fixed (7ba1ec8).",
        "ref": "4 (C15)",
    },
    "C07": {
        "text": "Abstract specification LayerStack (A): a stack in flat form (recording layers in callback order, each with its chain of per-layer filters; global filters; event vetoes) and a history of emissions; a layer receives an emission iff every global filter and every filter attached to it accepts the metadata in the current context (FilterExpr!Enabled, the filters' own decision, itself validated against the real filters in C08); span visibility, enter/exit/record/close routing, current-span / scope / parent lookups follow. TLC validates, operation by operation, the callbacks recorded from REAL stacks (built from the tree form: Filtered, and_then trees, Vec/Option/Box/reload wrappers, level/Targets/filter_fn/dynamic_filter_fn/and/or/not/Option filters, static, dynamic and mixed-interest global filters) under 50-operation histories incl. enabled! probes, vetoed events, flag flips, 1-2 threads, through the real macros and all process-global caches; 600 (quick) / 6000 (thorough) stack x history pairs, one process each.",
        "note": "Model checking here is trace validation of implementation runs against A (every operation's observation is a TLC state); there is no exhaustive mechanism model of the FILTERING bitmap yet (planned). The flat form (python flatten) is trusted as the meaning of the tree. Known findings F3 (stale filter bits after an unconsumed enabled pass) and F17 (hint of and_then trees with a None half) are reported as KNOWN-FINDING and their history / configuration class is not judged further.",
        "ref": "4 (C07)",
    },
    "C08": {
        "text": "TLC enumerates every filter expression to depth 2 (1600+; thorough adds a depth-3 family) over level / Targets (incl. replaced directives) / filter_fn / dynamic_filter_fn / Option / and / or / not and checks, for all metadata x contexts, that the summaries the code's combinator formulas publish (callsite_enabled, max_level_hint) are sound w.r.t. the decision (SummariesSound). Binding: every enumerated expression is built as a real filter; through a Spy on a real per-layer-filtered stack fed by 40 macro callsites in 2 contexts its real answers are recorded and TLC validates soundness of the REAL summary vs the REAL decision (verdict) and agreement with the formulas (drift). Whole stacks: for 500/5000 random stacks the composed collector's register_callsite/max_level_hint are validated against what any layer would receive.",
        "note": "EnvFilter summaries are covered under C11. Known finding F17 (tree-shaped stacks with a None half) is reported as KNOWN-FINDING. F16 (and_then on a Registry ignores the inner half's hint) was found here and fixed (edd7d7b).",
        "ref": "4 (C08)",
    },
    "C09": {
        "text": "Same abstract specification as C07, on unfiltered stacks of 1-5 elements with every provided wrapper (Box, Some, one-element Vec, reload, nested wrappers, None, empty Vec, Identity, and_then, two-element Vec, boxed / arc'd / doubly boxed collector) and all notification kinds: the real stack's callbacks (new span, record, follows_from, event, enter, exit, close, in inner-to-outer order, each layer exactly once; registration passes and on_register_dispatch each layer exactly once; an event_enabled veto stops everyone) are validated by TLC against the FLAT form of the stack, i.e. with the wrappers erased - wrapper transparency is exactly that the flat form predicts the wrapped stack.",
        "note": "Order among layers is not judged for register_callsite / on_register_dispatch (the code asks outer layers first there). F4, F5, F14, F15 (missing forwarding in Box/Arc/Layered collectors, Vec, reload filter; empty Vec disabling the stack) were found here and fixed.",
        "ref": "4 (C09)",
    },
    "C05": {
        "text": "TLC explores every history (2 threads, 2 registries, 3 spans, 1 capture slot, 8-10 operations: create with contextual/root/explicit parent, clone, drop, enter/exit in any order incl. re-entry and cross-thread, Span::current / SpanTrace capture, walk, drop, events, default switches) of the registry mechanism model (ref_count = handles + non-duplicate stack entries + open children, per-thread stack with duplicate markers, try_close/Clear releasing the parent through the thread's current default) and checks that the closes it produces are exactly the abstract ones (a span closes when no handle, no thread has it entered, all children closed; children first) - outside the history class of known finding F2, which the model must still exhibit. Binding: TLC -simulate histories (three configs incl. a dense 4-span one and one with foreign defaults) run against real Registry stacks under two recording layers + ErrorSubscriber, one process each; TLC validates every observation (close order per layer, data readable during close, stale data, live set, id uniqueness).",
        "note": "Sequential consistency at operation granularity (the ref-count interleavings are RegistryRace, planned). Known finding F2 (close path through a foreign/absent default) is reported as KNOWN-FINDING; histories are not judged after an F2 hazard. F9 was found with this model and fixed (b906e4e).",
        "ref": "4 (C05/C06)",
    },
    "C06": {
        "text": "Same specification and traces as C05; the verdict here is A's view of current span (last entry of the thread's enter history, asserted when no span is entered twice on the thread), contextual / explicit / root parent of new spans and events, Span::current and SpanTrace captures, and scope walks (leaf to root = the parent chain) as seen by both layers and by lookups after every operation.",
        "note": "As C05. Per-layer-filtered visibility of scopes belongs to C07.",
        "ref": "4 (C05/C06)",
    },
    "C03": {
        "text": "TLC explores every program (bounded: 2 threads, 2 collectors, 3 handle / 2 guard / 1 future slots, 6-8 operations drawn from new/clone/drop/enter/entered/exit in any order/in_scope/record/follows_from/Span::current/or_current/instrument/poll/drop/into_inner/panicking scopes/switch default, collectors that may reject a callsite and may hand out alias ids from clone_span) and checks that the calls span.rs/instrument.rs make (M) satisfy the property monitor (A): reference count 1+clones-closes equals the handles the program holds, enters-exits equals live guards per thread, every call reaches the creating collector, nothing follows the final close, disabled spans are silent. Binding: TLC -simulate programs (40 and 160 operations, 3 threads, 3 collectors) run against real tracing::Span and Instrumented (tracing and tracing-futures), one OS process each; TLC validates every recorded call list against the monitor.",
        "note": "Trusted: recording collector (own reference counting, optional alias ids), the executor's unsafe lifetime extension of borrowed guards (guarded by the model's preconditions). MCalls disagreement alone is drift.",
        "ref": "4 (C03)",
    },
    "C20": {
        "text": "TLC runs the Gregorian calendar as an odometer (one state per day, advanced by the leap rule; one state per second of the day) and proves on every swept day that an independent closed form (Civil) equals it, plus the 400-year periodicity that extends it to every cycle - quick: one full 400-year cycle (146097 days) + 86400 seconds; thorough: 0001-01-01..9999-12-31. The real formatter (SystemTime::format_time, through the clock hook) is run on every day of the sweep, on every second in windows around year / leap-day / century / 400-year boundaries and the epoch, on pre-1970 instants with sub-second parts and on random and extreme instants over the whole i64 range; TLC validates every printed timestamp against Civil/Clock, truncation of micros, and monotonicity.",
        "note": "Trusted: the harness's i128 Euclidean split of an instant into (400-year cycle, day in cycle, second of day), needed because TLC integers are 32-bit; the strict parser of the printed text. Finding F13 (smallest SystemTime panics in debug builds) was found by this check and fixed (2a99690).",
        "ref": "4 (C20)",
    },
    "C01": {
        "text": "TLC explores every history (bounded: 2 threads, 2 collectors, 4 callsites, 14-24 filter records, 6-7 API calls) of the mechanism model (registrar list with dead entries, per-callsite cached interest incl. unregistered, MAX_LEVEL, thread-local slot, SCOPED_COUNT, global) and checks in every state, for every (thread, callsite), that the macro guard chain would deliver exactly what the current collector's own filter demands. Binding: TLC -simulate behaviours and seeded 150-step random histories (10 collectors, 4 threads, 45 real macro callsites) are executed against the real crates, one OS process each, and every recorded trace is validated by TLC against the abstract spec (who must receive each emission), with all model invariants evaluated at every step.",
        "note": "Assumes collectors whose filter is a self-consistent record as the property requires. Sequential consistency at API-call granularity (the statement-level races are C04). Trusted: recording collector, worker-thread executor, trace projection.",
        "ref": "4 (C01)",
    },
    "C02": {
        "text": "Same specification as C01 with scope-heavy constants (3 collectors, nesting 2, 8-10 calls, 2-3 threads): TLC checks in every state that the mechanism's current collector (thread-local slot, SCOPED_COUNT fast path, global) equals the innermost live scope, else the global default, else nobody, that set_global_default succeeds exactly once and that the receiving collector is alive. Binding: one OS process per behaviour (set_global_default at every position), TLC -simulate behaviours plus seeded scope-heavy histories incl. panics unwinding scopes on 1-4 threads; TLC validates each trace against the abstract scope stack.",
        "note": "API-call granularity; the set_global_default CAS race is modelled in DispatchRace (C04). F1 (stale thread-local cache of the global default) was found with this model and fixed (commit 845c754); reverting the fix is detected.",
        "ref": "4 (C02)",
    },
    "C19": {
        "text": "Complete enumeration: TLC visits every case of the finite space (all operand pairs x operators x kinds, all case patterns of every name, digits, noise spellings, conversions, MAX_LEVEL round trips), checks the code's inverted encoding (M) against the rank order (A) on each, writes the table; the harness evaluates every row with the real operators and TLC validates every result against A. exhaustive=true.",
        "note": "Trusted: the harness's rank read-back via Debug text; the TLA+ transcription of usize::from_str. Known findings F11/F12 (undocumented spellings accepted) are reported as KNOWN-FINDING.",
        "ref": "4 (C19)",
    },
}

PROPS = [json.loads(l)["id"] for l in open(V / "properties.jsonl")]


def main():
    checks = []
    for pid in PROPS:
        if pid not in CLAIMS:
            continue
        c = CLAIMS[pid]
        checks.append({
            "property_id": pid,
            "quick_cmd": "./check %s --tier quick" % pid,
            "thorough_cmd": "./check %s --tier thorough" % pid,
            "evidence_file": "/verif/evidence/%s.json" % pid,
            "replay_cmd_template": "./check %s --replay {path}" % pid,
            "engine": "tlc",
            "level_claimed": {"category": "model_checking", "text": c["text"], "design_ref": "DESIGN.md section " + c["ref"]},
            "level_note": c["note"],
            "technique": c.get("technique", TECH),
        })
    na = [{"property_id": p, "reason": "not yet built in this round (planned: DESIGN.md section 8); no claim is made"}
          for p in PROPS if p not in CLAIMS]
    hooks_commits = json.load(open(V / "hooks.json")) if (V / "hooks.json").exists() else []
    m = {
        "version": 1,
        "setup_cmd": "./setup.sh",
        "hooks": {
            "guard": "--cfg tokio_rs_tracing_verif",
            "enable": "rustflags in /verif/harness/.cargo/config.toml: --cfg tokio_rs_tracing_verif --check-cfg cfg(tokio_rs_tracing_verif)",
            "baseline_off_cmd": "cd /repo && cargo test --workspace --no-fail-fast --offline",
            "source_commits": hooks_commits,
            "add_only": True,
        },
        "engines": [{"name": "tlc", "path": "/verif/check", "serves_properties": [c["property_id"] for c in checks],
                     "kind_free_text": "TLA+ specs in /verif/spec checked by TLC 1.8; Rust conformance harness in /verif/harness (path deps on /repo); python driver in /verif/tools"}],
        "checks": checks,
        "not_applicable": na,
        "notes": "See DESIGN.md. Verdict rule: VIOLATION only when TLC rejects an execution of the real code against the abstract specification of the property; known findings are listed in known_findings.json.",
    }
    json.dump(m, open(V / "MANIFEST.json", "w"), indent=1)
    print("claimed:", [c["property_id"] for c in checks])


if __name__ == "__main__":
    main()
