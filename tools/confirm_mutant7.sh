#!/bin/sh
# usage: tools/confirm_mutant2.sh <PROP> <n> <crate> <store-as-n> [demo file]   (round 7: worktree /tmp/mut7-<PROP>, out /tmp/mut7-<PROP>-out/<n>)
# Confirms in the scratch worktree: demo fails with the patch, suite unchanged, demo passes without. Stores /verif/seeded/<PROP>-<store-as-n>/.
PROP=$1; N=$2; CRATE=$3; AS=$4; DEMO=${5:-demo_test.rs}
WT=/tmp/mut7-$PROP; OUT=/tmp/mut7-$PROP-out/$N
NAME=$(grep -o "tests/[A-Za-z0-9_]*\.rs" $OUT/$DEMO | head -1 | sed 's|tests/||; s|\.rs||')
[ -z "$NAME" ] && NAME=$(echo "${PROP}_demo_${N}" | tr 'A-Z' 'a-z')
cd $WT || exit 2
git checkout -q -- . ; git clean -fdq -e target
git apply $OUT/patch.diff || { echo "APPLY FAILED"; exit 2; }
mkdir -p $WT/$CRATE/tests; cp $OUT/$DEMO $WT/$CRATE/tests/$NAME.rs
TT=""; grep -q -- "--test-threads 1" $OUT/$DEMO && TT="-- --test-threads 1"
cargo test --offline -p $CRATE $FEATURES --test $NAME $TT > /tmp/confirm7_${PROP}_${N}_with.log 2>&1; WITH=$?
SUITE=$(cargo nextest run --workspace --no-fail-fast --offline --test-threads 8 2>&1 | grep "Summary" | tail -1)
git apply -R $OUT/patch.diff
cargo test --offline -p $CRATE $FEATURES --test $NAME $TT > /tmp/confirm7_${PROP}_${N}_without.log 2>&1; WITHOUT=$?
rm -f $WT/$CRATE/tests/$NAME.rs
git checkout -q -- . ; git clean -fdq -e target
echo "$PROP/$N: demo with patch exit=$WITH (want !=0), without exit=$WITHOUT (want 0); suite with patch (+demo tests): $SUITE"
if [ $WITH -ne 0 ] && [ $WITHOUT -eq 0 ]; then
  D=/verif/seeded/$PROP-$AS; mkdir -p $D
  cp $OUT/patch.diff $D/patch.diff; cp $OUT/$DEMO $D/$DEMO; [ -f $OUT/notes.md ] && cp $OUT/notes.md $D/notes.md
  echo "$SUITE" > $D/suite_with_patch.txt
  echo "stored $D"
fi
