#!/bin/sh
# usage: [REGRESS_FILTER=<regex over the change directories>] tools/regress_parallel.sh <N>   -- regression of every seeded change in N isolated copies (/tmp/rg<i>/{repo,verif}), so that
# /repo and /verif stay free.  Each copy rewrites the absolute /repo paths of the harness to its own clone.  Results: /tmp/rg<i>/regress.log
N=${1:-4}
ls -d /verif/seeded/C*/ | sort | grep -E "${REGRESS_FILTER:-.}" > /tmp/rg_all.txt
for i in $(seq 1 $N); do
  d=/tmp/rg$i; rm -rf $d; mkdir -p $d
  git clone -q /repo $d/repo
  rsync -a --exclude 'target' --exclude 'target-*' --exclude work --exclude .git --exclude evidence /verif/ $d/verif/
  mkdir -p $d/verif/work $d/verif/evidence
  for f in tools/vlib.py setup.sh harness/vh-common/Cargo.toml harness/vh/Cargo.toml harness-log/Cargo.toml harness-logalways/Cargo.toml harness-static/Cargo.toml harness-levels/Cargo.toml tools/checks/c10.py; do
    sed -i "s|/repo|$d/repo|g" $d/verif/$f
  done
  awk -v n=$N -v k=$i 'NR % n == k % n' /tmp/rg_all.txt > $d/list.txt
  (
    cd $d/verif; : > $d/regress.log
    for sd in $(cat $d/list.txt); do
      id=$(basename $sd)
      checks=$(python3 - "$sd" <<'PY'
import json,re,sys
m=json.load(open(sys.argv[1]+"meta.json"))
groups=re.findall(r"((?:C\d\d(?:, | and | / )?)+) quick(?: detects?|: VIOLATION)", m.get("result",""))
seen=[]
for g in groups:
    for x in re.findall(r"C\d\d", g):
        if x not in seen: seen.append(x)
print(" ".join(seen[:2] or [m["property"]]))
PY
)
      git -C $d/repo apply $sd/patch.diff 2>/dev/null || { echo "$id NOAPPLY" >> $d/regress.log; continue; }
      res=""
      for c in $checks; do
        ./check $c --tier quick > work/regress_$id.out 2>&1; rc=$?
        res="$res $c:exit=$rc:viol=$(grep -c '^VIOLATION' work/regress_$id.out)"
        [ $rc -eq 1 ] && break
      done
      git -C $d/repo checkout -- .
      echo "$id$res" >> $d/regress.log
    done
    echo DONE >> $d/regress.log
  ) > /dev/null 2>&1 &
done
wait
