#!/bin/sh
# usage: tools/try_mutant_iso.sh <slot> <abs patch.diff> <ID> [more IDs]
# Like try_mutant.sh, but in an isolated copy (/tmp/iso<slot>/{repo,verif}) so that /repo and /verif stay untouched
# (other checks may be running there).  The copy is refreshed from /verif and /repo HEAD on every call; its build output is kept.
S="$1"; P="$2"; shift 2
d=/tmp/iso$S; mkdir -p $d
if [ ! -d $d/repo/.git ]; then git clone -q /repo $d/repo; fi
git -C $d/repo fetch -q origin && git -C $d/repo checkout -q -- . && git -C $d/repo reset -q --hard origin/HEAD 2>/dev/null || git -C $d/repo reset -q --hard $(git -C /repo rev-parse HEAD)
rsync -a --delete --exclude 'target' --exclude 'target-*' --exclude work --exclude .git --exclude evidence /verif/ $d/verif/
mkdir -p $d/verif/work $d/verif/evidence
for f in tools/vlib.py setup.sh harness/vh-common/Cargo.toml harness/vh/Cargo.toml harness-log/Cargo.toml harness-logalways/Cargo.toml harness-static/Cargo.toml harness-levels/Cargo.toml tools/checks/c10.py; do
  sed -i "s|/repo|$d/repo|g" $d/verif/$f
done
git -C $d/repo apply "$P" || { echo "PATCH DOES NOT APPLY"; exit 3; }
for id in "$@"; do
  (cd $d/verif && ./check "$id" --tier quick > $d/try_$id.out 2>&1); rc=$?
  echo "== $id exit=$rc  $(grep -c '^VIOLATION' $d/try_$id.out) VIOLATION lines"; grep -m2 -A1 '^VIOLATION' $d/try_$id.out | cut -c1-300; grep -m3 'TOOL-ERROR' $d/try_$id.out
done
git -C $d/repo checkout -- .
