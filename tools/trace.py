"""Generic trace-validation plumbing: split a concatenated ndjson trace into chunks at `reset`
lines, validate the chunks in parallel with a TLC trace spec, map reported line numbers back to
behaviours."""
import vlib


def split_chunks(lines, nchunks):
    """lines: list of dicts; every behaviour starts with ev=reset. Returns list of chunks (lists)."""
    starts = [i for i, r in enumerate(lines) if r.get("ev") == "reset"]
    if not starts or starts[0] != 0:
        raise vlib.ToolError("trace does not start with a reset line")
    starts.append(len(lines))
    behs = [lines[starts[i]:starts[i + 1]] for i in range(len(starts) - 1)]
    target = max(1, (len(lines) + nchunks - 1) // nchunks)
    chunks, cur = [], []
    for b in behs:
        if cur and len(cur) + len(b) > target:
            chunks.append(cur)
            cur = []
        cur = cur + b
    if cur:
        chunks.append(cur)
    return chunks


def validate(spec_dir, module, lines, name, nchunks=8, jobs=8, cfg=None, tags=("BAD", "DRIFT"), timeout=900, extra_env=None):
    """Returns (dict tag -> list of (behaviour_index, line_in_behaviour, record)), tlc results)."""
    w = vlib.workdir("tv_" + name)
    chunks = split_chunks(lines, nchunks)
    files = []
    for i, ch in enumerate(chunks):
        p = w / ("chunk%d.ndjson" % i)
        vlib.write_ndjson(p, ch)
        files.append(p)

    def one(i):
        env = {"TRACE": files[i]}
        env.update(extra_env or {})
        return vlib.tlc(spec_dir, module, cfg=cfg, env=env, workers=1, dfs=True, heap="3g", timeout=timeout,
                        name="%s_%d" % (name, i))

    results = vlib.parallel(one, range(len(chunks)), jobs=jobs)
    found = {t: [] for t in tags}
    for i, r in enumerate(results):
        if not r.ok:
            stuck = r.tagged("STUCK")
            vlib.log(r.out[-3000:])
            if stuck:
                ln = stuck[0]
                rec = chunks[i][ln - 1] if 0 < ln <= len(chunks[i]) else None
                raise vlib.ToolError("trace spec %s stuck at line %s of chunk %d: %r (spec action not enabled: generator/harness bug)" % (module, ln, i, rec))
            raise vlib.ToolError("TLC trace validation %s chunk %d failed: %s" % (module, i, r.kind))
        for t in tags:
            vals = r.tagged(t)
            if len(vals) != 1:
                raise vlib.ToolError("trace spec %s did not report %s" % (module, t))
            for ln in vals[0]:
                # map to behaviour
                b = -1
                start = 0
                for j in range(ln - 1, -1, -1):
                    if chunks[i][j].get("ev") == "reset":
                        b = chunks[i][j].get("beh", -1)
                        start = j
                        break
                found[t].append((b, ln - 1 - start, chunks[i][ln - 1]))
    return found, results
