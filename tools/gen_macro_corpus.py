#!/usr/bin/env python3
"""Generates the macro-form corpus of C10: a Rust module with one function per callsite
(harness/vh/src/bin/macros/corpus.rs) and the declaration of every callsite as the specification
sees it (harness/vh/corpus/macros.json): macro, level, declared fields in order (name, kind, type,
value slot), message template, record operations.  Deterministic (fixed seed)."""
import json
import random
from pathlib import Path

V = Path(__file__).resolve().parent.parent
OUT_RS = V / "harness/vh/src/bin/macros/corpus.rs"
OUT_JSON = V / "harness/vh/corpus/macros.json"
SKIP_JSON = V / "harness/vh/corpus/macros_skip.json"   # callsites the macros reject at compile time (found by --prune)

LEVELS = ["ERROR", "WARN", "INFO", "DEBUG", "TRACE"]
EVENT_SHORT = {"error": 1, "warn": 2, "info": 3, "debug": 4, "trace": 5}
SPAN_SHORT = {"error_span": 1, "warn_span": 2, "info_span": 3, "debug_span": 4, "trace_span": 5}

# type -> (value expression over slot i, route in the specification's TypeRoute table)
INT_U = ["u8", "u16", "u32", "u64", "usize"]
INT_I = ["i8", "i16", "i32", "i64", "isize"]
TYPES = {}
for t in INT_U + INT_I + ["u128", "i128", "f32", "f64", "bool"]:
    TYPES[t] = "ctx.v_%s({i})" % t
TYPES.update({
    "str": "ctx.v_str({i})",
    "string": "ctx.v_string({i})",
    "string_ref": "&ctx.v_string({i})",
    "bytes": "ctx.v_bytes({i})",
    "ref_u64": "&ctx.v_u64({i})",
    "refref_i8": "&&ctx.v_i8({i})",
    "mutref_i32": "&mut ctx.v_i32({i})",
    "box_u32": "Box::new(ctx.v_u32({i}))",
    "box_str": "ctx.v_box_str({i})",
    "err": "ctx.v_err({i})",
    "err_send": "ctx.v_err_send({i})",
    "err_sync": "ctx.v_err_sync({i})",
    "err_send_sync": "ctx.v_err_send_sync({i})",
    "box_err": "ctx.v_box_err({i})",
    "display_dd": "tracing::field::display(ctx.v_dd({i}))",
    "debug_dd": "tracing::field::debug(ctx.v_dd({i}))",
    "empty": "tracing::field::Empty",
})
for t in ["u8", "u16", "u32", "u64", "usize", "i8", "i16", "i32", "i64", "isize", "u128", "i128"]:
    TYPES["nz_" + t] = "ctx.v_nz_%s({i})" % t
for t in ["u8", "u32", "u64", "i16", "i64", "usize"]:
    TYPES["wrapping_" + t] = "core::num::Wrapping(ctx.v_%s({i}))" % t
# types usable behind the % and ? sigils (Display / Debug texts known to the case generator)
SIGIL_TYPES = {"dd": "ctx.v_dd({i})", "str": "ctx.v_str({i})", "u64": "ctx.v_u64({i})", "i32": "ctx.v_i32({i})", "bool": "ctx.v_bool({i})"}

IDENTS = ["a", "b", "c", "d", "e", "f"]
DOTTED = ["x.y", "p.q.r", "http.status"]
LITERALS = ["lit one", "λ-name", "with.dot"]
RAW = ["type", "fn"]
CONSTS = {"CONST_A": "const_a", "CONST_B": "const.b"}


class Gen:
    def __init__(self, seed):
        self.rng = random.Random(seed)
        self.sites = []
        self.rs = []
        self.skip = json.load(open(SKIP_JSON)) if SKIP_JSON.exists() else {}
        self.stale_skip = False

    # ---- one field -----------------------------------------------------------------------
    def field(self, used, nameform, valform, ty, slot):
        """returns (pre-statements, token text, decl)"""
        rng = self.rng
        pre = []
        shorthand = valform in ("sh", "sh%", "sh?")
        if shorthand and nameform not in ("ident", "dotted"):
            nameform = "ident"
        if nameform == "ident":
            name = next(n for n in IDENTS if n not in used)
            ntok = name
        elif nameform == "dotted":
            name = next((n for n in DOTTED if n not in used and n.split(".")[0] not in used), None)
            if name is None:
                return self.field(used, "ident", valform, ty, slot)
            ntok = name
        elif nameform == "literal":
            name = next((n for n in LITERALS if n not in used), None)
            if name is None:
                return self.field(used, "ident", valform, ty, slot)
            ntok = json.dumps(name, ensure_ascii=False)
        elif nameform == "raw":
            name = next((n for n in RAW if n not in used), None)
            if name is None:
                return self.field(used, "ident", valform, ty, slot)
            ntok = "r#" + name
        else:
            cname = next((n for n in CONSTS if CONSTS[n] not in used), None)
            if cname is None:
                return self.field(used, "ident", valform, ty, slot)
            name = CONSTS[cname]
            ntok = "{ %s }" % cname
        used.add(name)
        used.add(name.split(".")[0])
        kind = {"=": "value", "=%": "disp", "=?": "dbg", "sh": "value", "sh%": "disp", "sh?": "dbg", "empty": "empty"}[valform]
        if kind in ("disp", "dbg"):
            if ty not in SIGIL_TYPES:
                ty = rng.choice(list(SIGIL_TYPES))
            expr = SIGIL_TYPES[ty].format(i=slot)
        elif kind == "empty":
            ty, expr = "empty", TYPES["empty"]
        else:
            if ty == "empty" or ty not in TYPES:
                ty = "u8"
            expr = TYPES[ty].format(i=slot)
        pre_bound = False
        if shorthand:
            pre_bound = True
            parts = name.split(".")
            inner = expr
            if ty in ("string_ref", "ref_u64", "refref_i8", "mutref_i32"):   # keep shorthand values simple
                ty, inner = "u16", TYPES["u16"].format(i=slot)
            for p in reversed(parts[1:]):
                inner = "Dot_%s { %s: %s }" % (p, p, inner)
            pre.append("let %s = %s;" % (parts[0], inner))
            tok = {"sh": "", "sh%": "%", "sh?": "?"}[valform] + name
        else:
            tok = ntok + " = " + {"=": "", "=%": "%", "=?": "?", "empty": ""}[valform] + expr
        decl = {"name": name, "alt": ("r#" + name) if nameform == "raw" else name, "kind": kind, "ty": ty,
                "slot": slot if kind != "empty" else -1, "pre": pre_bound}
        return pre, tok, decl

    # ---- one callsite ----------------------------------------------------------------------
    def site(self, macro, fields_spec, msg=None, prefix=(), level=None, record_ops=(), braced=False):
        """fields_spec: list of (nameform, valform, ty); msg: None | 'lit' | 'fmt' | 'cap'"""
        rng = self.rng
        idx = len(self.sites)
        used, pre, toks, decls, slot = set(), [], [], [], 0
        for nf, vf, ty in fields_spec:
            p, t, d = self.field(used, nf, vf, ty, slot)
            pre += p
            toks.append(t)
            decls.append(d)
            slot += 1
        is_span = macro == "span" or macro in SPAN_SHORT
        is_enabled = macro == "enabled"
        message = None
        if braced and msg and not is_span and not is_enabled:
            toks = ["{ " + ", ".join(toks) + " }"]       # the `{ fields }, "message"` form
        if msg and not is_span and not is_enabled:
            if msg == "lit":
                toks.append('"plain message"')
                message = {"tpl": "plain message", "args": []}
            elif msg == "fmt":
                toks.append('"m {} and {:?}", ctx.v_u16(%d), ctx.v_dd(%d)' % (slot, slot + 1))
                message = {"tpl": "m {} and {}", "args": [{"slot": slot, "ty": "u16", "how": "disp", "pre": False},
                                                           {"slot": slot + 1, "ty": "dd", "how": "dbg", "pre": False}]}
                slot += 2
            else:
                pre.append("let cap1 = ctx.v_str(%d);" % slot)
                pre.append("let cap2 = ctx.v_dd(%d);" % (slot + 1))
                toks.append('"c {cap1} / {cap2:?} / {}", ctx.v_i32(%d)' % (slot + 2))
                message = {"tpl": "c {} / {} / {}", "args": [{"slot": slot, "ty": "str", "how": "disp", "pre": True},
                                                             {"slot": slot + 1, "ty": "dd", "how": "dbg", "pre": True},
                                                             {"slot": slot + 2, "ty": "i32", "how": "disp", "pre": False}]}
                slot += 3
        if level is None:
            level = rng.randint(1, 5)
        if macro in EVENT_SHORT:
            level = EVENT_SHORT[macro]
        if macro in SPAN_SHORT:
            level = SPAN_SHORT[macro]
        head, target, name, parent = [], None, None, None
        for p in prefix:
            if p == "name" and not is_span and not is_enabled:
                name = "ev_name_%d" % idx
                head.append('name: "%s"' % name)
        for p in prefix:
            if p == "target":
                target = "tgt::m%d" % (idx % 3)
                head.append('target: "%s"' % target)
        for p in prefix:
            if p in ("parent", "parent_none") and not is_enabled:
                parent = "span" if p == "parent" else "none"
                head.append("parent: ctx.parent()" if p == "parent" else "parent: None")
        if macro in ("event", "span", "enabled"):
            head.append("tracing::Level::%s" % LEVELS[level - 1])
        span_name = None
        if is_span:
            span_name = "sp_%d" % idx
            head.append('"%s"' % span_name)
        if is_enabled:
            # enabled! takes field NAMES only
            toks = [d["name"] for d in decls if "." not in d["name"] and d["name"].isidentifier() and d["name"] not in ("type", "fn")]
            decls, pre, slot = [], [], 0
        args = ", ".join(head + toks)
        body = ["fn cs_%d(ctx: &Ctx) {" % idx] + ["    " + p for p in pre]
        if is_span:
            body.append("    let sp = tracing::%s!(%s);" % (macro, args))
            ops = []
            blank = {"field": "", "declared": False, "ty": "", "slot": -1, "set": False, "entries": []}
            foreign = any(op[0] == "foreignkey" or (op[0] == "set" and any(e[0] == "foreign" for e in op[1])) for op in record_ops)
            if foreign:
                # a second callsite declaring the same names: its keys are not this span's
                body.append("    let foreign: &'static tracing::__macro_support::MacroCallsite = { static __CALLSITE: tracing::__macro_support::MacroCallsite = tracing::callsite2! { name: \"foreign\", kind: tracing::metadata::Kind::SPAN, fields: %s }; &__CALLSITE };"
                            % ", ".join(d["name"] for d in decls))
            def keyexpr(which, d):
                src = "m" if which == "own" else "tracing::callsite::Callsite::metadata(foreign)"
                return "%s.fields().field(%s).unwrap()" % (src, json.dumps(d["name"], ensure_ascii=False))
            for op in record_ops:
                # op: ('declared', field index, ty) | ('undeclared', ty) | ('ownkey' / 'foreignkey', field index, ty, by reference)
                #     | ('set', [('own' / 'foreign', field index, ty), ...])  -- a hand-built ValueSet through Span::record_all
                # (a disabled span has no metadata: nothing to record with; the value expressions are ordinary arguments)
                if op[0] == "declared":
                    d = decls[op[1]]
                    ty = op[2]
                    body.append("    sp.record(%s, %s);" % (json.dumps(d["name"], ensure_ascii=False), TYPES[ty].format(i=slot)))
                    ops.append(dict(blank, field=d["name"], declared=True, ty=ty, slot=slot))
                elif op[0] in ("ownkey", "foreignkey"):
                    d = decls[op[1]]
                    ty = op[2]
                    body.append("    { let v = %s; if let Some(m) = sp.metadata() { let k = %s; sp.record(%s, v); } }"
                                % (TYPES[ty].format(i=slot), keyexpr(op[0][:-3], d), "&&k" if op[3] else "&k"))
                    ops.append(dict(blank, field=d["name"], declared=op[0] == "ownkey", ty=ty, slot=slot))
                elif op[0] == "set":
                    ents, vals, lets, items = [], [], [], []
                    for j, (which, fi, ty) in enumerate(op[1]):
                        d = decls[fi]
                        vals.append("let v%d = %s;" % (j, TYPES[ty].format(i=slot)))
                        lets.append("let k%d = %s;" % (j, keyexpr(which, d)))
                        items.append("(&k%d, Some(&v%d as &dyn tracing::field::Value))" % (j, j))
                        ents.append({"field": d["name"], "own": which == "own", "ty": ty, "slot": slot})
                        slot += 1
                    body.append("    { %s if let Some(m) = sp.metadata() { %s sp.record_all(&m.fields().value_set(&[%s])); } }" % (" ".join(vals), " ".join(lets), ", ".join(items)))
                    ops.append(dict(blank, declared=True, set=True, entries=ents))
                    continue
                else:
                    body.append("    sp.record(\"never_declared\", %s);" % TYPES[op[1]].format(i=slot))
                    ops.append(dict(blank, field="never_declared", declared=False, ty=op[1], slot=slot))
                slot += 1
            body.append("    ctx.span_made(&sp);")
            record = ops
        elif is_enabled:
            body.append("    let r = tracing::enabled!(%s);" % args)
            body.append("    ctx.enabled_result(r);")
            record = []
        else:
            body.append("    tracing::%s!(%s);" % (macro, args))
            record = []
        body.append("}")
        skipped = str(idx) in self.skip
        if skipped:
            body = ["fn cs_%d(ctx: &Ctx) {}  // rejected by the macros: %s" % (idx, self.skip[str(idx)])]
        self.rs.append("\n".join(body))
        self.sites.append({"id": idx, "macro": macro, "kind": "span" if is_span else ("enabled" if is_enabled else "event"),
                           "level": level, "target": target, "name": span_name or name, "parent": parent, "fields": decls,
                           "message": message, "record": record, "nslots": slot, "src": args, "skipped": skipped})

    # ---- the corpus ---------------------------------------------------------------------------
    def build(self):
        rng = self.rng
        nameforms = ["ident", "dotted", "literal", "raw", "const"]
        valforms = ["=", "=%", "=?", "empty"]
        shorts = ["sh", "sh%", "sh?"]
        filler = ("ident", "=", "u8")
        # 1. every valueset!/fieldset! arm: name form x value form x {last, followed by a field, followed by a message}
        for macro in ("event", "span"):
            for nf in nameforms:
                for vf in valforms:
                    self.site(macro, [(nf, vf, "u64")])
                    self.site(macro, [(nf, vf, "str"), filler])
                    self.site(macro, [filler, (nf, vf, "i32"), filler])
                    if macro == "event":
                        self.site(macro, [(nf, vf, "u64")], msg="lit")
                        self.site(macro, [filler, (nf, vf, "str")], msg="fmt")
            for nf in ("ident", "dotted"):
                for vf in shorts:
                    self.site(macro, [(nf, vf, "u64")])
                    self.site(macro, [(nf, vf, "str"), filler])
                    self.site(macro, [filler, (nf, vf, "bool")])
                    if macro == "event":
                        self.site(macro, [(nf, vf, "i64")], msg="cap")
        # 2. every value type, alone and between other fields
        for ty in TYPES:
            if ty == "empty":
                continue
            self.site("event", [("ident", "=", ty)])
            self.site("span", [filler, ("literal", "=", ty), ("ident", "=", "bool")])
            self.site(rng.choice(list(EVENT_SHORT)), [("dotted", "=", ty), filler], msg=rng.choice([None, "lit", "fmt"]))
        # 3. every macro x prefix combination, with varied field lists
        prefixes = [(), ("target",), ("parent",), ("parent_none",), ("target", "parent"), ("name",), ("name", "target"), ("name", "target", "parent"),
                    ("name", "parent"), ("name", "parent_none"), ("target", "parent_none")]
        for macro in ["event", "span"] + list(EVENT_SHORT) + list(SPAN_SHORT):
            for pf in prefixes:
                if "name" in pf and (macro == "span" or macro in SPAN_SHORT):
                    continue
                for variant in range(8):
                    n = [0, 1, 2, 3, 1, 2, 3, 4][variant]
                    fs = []
                    for _ in range(n):
                        vf = rng.choice(valforms + shorts + ["=", "="])
                        fs.append((rng.choice(nameforms), vf, rng.choice(list(TYPES))))
                    msg = rng.choice([None, "lit", "fmt", "cap"]) if (n > 0 or True) else None
                    if n == 0 and msg is None and (macro == "event" or macro in EVENT_SHORT):
                        msg = "lit"
                    self.site(macro, fs, msg=msg, prefix=pf, braced=variant >= 6)
        # 4. spans with later record calls: declared Empty fields filled once, undeclared names ignored
        for macro in ["span"] + list(SPAN_SHORT):
            for ty in ["u8", "str", "i64", "bool", "f64", "err", "bytes", "u128"]:
                self.site(macro, [("ident", "empty", ""), ("ident", "=", "u16"), ("dotted", "empty", "")],
                          record_ops=[("declared", 0, ty), ("undeclared", ty), ("declared", 2, rng.choice(["str", "u64"]))])
        # 5. enabled!
        for pf in [(), ("target",)]:
            for lvl in range(1, 6):
                self.site("enabled", [], prefix=pf, level=lvl)
                self.site("enabled", [filler, ("ident", "=", "u8")], prefix=pf, level=lvl)
        # 6. random mixtures
        for _ in range(1200):
            macro = rng.choice(["event", "span"] + list(EVENT_SHORT) + list(SPAN_SHORT))
            n = rng.randint(1, 5)
            fs = [(rng.choice(nameforms), rng.choice(valforms + shorts + ["=", "=", "="]), rng.choice(list(TYPES))) for _ in range(n)]
            self.site(macro, fs, msg=rng.choice([None, None, "lit", "fmt", "cap"]),
                      prefix=rng.choice(prefixes), braced=rng.random() < 0.15)

        # 7. (appended last: earlier callsite numbers stay put) Span::record through Field keys of the span's own and of a
        #    foreign callsite, and hand-built value sets mixing both: only the span's own fields are shown
        for macro in ["span"] + list(SPAN_SHORT):
            for ty in ["u8", "str", "i64", "bool", "f64", "err", "bytes", "u128"]:
                self.site(macro, [("ident", "empty", ""), ("ident", "=", "u16"), ("dotted", "empty", "")],
                          record_ops=[("ownkey", 0, ty, False), ("foreignkey", 0, ty, True), ("foreignkey", 2, "u64", False), ("ownkey", 2, "str", True),
                                      ("set", [("foreign", 0, ty), ("own", 0, ty), ("own", 2, "u64")]),
                                      ("set", [("own", 2, "str"), ("foreign", 2, "u64")]),
                                      ("set", [("foreign", 0, "u8")])])

        # 8. (appended last) every arm of the level shorthand macros: prefix combination x the token the field list starts with
        #    (`ident = ..`, `ident`, `%ident`, `?ident`, `{ braced }` + message, message only) - each is a separate macro rule
        for macro in list(EVENT_SHORT):
            for pf in prefixes:
                for first in [("ident", "=", "u64"), ("ident", "sh", "u64"), ("ident", "sh%", "str"), ("ident", "sh?", "i32"),
                              ("dotted", "sh?", "bool"), ("dotted", "sh%", "u8")]:
                    self.site(macro, [first, filler], msg=rng.choice([None, "lit"]), prefix=pf)
                self.site(macro, [filler], msg="lit", prefix=pf, braced=True)
                self.site(macro, [], msg="fmt", prefix=pf)

    def write(self):
        dots = sorted({p for n in DOTTED for p in n.split(".")[1:]})
        head = ["// GENERATED by tools/gen_macro_corpus.py -- do not edit", "#![allow(unused, non_camel_case_types, clippy::all)]", "use super::Ctx;"]
        for c, v in CONSTS.items():
            head.append("const %s: &str = %s;" % (c, json.dumps(v)))
        for p in dots:
            head.append("struct Dot_%s<T> { %s: T }" % (p, p))
        table = ["pub const SITES: &[fn(&Ctx)] = &[" + ", ".join("cs_%d" % s["id"] for s in self.sites) + "];"]
        text = "\n".join(head) + "\n\n" + "\n\n".join(self.rs) + "\n\n" + "\n".join(table) + "\n"
        OUT_RS.parent.mkdir(parents=True, exist_ok=True)
        OUT_JSON.parent.mkdir(parents=True, exist_ok=True)
        js = json.dumps(self.sites, ensure_ascii=False, indent=0)
        changed = False
        if not OUT_RS.exists() or OUT_RS.read_text() != text:
            OUT_RS.write_text(text)
            changed = True
        if not OUT_JSON.exists() or OUT_JSON.read_text() != js:
            OUT_JSON.write_text(js)
            changed = True
        return changed


def shape_hash(g):
    import hashlib
    return hashlib.sha256("\n".join(s["macro"] + "!(" + s["src"] + ")" for s in g.sites).encode()).hexdigest()[:16]


def generate():
    g = Gen(20260928)
    g.build()
    h = shape_hash(g)
    if g.skip and g.skip.get("_corpus") != h:
        # the skip list belongs to another corpus: ignore it (run --prune to rebuild it)
        g = Gen(20260928)
        g.skip = {}
        g.build()
    ch = g.write()
    print("macro corpus: %d callsites, %d rejected by the macros (%s)" % (len(g.sites), sum(1 for s in g.sites if s["skipped"]), "rewritten" if ch else "unchanged"))
    return g


def prune():
    """compile, map every error to its callsite function, record it as rejected, repeat"""
    import re
    import subprocess
    for rnd in range(12):
        generate()
        r = subprocess.run(["cargo", "build", "--offline", "--bin", "macros", "--message-format", "short"], cwd=V / "harness", capture_output=True, text=True)
        errs = re.findall(r"corpus\.rs:(\d+):\d+: error(?:\[E\d+\])?: (.*)", r.stderr)
        if r.returncode == 0:
            print("compiles")
            return
        if not errs:
            print(r.stderr[-3000:])
            raise SystemExit("build fails outside the corpus")
        lines = OUT_RS.read_text().split("\n")
        g0 = Gen(20260928)
        g0.skip = {}
        g0.build()
        skip = json.load(open(SKIP_JSON)) if SKIP_JSON.exists() else {}
        if skip.get("_corpus") != shape_hash(g0):
            skip = {"_corpus": shape_hash(g0)}
        for ln, msg in errs:
            ln = int(ln) - 1
            while ln >= 0 and not lines[ln].startswith("fn cs_"):
                ln -= 1
            n = re.match(r"fn cs_(\d+)", lines[ln]).group(1)
            skip.setdefault(n, msg[:100])
        json.dump(skip, open(SKIP_JSON, "w"), indent=0, sort_keys=True)
        print("round %d: %d rejected so far" % (rnd, len(skip)))


def main():
    import sys
    if "--prune" in sys.argv:
        prune()
    else:
        generate()


if __name__ == "__main__":
    main()
