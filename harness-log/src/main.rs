//! C18 driver (spec/LogBridge).  One OS process per behaviour (the `log` logger, the global default
//! and `dispatch::has_been_set` are process-global).  Two kinds of behaviour:
//!   t2l  tracing -> log: a recording `log::Log` is installed; the steps run callsites of the generated
//!        macro corpus (built here WITH tracing's `log` feature) and install / drop scoped collectors
//!        or the global default; every step logs the `log` records it produced.
//!   l2t  log -> tracing: `LogTracer` (with an ignore list) is the logger; rounds install a filtering
//!        recording collector and pass `log` records to the logger; every record logs the events the
//!        collector received (raw and normalized metadata, message) and `Log::enabled`'s answer.
use serde_json::{json, Value};
use std::sync::{Arc, Mutex};
use tracing_core::field::{Field, Visit};
use tracing_core::span::{Attributes, Id, Record};
use tracing_core::{dispatch, Collect, Dispatch, Event, Interest, LevelFilter, Metadata};
use tracing_log::{AsLog, AsTrace, NormalizeEvent};
use vh_common::runner::{child_emit, child_input, is_child, run_all};

#[path = "../../harness/vh/src/bin/macros/corpus.rs"]
mod corpus;
#[path = "../../harness/vh/src/bin/macros/ctx.rs"]
mod ctx;
pub use ctx::{hexs, Ctx};

// ------------------------------------------------------------------ tracing -> log
struct RecLogger;
static RECORDS: Mutex<Vec<Value>> = Mutex::new(Vec::new());
impl log::Log for RecLogger {
    fn enabled(&self, _: &log::Metadata<'_>) -> bool {
        true
    }
    fn log(&self, r: &log::Record<'_>) {
        RECORDS.lock().unwrap().push(json!({"level": r.level() as usize, "target": r.target(), "text": hexs(r.args().to_string().as_bytes())}));
    }
    fn flush(&self) {}
}
static REC_LOGGER: RecLogger = RecLogger;

struct Nop;
impl Collect for Nop {
    fn enabled(&self, _: &Metadata<'_>) -> bool {
        true
    }
    fn new_span(&self, _: &Attributes<'_>) -> Id {
        Id::from_u64(1)
    }
    fn record(&self, _: &Id, _: &Record<'_>) {}
    fn record_follows_from(&self, _: &Id, _: &Id) {}
    fn event(&self, _: &Event<'_>) {}
    fn enter(&self, _: &Id) {}
    fn exit(&self, _: &Id) {}
    fn current_span(&self) -> tracing_core::span::Current {
        tracing_core::span::Current::none()
    }
}

// #[instrument]ed functions: with the log feature and no collector their span steps are logged like any other span's
#[tracing::instrument]
fn inst_sync(x: u32) -> u32 {
    x + 1
}
#[tracing::instrument(level = "debug", target = "tgt::inst")]
async fn inst_async(x: u32) -> u32 {
    x + 1
}

fn t2l(b: &Value) {
    log::set_logger(&REC_LOGGER).unwrap();
    log::set_max_level(log::LevelFilter::Trace);
    let mut guards: Vec<dispatch::DefaultGuard> = vec![];
    let mut constructed: Vec<Dispatch> = vec![];
    for (i, st) in b["steps"].as_array().unwrap().iter().enumerate() {
        RECORDS.lock().unwrap().clear();
        let mut line = json!({"ev": "t2l", "i": i, "op": st["op"]});
        match st["op"].as_str().unwrap() {
            "site" => {
                let slots = st["slots"].as_array().unwrap();
                let cs = st["cs"].as_u64().unwrap() as usize;
                let r = vh_common::catch(|| {
                    let ctx = Ctx::from_slots(slots, tracing::Span::none());
                    corpus::SITES[cs](&ctx);
                    let e = ctx.evals.borrow().clone();
                    e
                });
                line["cs"] = json!(cs);
                line["decl"] = st["decl"].clone();
                line["slots"] = st["slots"].clone();
                match r {
                    Ok(e) => line["evals"] = json!(e),
                    Err(p) => line["panic"] = json!(p),
                }
            }
            // `instr`: one call of an attributed function (sync, or async polled to completion); logged like a span site
            "instr" => {
                if st["which"] == "manual" {
                    // a future wrapped by hand: Instrumented enters the span around the poll and again around dropping the future
                    use tracing::Instrument;
                    let mut f = Box::pin(async { 7u32 }.instrument(tracing::info_span!(target: "logbridge", "manual_fut", x = 7u32)));
                    let w = vh_common::noop_waker();
                    let mut cx = std::task::Context::from_waker(&w);
                    let _ = std::future::Future::poll(f.as_mut(), &mut cx);
                    drop(f);
                } else if st["which"] == "async" {
                    let mut f = Box::pin(inst_async(7));
                    let w = vh_common::noop_waker();
                    let mut cx = std::task::Context::from_waker(&w);
                    let _ = std::future::Future::poll(f.as_mut(), &mut cx);
                } else {
                    inst_sync(7);
                }
                line["op"] = json!("site");
                line["cs"] = json!(0);
                line["decl"] = st["decl"].clone();
                line["slots"] = json!([]);
                line["evals"] = json!([]);
            }
            "scoped_on" => guards.push(dispatch::set_default(&Dispatch::new(Nop))),
            "scoped_off" => {
                guards.pop();
            }
            "global" => {
                let _ = dispatch::set_global_default(Dispatch::new(Nop));
            }
            // a collector is constructed (and kept alive) but never installed: nothing has been "set"
            "construct" => constructed.push(Dispatch::new(Nop)),
            o => panic!("op {o}"),
        }
        line["has_been_set"] = json!(dispatch::has_been_set());
        line["records"] = json!(RECORDS.lock().unwrap().clone());
        child_emit(line);
    }
}

// ------------------------------------------------------------------ log -> tracing
struct MsgVisitor<'a>(&'a mut Vec<Value>);
impl Visit for MsgVisitor<'_> {
    fn record_debug(&mut self, f: &Field, v: &dyn std::fmt::Debug) {
        self.0.push(json!({"name": f.name(), "v": hexs(format!("{:?}", v).as_bytes())}));
    }
    fn record_str(&mut self, f: &Field, v: &str) {
        self.0.push(json!({"name": f.name(), "v": hexs(v.as_bytes())}));
    }
    fn record_u64(&mut self, f: &Field, v: u64) {
        self.0.push(json!({"name": f.name(), "v": hexs(v.to_string().as_bytes())}));
    }
}
struct Filt {
    cap: u64,
    prefix: String,
    hint: bool,
    inen: bool,
    events: Arc<Mutex<Vec<Value>>>,
}
impl Filt {
    fn accepts(&self, m: &Metadata<'_>) -> bool {
        (!self.inen || vh_common::rec::rank(m.level()) <= self.cap) && m.target().starts_with(&self.prefix)
    }
}
fn opt(s: Option<&str>) -> Value {
    match s {
        Some(s) => json!({"some": true, "v": s}),
        None => json!({"some": false, "v": ""}),
    }
}
impl Collect for Filt {
    fn register_callsite(&self, _: &'static Metadata<'static>) -> Interest {
        Interest::sometimes()
    }
    fn enabled(&self, m: &Metadata<'_>) -> bool {
        self.accepts(m)
    }
    fn max_level_hint(&self) -> Option<LevelFilter> {
        if self.hint {
            Some(vh_common::rec::filter_of_rank(self.cap))
        } else {
            None
        }
    }
    fn new_span(&self, _: &Attributes<'_>) -> Id {
        Id::from_u64(1)
    }
    fn record(&self, _: &Id, _: &Record<'_>) {}
    fn record_follows_from(&self, _: &Id, _: &Id) {}
    fn event(&self, e: &Event<'_>) {
        let mut fields = vec![];
        e.record(&mut MsgVisitor(&mut fields));
        let raw = e.metadata();
        let norm = e.normalized_metadata();
        let n = norm.as_ref().map(|m| {
            json!({"target": m.target(), "level": vh_common::rec::rank(m.level()), "file": opt(m.file()), "line": m.line().map(|l| l as i64).unwrap_or(-1),
                   "module": opt(m.module_path()), "is_event": m.is_event(), "name": m.name()})
        });
        self.events.lock().unwrap().push(json!({"raw_target": raw.target(), "raw_level": vh_common::rec::rank(raw.level()), "is_log": e.is_log(),
            "norm": n.unwrap_or(json!({"target": "", "level": 0, "file": opt(None), "line": -1, "module": opt(None), "is_event": false, "name": ""})), "fields": fields}));
    }
    fn enter(&self, _: &Id) {}
    fn exit(&self, _: &Id) {}
    fn current_span(&self) -> tracing_core::span::Current {
        tracing_core::span::Current::none()
    }
}
fn loglevel(r: u64) -> log::Level {
    match r {
        1 => log::Level::Error,
        2 => log::Level::Warn,
        3 => log::Level::Info,
        4 => log::Level::Debug,
        _ => log::Level::Trace,
    }
}

fn l2t(b: &Value) {
    // every way of installing the bridge: the builder (ignore_crate one by one, or ignore_all), init / init_with_filter, or a
    // hand-installed LogTracer::new(); `maxlog` is the `log` crate's own maximum level the installation leaves behind
    let ignore: Vec<String> = b["ignore"].as_array().unwrap().iter().map(|c| c.as_str().unwrap().to_string()).collect();
    let maxl = b["max_level"].as_u64();
    let maxlog = maxl.unwrap_or(5);
    match b["ctor"].as_str().unwrap_or("builder") {
        "init" => tracing_log::LogTracer::init().unwrap(),
        "init_with_filter" => tracing_log::LogTracer::init_with_filter(loglevel(maxlog).to_level_filter()).unwrap(),
        "new" => {
            log::set_boxed_logger(Box::new(tracing_log::LogTracer::new())).unwrap();
            log::set_max_level(log::LevelFilter::Trace);
        }
        ctor => {
            let mut builder = tracing_log::LogTracer::builder();
            if ctor == "ignore_all" {
                builder = builder.ignore_all(ignore.clone());
            } else if ctor == "ignore_mixed" {
                // the first prefix one by one, the others in one call - and that call once more with nothing (prefixes accumulate)
                if let Some(first) = ignore.first() {
                    builder = builder.ignore_crate(first.as_str());
                }
                builder = builder.ignore_all(ignore.iter().skip(1).cloned().collect::<Vec<_>>());
                builder = builder.ignore_all(Vec::<String>::new());
            } else {
                for c in &ignore {
                    builder = builder.ignore_crate(c.as_str());
                }
            }
            if let Some(m) = maxl {
                builder = builder.with_max_level(loglevel(m).to_level_filter());
            }
            builder.init().unwrap();
        }
    }
    for (ri, round) in b["rounds"].as_array().unwrap().iter().enumerate() {
        let events = Arc::new(Mutex::new(vec![]));
        let col = &round["collector"];
        let d = Dispatch::new(Filt { cap: col["cap"].as_u64().unwrap(), prefix: col["prefix"].as_str().unwrap().to_string(), hint: col["hint"].as_bool().unwrap(), inen: col["inen"].as_bool().unwrap(), events: events.clone() });
        child_emit(json!({"ev": "round", "collector": col, "ignore": b["ignore"], "installed": col["installed"]}));
        let body = || {
            for (i, r) in round["records"].as_array().unwrap().iter().enumerate() {
                events.lock().unwrap().clear();
                let msg = String::from_utf8(ctx::unhex(r["msg"].as_str().unwrap())).unwrap();
                let target = r["target"].as_str().unwrap();
                let level = loglevel(r["level"].as_u64().unwrap());
                let meta = log::Metadata::builder().level(level).target(target).build();
                let en = log::logger().enabled(&meta);
                let res = vh_common::catch(|| {
                    let args = format_args!("{}", msg);
                    let mut rb = log::Record::builder();
                    rb.metadata(meta.clone()).args(args);
                    if r["file"]["some"].as_bool().unwrap() {
                        rb.file(r["file"]["v"].as_str());
                    }
                    if r["module"]["some"].as_bool().unwrap() {
                        rb.module_path(r["module"]["v"].as_str());
                    }
                    if r["line"].as_i64().unwrap() >= 0 {
                        rb.line(Some(r["line"].as_i64().unwrap() as u32));
                    }
                    if r["via"].as_str() == Some("format_trace") {
                        // the public entry point used by the env_logger integration: no LogTracer in front
                        let _ = tracing_log::format_trace(&rb.build());
                    } else if r["via_macro"].as_bool().unwrap_or(false) {
                        log::log!(target: target, level, "{}", msg);
                    } else {
                        log::logger().log(&rb.build());
                    }
                });
                let mut line = json!({"ev": "l2t", "round": ri, "i": i, "rec": r, "enabled": en, "maxlog": maxlog, "events": events.lock().unwrap().clone()});
                if let Err(p) = res {
                    line["panic"] = json!(p);
                }
                child_emit(line);
            }
        };
        if col["installed"].as_bool().unwrap() {
            dispatch::with_default(&d, body);
        } else {
            body();       // no collector at all: nothing may be delivered anywhere
        }
    }
}

fn levels() {
    // level conversions both ways, as ranks (1 = ERROR .. 5 = TRACE, 0 = OFF)
    let mut rows = vec![];
    for r in 1..=5u64 {
        let t = vh_common::rec::filter_of_rank(r).into_level().unwrap();
        let l = t.as_log();
        rows.push(json!({"kind": "level", "trace_rank": r, "log_rank": l as usize, "back": vh_common::rec::rank(&l.as_trace())}));
    }
    for r in 0..=5u64 {
        let t = vh_common::rec::filter_of_rank(r);
        let l = t.as_log();
        rows.push(json!({"kind": "filter", "trace_rank": r, "log_rank": l as usize, "back": vh_common::rec::rank_of_filter(&l.as_trace())}));
    }
    child_emit(json!({"ev": "levels", "rows": rows}));
}

fn main() {
    vh_common::quiet_panics();
    if is_child() {
        let b = child_input();
        match b["mode"].as_str().unwrap() {
            "t2l" => t2l(&b),
            "l2t" => l2t(&b),
            _ => levels(),
        }
    } else {
        run_all(|i, b| json!({"ev": "reset", "beh": i, "mode": b["mode"], "always": b["always"].as_bool().unwrap_or(false)}));
    }
}
