#!/bin/sh
# Builds the conformance harness once from files on disk (offline). Checks rebuild incrementally.
set -e
cd "$(dirname "$0")/harness"
cp /repo/Cargo.lock Cargo.lock
export CARGO_NET_OFFLINE=true
cargo build --offline --workspace --bins 2>&1 | tail -3
