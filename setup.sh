#!/bin/sh
# Builds the conformance harnesses once from files on disk (offline). Checks rebuild incrementally.
set -e
V="$(cd "$(dirname "$0")" && pwd)"
export CARGO_NET_OFFLINE=true
cd "$V/harness"
cp /repo/Cargo.lock Cargo.lock
cargo build --offline --workspace --bins 2>&1 | tail -3
# second workspace: tracing built WITH its `log` feature (C18); kept apart so features are not unified
cd "$V/harness-log"
cp /repo/Cargo.lock Cargo.lock
cargo build --offline --bins 2>&1 | tail -3
# third workspace: tracing built with `max_level_info` (C10, compile-time stage)
cd "$V/harness-static"
cp /repo/Cargo.lock Cargo.lock
cargo build --offline --bins 2>&1 | tail -3
# fourth workspace: tracing built with `log` + `log-always` (C18 / evaluation counts under log-always)
cd "$V/harness-logalways"
cp /repo/Cargo.lock Cargo.lock
cargo build --offline --bins 2>&1 | tail -3
# fifth workspace: the level probe, rebuilt by C10 once per max_level feature configuration (compile-time stage)
cd "$V/harness-levels"
cp /repo/Cargo.lock Cargo.lock
cargo build --offline --bins 2>&1 | tail -3
