----------------------------- MODULE MCDispatch -----------------------------
EXTENDS Dispatch
CONSTANTS MaxScopes, MaxSteps
VARIABLE steps
F(thr, tg, k, h) == [thr |-> thr, tgts |-> tg, kind |-> k, hint |-> h]
\* quick universe: 2 thresholds x 2 target sets x 3 kinds, hints {none, exact}
FiltersM == { f \in { F(thr, tg, k, h) : thr \in {1, 5}, tg \in {{"a"}, {"a", "b"}}, k \in {"static", "dyn", "lazy"}, h \in {NoHint, 1, 5} } : f.hint \in {NoHint, f.thr} }
\* quick universe: the 12 unhinted filters plus two hinted ones
FiltersQ == { f \in FiltersM : f.hint = NoHint } \cup {F(1, {"a"}, "static", 1), F(1, {"a", "b"}, "dyn", 1)}
FiltersT == { f \in { F(thr, tg, k, h) : thr \in {0, 1, 3, 5}, tg \in {{}, {"a"}, {"a", "b"}}, k \in {"static", "dyn", "lazy"}, h \in {NoHint, 1, 3, 5} } : FilterOK(f) }
FiltersScopes == {F(5, {"a"}, "lazy", NoHint), F(1, {"a"}, "static", 1)}
MCInit == Init /\ steps = 0
MCNext == steps < MaxSteps /\ Next /\ steps' = steps + 1
MCSpec == MCInit /\ [][MCNext]_<<vars, steps>>
Bound == \A t \in Threads : Len(scopes[t]) <= MaxScopes
View == vars
=============================================================================
