SPECIFICATION MCSpec
CONSTANTS
  Threads = {1, 2}
  Disp = {1, 2}
  Levels = {1, 5}
  Targets = {"a", "b"}
  Filters <- FiltersM
  StaticMax = 5
  MaxScopes = 2
  MaxSteps = 7
CONSTRAINT Bound
VIEW View
INVARIANT TypeOK
INVARIANT CurAgree
INVARIANT GlobalAgree
INVARIANT CacheTransparent
INVARIANT CurAlive
INVARIANT MaxLevelCovers
INVARIANT ScopedCountIsScopes
CHECK_DEADLOCK FALSE
