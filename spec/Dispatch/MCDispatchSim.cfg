SPECIFICATION SimSpec
CONSTANTS
  Threads = {1, 2, 3}
  Disp = {1, 2, 3, 4}
  Levels = {1, 3, 5}
  Targets = {"a", "b", "c"}
  Filters <- FiltersS
  StaticMax = 5
  MaxScopes = 3
  MaxSteps = 24
INVARIANT Emitted
INVARIANT CurAgree
INVARIANT GlobalAgree
INVARIANT CacheTransparent
INVARIANT CurAlive
INVARIANT MaxLevelCovers
CHECK_DEADLOCK FALSE
