SPECIFICATION MCSpec
CONSTANTS
  Threads = {1, 2, 3}
  Disp = {1, 2, 3}
  Levels = {3}
  Targets = {"a"}
  Filters <- FiltersScopes
  StaticMax = 5
  MaxScopes = 2
  MaxSteps = 10
CONSTRAINT Bound
VIEW View
INVARIANT TypeOK
INVARIANT CurAgree
INVARIANT GlobalAgree
INVARIANT CacheTransparent
INVARIANT CurAlive
INVARIANT ScopedCountIsScopes
CHECK_DEADLOCK FALSE
