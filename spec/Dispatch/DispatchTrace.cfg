SPECIFICATION TraceSpec
CONSTANTS
  Threads = {1, 2, 3, 4, 5, 6}
  Disp = {1, 2, 3, 4, 5, 6, 7, 8, 9, 10, 11, 12}
  Levels = {1, 2, 3, 4, 5}
  Targets = {"a", "b", "c"}
  Filters <- TFilters
  StaticMax = 5
INVARIANT Report
INVARIANT TypeOK
INVARIANT CurAgree
INVARIANT GlobalAgree
INVARIANT CacheTransparent
INVARIANT CurAlive
INVARIANT MaxLevelCovers
POSTCONDITION Consumed
CHECK_DEADLOCK FALSE
