------------------------------ MODULE Dispatch ------------------------------
(***************************************************************************)
(* C01 + C02 - who receives an emission.                                   *)
(*                                                                         *)
(* A (abstract, the properties as a user states them):                     *)
(*   scopes[t]  the LIFO stack of set_default/with_default scopes of t     *)
(*   global     the process-wide default (set at most once)                *)
(*   ACur(t)    = innermost live scope of t, else global, else nobody      *)
(*   an emission at callsite c on t is delivered to ACur(t) iff that       *)
(*   collector's OWN filter accepts c now - and to nobody else.            *)
(*                                                                         *)
(* M (mechanism, tracing-core/src/{callsite,dispatch,metadata}.rs and the  *)
(*   macro guard in tracing/src/macros.rs + lib.rs), one action per public *)
(*   call (the statement-level interleavings are in DispatchRace):         *)
(*   dispatchers (registrar list incl. dead entries, pruned only inside a  *)
(*   rebuild), per-callsite cached interest incl. "Empty" = unregistered,  *)
(*   MAX_LEVEL, the compile-time maximum, the thread-local default slot,   *)
(*   the guards' saved priors, SCOPED_COUNT, the global default.           *)
(*                                                                         *)
(* TLC checks in EVERY reachable state, for EVERY (thread, callsite) -     *)
(* not only for emissions that happen - that the macro guard chain of M    *)
(* would deliver exactly what A demands (CacheTransparent), and that M's   *)
(* notion of the current collector is A's (CurAgree).                      *)
(***************************************************************************)
EXTENDS Naturals, Sequences, FiniteSets, TLC

CONSTANTS Threads,      \* thread ids
          Disp,         \* dispatch (collector) ids, positive naturals
          Levels,       \* subset of 1..5 used by callsites (1 = ERROR .. 5 = TRACE)
          Targets,      \* target strings
          Filters,      \* the filter universe (records, see FilterOK)
          StaticMax     \* compile-time maximum level, 0..5

NoD == 0                \* "no collector" (Dispatch::none / NoCollector)
NoHint == 9
Callsites == [lvl : Levels, tgt : Targets]

\* A collector's own filter: level threshold x target set x kind x optional max-level hint.
\*   kind "static": register_callsite answers always / never, enabled() is the static part
\*   kind "dyn"   : sometimes where the static part accepts, never elsewhere; enabled() = static part /\ flag
\*   kind "lazy"  : always answers sometimes;                                enabled() = static part /\ flag
\*   kind "none"  : the no-op collector of Dispatch::none() - never registered, rejects and discards everything
FilterOK(f) == /\ f.thr \in 0..5 /\ f.tgts \subseteq Targets /\ f.kind \in {"static", "dyn", "lazy", "none"}
               /\ (f.hint = NoHint \/ (f.hint \in 0..5 /\ f.hint >= f.thr))   \* a hint is a true upper bound
StaticPart(f, c) == c.lvl <= f.thr /\ c.tgt \in f.tgts
Interest(f, c) == CASE f.kind = "static" -> IF StaticPart(f, c) THEN "Always" ELSE "Never"
                    [] f.kind = "dyn"    -> IF StaticPart(f, c) THEN "Sometimes" ELSE "Never"
                    [] f.kind = "lazy"   -> "Sometimes"
                    [] f.kind = "none"   -> "Never"
NoneFilter == [thr |-> 0, tgts |-> {}, kind |-> "none", hint |-> NoHint]
Enabled(f, fl, c) == StaticPart(f, c) /\ (f.kind = "static" \/ fl)
HintOrTrace(f) == IF f.hint = NoHint THEN 5 ELSE f.hint

VARIABLES
  (* shared by A and M *)
  handle,       \* [Disp -> {"unborn","held","dropped"}]  the creator's own handle
  filt,         \* [Disp -> Filters]
  flag,         \* [Disp -> BOOLEAN]   the dynamic part of the filter
  (* A *)
  scopes,       \* [Threads -> Seq(Disp)]
  global,       \* NoD (unset) or the dispatch installed by the one successful set_global_default
  (* M *)
  dispatchers,  \* Seq(Disp)
  interest,     \* [Callsites -> {"Empty","Never","Sometimes","Always"}]
  maxLevel,     \* 0..5
  tl,           \* [Threads -> Disp \cup {NoD}]  thread-local default slot (NoD = None)
  guards,       \* [Threads -> Seq(Disp \cup {NoD})]  priors saved by the live guards, innermost last
  scopedCount,  \* SCOPED_COUNT
  mglobal       \* GLOBAL_DISPATCH (NoD while GLOBAL_INIT # INITIALIZED)

avars == <<handle, filt, flag, scopes, global>>
mvars == <<dispatchers, interest, maxLevel, tl, guards, scopedCount, mglobal>>
vars  == <<avars, mvars>>

Range(s) == {s[i] : i \in DOMAIN s}
Last(s)  == s[Len(s)]
Front(s) == SubSeq(s, 1, Len(s) - 1)
MaxOf(S) == IF S = {} THEN 0 ELSE CHOOSE x \in S : \A y \in S : y <= x

\* a collector lives while anything holds a strong reference to it
Alive(d) == \/ handle[d] = "held"
            \/ \E t \in Threads : tl[t] = d \/ d \in Range(guards[t])
            \/ mglobal = d

(* ------------------------------ A ------------------------------------ *)
ACur(t) == IF scopes[t] # << >> THEN Last(scopes[t]) ELSE global
ADelivers(t, c) == ACur(t) # NoD /\ c.lvl <= StaticMax /\ Enabled(filt[ACur(t)], flag[ACur(t)], c)
AGot(t, c) == IF ADelivers(t, c) THEN ACur(t) ELSE NoD

(* ------------------------------ M ------------------------------------ *)
MCur(t) == IF scopedCount = 0 THEN mglobal                 \* get_default fast path
           ELSE IF tl[t] # NoD THEN tl[t] ELSE mglobal      \* slow path: scoped default, else the global *now*

LiveIn(ds) == {d \in Range(ds) : Alive(d)}
\* rebuild_callsite_interest: fold Interest::and over the live registrars; nobody => never
FoldOver(ds, c) == LET L == LiveIn(ds) IN
                   IF L = {} THEN "Never"
                   ELSE IF \A d1, d2 \in L : Interest(filt[d1], c) = Interest(filt[d2], c)
                        THEN Interest(filt[CHOOSE d \in L : TRUE], c)
                        ELSE "Sometimes"
\* what the cached interest is after the lazy registration on first hit
IntNow(c) == IF interest[c] = "Empty" THEN FoldOver(dispatchers, c) ELSE interest[c]
LevelGate(c) == c.lvl <= StaticMax /\ c.lvl <= maxLevel
\* the guard chain of event! / span!:  level_enabled! && { i = interest(); !never && (always || default.enabled) }
MPasses(t, c) == /\ LevelGate(c)
                 /\ IntNow(c) # "Never"
                 /\ (IntNow(c) = "Always" \/ (MCur(t) # NoD /\ Enabled(filt[MCur(t)], flag[MCur(t)], c)))
\* then Event::dispatch hands it to the current default (the no-op collector discards it)
MGot(t, c) == IF MPasses(t, c) /\ (MCur(t) = NoD \/ filt[MCur(t)].kind # "none") THEN MCur(t) ELSE NoD

(* ----------------------------- actions -------------------------------- *)
RebuildWith(ds, h) ==   \* rebuild_interest under the write lock; h = handle function in effect
  LET alive(d) == h[d] = "held" \/ (\E t \in Threads : tl[t] = d \/ d \in Range(guards[t])) \/ mglobal = d
      kept == SelectSeq(ds, alive)
      L == {d \in Range(kept) : TRUE}
      fold(c) == IF L = {} THEN "Never"
                 ELSE IF \A d1, d2 \in L : Interest(filt'[d1], c) = Interest(filt'[d2], c)
                      THEN Interest(filt'[CHOOSE d \in L : TRUE], c) ELSE "Sometimes"
  IN /\ dispatchers' = kept
     /\ interest' = [c \in Callsites |-> IF interest[c] = "Empty" THEN "Empty" ELSE fold(c)]
     /\ maxLevel' = MaxOf({HintOrTrace(filt'[d]) : d \in L})

NewDispatch(d, f) ==
  /\ handle[d] = "unborn"
  /\ handle' = [handle EXCEPT ![d] = "held"]
  /\ filt' = [filt EXCEPT ![d] = f]
  /\ flag' = [flag EXCEPT ![d] = TRUE]
  /\ RebuildWith(Append(dispatchers, d), handle')          \* push, then rebuild (register_dispatch)
  /\ UNCHANGED <<scopes, global, tl, guards, scopedCount, mglobal>>

\* Dispatch::none(): a dispatch value over the no-op collector; it is not registered anywhere
NewNone(d) ==
  /\ handle[d] = "unborn"
  /\ handle' = [handle EXCEPT ![d] = "held"]
  /\ filt' = [filt EXCEPT ![d] = NoneFilter]
  /\ UNCHANGED <<flag, scopes, global, mvars>>

DropHandle(d) ==                                            \* no rebuild on drop
  /\ handle[d] = "held"
  /\ handle' = [handle EXCEPT ![d] = "dropped"]
  /\ UNCHANGED <<filt, flag, scopes, global, mvars>>

SetDefault(t, d) ==
  /\ handle[d] = "held"
  /\ scopes' = [scopes EXCEPT ![t] = Append(@, d)]
  /\ guards' = [guards EXCEPT ![t] = Append(@, tl[t])]      \* prior = the slot as it was (None stays None)
  /\ tl' = [tl EXCEPT ![t] = d]
  /\ scopedCount' = scopedCount + 1
  /\ UNCHANGED <<handle, filt, flag, global, dispatchers, interest, maxLevel, mglobal>>

Unset(t) ==                                                 \* innermost guard dropped (LIFO use)
  /\ scopes[t] # << >>
  /\ scopes' = [scopes EXCEPT ![t] = Front(@)]
  /\ tl' = [tl EXCEPT ![t] = Last(guards[t])]
  /\ guards' = [guards EXCEPT ![t] = Front(@)]
  /\ scopedCount' = scopedCount - 1
  /\ UNCHANGED <<handle, filt, flag, global, dispatchers, interest, maxLevel, mglobal>>

SetGlobalOk(d)  == global = NoD
SetGlobal(d) ==
  /\ handle[d] = "held"
  /\ IF global = NoD
       THEN global' = d /\ mglobal' = d
       ELSE UNCHANGED <<global, mglobal>>                   \* Err: the dispatch passed in is dropped again
  /\ UNCHANGED <<handle, filt, flag, scopes, dispatchers, interest, maxLevel, tl, guards, scopedCount>>

Emit(t, c) ==                                               \* only state change: lazy registration
  /\ IF LevelGate(c) /\ interest[c] = "Empty"
       THEN interest' = [interest EXCEPT ![c] = FoldOver(dispatchers, c)]
       ELSE UNCHANGED interest
  /\ UNCHANGED <<avars, dispatchers, maxLevel, tl, guards, scopedCount, mglobal>>

Rebuild ==
  /\ filt' = filt
  /\ RebuildWith(dispatchers, handle)
  /\ UNCHANGED <<handle, flag, scopes, global, tl, guards, scopedCount, mglobal>>

Flip(d) ==
  /\ handle[d] # "unborn" /\ filt[d].kind # "static"
  /\ flag' = [flag EXCEPT ![d] = ~@]
  /\ UNCHANGED <<handle, filt, scopes, global, mvars>>

Init ==
  /\ handle = [d \in Disp |-> "unborn"]
  /\ filt = [d \in Disp |-> CHOOSE f \in Filters : TRUE]
  /\ flag = [d \in Disp |-> TRUE]
  /\ scopes = [t \in Threads |-> << >>]
  /\ global = NoD
  /\ dispatchers = << >>
  /\ interest = [c \in Callsites |-> "Empty"]
  /\ maxLevel = 0
  /\ tl = [t \in Threads |-> NoD]
  /\ guards = [t \in Threads |-> << >>]
  /\ scopedCount = 0
  /\ mglobal = NoD

Next ==
  \/ \E d \in Disp, f \in Filters : NewDispatch(d, f)
  \/ \E d \in Disp : DropHandle(d) \/ SetGlobal(d) \/ Flip(d) \/ NewNone(d)
  \/ \E t \in Threads, d \in Disp : SetDefault(t, d)
  \/ \E t \in Threads : Unset(t)
  \/ \E t \in Threads, c \in Callsites : Emit(t, c)
  \/ Rebuild

Spec == Init /\ [][Next]_vars

(* ---------------------------- properties ------------------------------ *)
TypeOK == /\ \A d \in Disp : FilterOK(filt[d])
          /\ maxLevel \in 0..5 /\ scopedCount \in Nat
\* C02: the mechanism's current collector is the innermost scope, else the global default, else nobody
CurAgree == \A t \in Threads : MCur(t) = ACur(t)
GlobalAgree == mglobal = global
\* C01: caches only skip work - in every state, for every thread and callsite
CacheTransparent == \A t \in Threads, c \in Callsites : MGot(t, c) = AGot(t, c)
\* the collector that would receive an emission is alive (no dispatch to a dropped collector)
CurAlive == \A t \in Threads : ACur(t) # NoD => Alive(ACur(t))
\* MAX_LEVEL is never below the hint of a live registered collector
MaxLevelCovers == \A d \in Disp : (Alive(d) /\ d \in Range(dispatchers)) => maxLevel >= filt[d].thr \/ filt[d].tgts = {}
ScopedCountIsScopes == scopedCount = MaxOf({0}) + (LET S == {<<t, i>> \in Threads \X (1..8) : i <= Len(scopes[t])} IN Cardinality(S))
=============================================================================
