---------------------------- MODULE MCDispatchSim ---------------------------
(* Behaviour generator: TLC -simulate walks Dispatch, recording the action labels and arguments  *)
(* in `hist`; each finished behaviour is printed as one JSON line and replayed against the code. *)
EXTENDS Dispatch, Json
CONSTANTS MaxScopes, MaxSteps
VARIABLES hist, done
F(thr, tg, k, h) == [thr |-> thr, tgts |-> tg, kind |-> k, hint |-> h]
FiltersS == { f \in { F(thr, tg, k, h) : thr \in {0, 1, 3, 5}, tg \in {{}, {"a"}, {"a", "b"}, {"b", "c"}},
                      k \in {"static", "dyn", "lazy"}, h \in {NoHint, 1, 3, 5} } : FilterOK(f) }
Unborn == {d \in Disp : handle[d] = "unborn"}
Held == {d \in Disp : handle[d] = "held"}
H(r) == hist' = Append(hist, r) /\ done' = FALSE
\* arguments are drawn with RandomElement inside each disjunct, so a simulation step has one
\* successor per action kind instead of one per argument combination
SimNext ==
  \/ /\ Len(hist) < MaxSteps /\ ~done
     /\ \/ Unborn # {} /\ \E d \in {CHOOSE x \in Unborn : \A y \in Unborn : x <= y}, f \in {RandomElement(Filters)} : NewDispatch(d, f) /\ H([ev |-> "new", d |-> d, f |-> f])
        \/ Held # {} /\ \E d \in {RandomElement(Held)} : DropHandle(d) /\ H([ev |-> "drop", d |-> d])
        \/ Held # {} /\ \E d \in {RandomElement(Held)}, t \in {RandomElement(Threads)} : SetGlobal(d) /\ H([ev |-> "set_global", d |-> d, t |-> t])
        \/ \E d \in {RandomElement(Disp)} : Flip(d) /\ H([ev |-> "flip", d |-> d])
        \/ Held # {} /\ \E d \in {RandomElement(Held)}, t \in {RandomElement(Threads)} : Len(scopes[t]) < MaxScopes /\ SetDefault(t, d) /\ H([ev |-> "set_default", t |-> t, d |-> d])
        \/ \E t \in {RandomElement(Threads)} : Unset(t) /\ H([ev |-> "unset", t |-> t])
        \/ \E t \in {RandomElement(Threads)}, c \in {RandomElement(Callsites)}, k \in {RandomElement({"event", "span", "probe"})} : Emit(t, c) /\ H([ev |-> "emit", t |-> t, c |-> c, k |-> k])
        \/ \E t \in {RandomElement(Threads)}, c \in {RandomElement(Callsites)}, k \in {RandomElement({"event", "span"})} : Emit(t, c) /\ H([ev |-> "emit", t |-> t, c |-> c, k |-> k])
        \/ \E t \in {RandomElement(Threads)}, c \in {RandomElement(Callsites)} : Emit(t, c) /\ H([ev |-> "emit", t |-> t, c |-> c, k |-> "event"])
        \/ Rebuild /\ H([ev |-> "rebuild"])
  \/ Len(hist) = MaxSteps /\ ~done /\ done' = TRUE /\ UNCHANGED <<vars, hist>>
SimSpec == Init /\ hist = << >> /\ done = FALSE /\ [][SimNext]_<<vars, hist, done>>
Emitted == done => PrintT("@@BEH " \o ToJson([src |-> "tlc-simulate", steps |-> hist]))
=============================================================================
