---------------------------- MODULE DispatchTrace ---------------------------
(* Trace validation for C01 / C02: replays an implementation trace (harness binary `dispatch`,   *)
(* one `reset` line per behaviour/process) through the actions of Dispatch, with every argument  *)
(* bound from the log.  The verdict compares what the real code did with A only (AGot, the       *)
(* result of set_global_default); disagreement with the mechanism model M alone (MAX_LEVEL as    *)
(* read back, MGot) is recorded as drift.  All invariants of Dispatch are checked on every state.*)
EXTENDS Dispatch, Json, IOUtils

Rec == ndJsonDeserialize(IOEnv.TRACE)
VARIABLES l, bad, drift
tvars == <<vars, l, bad, drift>>

TFilters == {[thr |-> 5, tgts |-> {}, kind |-> "static", hint |-> NoHint]}
FilterOfJson(f) == [thr |-> f.thr, tgts |-> Range(f.tgts), kind |-> f.kind, hint |-> f.hint]

ResetAll ==
  /\ handle' = [d \in Disp |-> "unborn"]
  /\ filt' = [d \in Disp |-> CHOOSE f \in Filters : TRUE]
  /\ flag' = [d \in Disp |-> TRUE]
  /\ scopes' = [t \in Threads |-> << >>]
  /\ global' = NoD
  /\ dispatchers' = << >>
  /\ interest' = [c \in Callsites |-> "Empty"]
  /\ maxLevel' = 0
  /\ tl' = [t \in Threads |-> NoD]
  /\ guards' = [t \in Threads |-> << >>]
  /\ scopedCount' = 0
  /\ mglobal' = NoD

Step(e) ==
  CASE e.ev = "reset"        -> ResetAll
    [] e.ev = "new"          -> NewDispatch(e.d, FilterOfJson(e.f))
    [] e.ev = "new_none"     -> NewNone(e.d)
    [] e.ev = "drop"         -> DropHandle(e.d)
    [] e.ev = "set_default"  -> SetDefault(e.t, e.d)
    [] e.ev = "unset"        -> Unset(e.t)
    [] e.ev = "set_global"   -> SetGlobal(e.d)
    [] e.ev = "emit"         -> Emit(e.t, e.c)
    [] e.ev = "rebuild"      -> Rebuild
    [] e.ev = "flip"         -> Flip(e.d)
    [] e.ev = "panic_scopes" -> UNCHANGED vars      \* scopes opened and unwound inside one call
    [] e.ev = "crash"        -> UNCHANGED vars

\* --- the verdict: against A only, evaluated in the state BEFORE the step ---
AOk(e) ==
  \* an emission made by a collector from inside its own callback: delivered like any other, or discarded (named deviation
  \* ReentrantDiscarded: the slow path hands a re-entrant lookup the no-op collector) - never to somebody else
  CASE e.ev = "emit" /\ e.k # "probe" /\ "reentrant" \in DOMAIN e -> e.got \in {NoD, AGot(e.t, e.c)}
    [] e.ev = "emit" /\ e.k # "probe" /\ ~("reentrant" \in DOMAIN e) -> e.got = AGot(e.t, e.c)
    [] e.ev = "emit" /\ e.k = "probe"  -> TRUE      \* enabled! delivers nothing; its value is mechanism (drift)
    [] e.ev = "set_global"             -> e.ok = (global = NoD)
    [] e.ev = "panic_scopes"           -> e.panicked
    [] e.ev = "crash"                  -> FALSE
    [] e.ev = "unset"                  -> ~("panic" \in DOMAIN e)      \* closing a scope never panics
    [] OTHER                           -> TRUE
\* --- mechanism agreement (drift only) ---
MOk(e) ==
  /\ (e.ev = "emit" /\ e.k # "probe" /\ ~("reentrant" \in DOMAIN e) => e.got = MGot(e.t, e.c))
  /\ (e.ev = "emit" /\ e.k = "probe" => e.ret = (MPasses(e.t, e.c) /\ MCur(e.t) # NoD /\ Enabled(filt[MCur(e.t)], flag[MCur(e.t)], e.c)))   \* enabled! asks the current collector once more
  /\ (e.ev \notin {"reset", "crash"} => maxLevel' = e.ml)

TraceInit == Init /\ l = 0 /\ bad = << >> /\ drift = << >>
TraceNext ==
  /\ l < Len(Rec)
  /\ l' = l + 1
  /\ LET e == Rec[l + 1] IN
       /\ Step(e)
       /\ bad' = IF AOk(e) THEN bad ELSE Append(bad, l + 1)
       /\ drift' = IF MOk(e) THEN drift ELSE Append(drift, l + 1)
TraceSpec == TraceInit /\ [][TraceNext]_tvars

Report == l = Len(Rec) => PrintT("@@BAD " \o ToJson(bad)) /\ PrintT("@@DRIFT " \o ToJson(drift))
\* every line was consumed: a step whose spec action is not enabled stops the trace (generator bug)
Consumed == IF TLCGet("stats").diameter = Len(Rec) + 1 THEN TRUE
            ELSE PrintT("@@STUCK " \o ToJson(TLCGet("stats").diameter)) /\ FALSE
=============================================================================
