------------------------------ MODULE FilterExpr -----------------------------
(***************************************************************************)
(* Filter expressions of tracing-subscriber: what they DECIDE (A) and what *)
(* they PUBLISH for caching (M).  Used by C08 (summaries are sound upper   *)
(* bounds) and by C07 (the oracle for what each layer's own filters        *)
(* accept).                                                                *)
(*                                                                         *)
(* An expression is a record with a kind `k`:                              *)
(*   level(l)            LevelFilter                                       *)
(*   targets(dirs)       Targets: sequence of [t, l] (target prefix, level)*)
(*   fn(l, tgt, hint)    filter_fn(closure over metadata) [+ max-level hint]*)
(*   dyn(l, flag, hint)  dynamic_filter_fn: also reads per-call context    *)
(*                       (a harness flag, "" = none)                       *)
(*   mixed(l, flag)      a hand-written global filter layer: static `always`*)
(*                       for target "a", dynamic for everything else       *)
(*   none / some(a)      Option<F>                                         *)
(*   and(a,b) or(a,b) not(a)   FilterExt combinators                       *)
(* Metadata m = [lvl, tgt, kind]; context = set of flags that are on.      *)
(***************************************************************************)
EXTENDS Naturals, Sequences, FiniteSets, TLC

NoHint == 9
OFFL == 0

IsPrefix(p, t) == \/ p = t
                  \/ p = ""
                  \/ (p = "a" /\ t \in {"a", "a::b", "ab"})       \* str::starts_with on the target universe
                  \/ (p = "a::b" /\ t = "a::b")
                  \/ (p = "ab" /\ t = "ab")
                  \/ (p = "b" /\ t = "b")
PLen(p) == CASE p = "" -> 0 [] p = "a" -> 1 [] p = "b" -> 1 [] p = "ab" -> 2 [] p = "a::b" -> 4

(* ------------------------------ A: decisions --------------------------- *)
\* Targets: the most specific (longest) matching prefix decides; nothing matches => rejected
TargetsEnabled(dirs, m) ==
  LET ms == {i \in DOMAIN dirs : IsPrefix(dirs[i].t, m.tgt)} IN
  IF ms = {} THEN FALSE
  ELSE \* longest prefix; a directive given twice for the same target: the later one replaced the earlier
       LET best == CHOOSE i \in ms : \A j \in ms : PLen(dirs[j].t) < PLen(dirs[i].t) \/ (PLen(dirs[j].t) = PLen(dirs[i].t) /\ j <= i)
       IN m.lvl <= dirs[best].l

RECURSIVE Enabled(_, _, _)
Enabled(f, m, ctx) ==
  CASE f.k = "level"   -> m.lvl <= f.l
    [] f.k = "targets" -> TargetsEnabled(f.dirs, m)
    [] f.k = "fn"      -> m.lvl <= f.l /\ (f.tgt = "*" \/ m.tgt = f.tgt)
    [] f.k = "dyn"     -> m.lvl <= f.l /\ (f.flag = "" \/ f.flag \in ctx)
    [] f.k = "mixed"   -> m.tgt = "a" \/ (m.lvl <= f.l /\ (f.flag = "" \/ f.flag \in ctx))
    [] f.k = "none"    -> TRUE
    [] f.k = "some"    -> Enabled(f.a, m, ctx)
    [] f.k = "and"     -> Enabled(f.a, m, ctx) /\ Enabled(f.b, m, ctx)
    [] f.k = "or"      -> Enabled(f.a, m, ctx) \/ Enabled(f.b, m, ctx)
    [] f.k = "not"     -> ~Enabled(f.a, m, ctx)

(* ------------------------------ M: summaries --------------------------- *)
MaxL(S) == IF S = {} THEN OFFL ELSE CHOOSE x \in S : \A y \in S : y <= x
\* Option<LevelFilter> ordering: None < Some(_)  (NoHint is None)
HMin(a, b) == IF a = NoHint \/ b = NoHint THEN NoHint ELSE IF a <= b THEN a ELSE b
HMaxBoth(a, b) == IF a = NoHint \/ b = NoHint THEN NoHint ELSE IF a >= b THEN a ELSE b

RECURSIVE CS(_, _)
CS(f, m) ==   \* callsite_enabled: "never" | "sometimes" | "always"
  CASE f.k = "level"   -> IF m.lvl <= f.l THEN "always" ELSE "never"
    [] f.k = "targets" -> IF TargetsEnabled(f.dirs, m) THEN "always" ELSE "never"
    [] f.k = "fn"      -> IF m.lvl <= f.l /\ (f.tgt = "*" \/ m.tgt = f.tgt) THEN "always" ELSE "never"
    [] f.k = "dyn"     -> IF f.hint # NoHint /\ m.lvl > f.hint THEN "never" ELSE "sometimes"
    [] f.k = "mixed"   -> IF m.tgt = "a" THEN "always" ELSE "sometimes"
    [] f.k = "none"    -> "always"
    [] f.k = "some"    -> CS(f.a, m)
    [] f.k = "and"     -> LET a == CS(f.a, m) b == CS(f.b, m) IN
                          IF a = "never" THEN a ELSE IF b # "always" THEN b ELSE a
    [] f.k = "or"      -> LET a == CS(f.a, m) b == CS(f.b, m) IN
                          IF a = "always" \/ b = "always" THEN "always"
                          ELSE IF a = "sometimes" \/ b = "sometimes" THEN "sometimes" ELSE "never"
    [] f.k = "not"     -> LET a == CS(f.a, m) IN IF a = "always" THEN "never" ELSE IF a = "never" THEN "always" ELSE "sometimes"

RECURSIVE Hint(_)
Hint(f) ==
  CASE f.k = "level"   -> f.l
    \* (since fix F25 the max level is that of the directives in force: a replaced directive no longer counts)
    [] f.k = "targets" -> MaxL({f.dirs[i].l : i \in {j \in DOMAIN f.dirs : \A k \in DOMAIN f.dirs : k > j => f.dirs[k].t # f.dirs[j].t}})
    [] f.k = "fn"      -> f.hint
    [] f.k = "dyn"     -> f.hint
    [] f.k = "mixed"   -> NoHint
    [] f.k = "none"    -> NoHint
    [] f.k = "some"    -> Hint(f.a)
    [] f.k = "and"     -> HMin(Hint(f.a), Hint(f.b))
    [] f.k = "or"      -> HMaxBoth(Hint(f.a), Hint(f.b))
    [] f.k = "not"     -> NoHint

(* ------------------------- soundness (the property) -------------------- *)
\* cs / hint are what the filter published, en what it decided for m in ctx
Sound(cs, hint, en, m) ==
  /\ (cs = "never" => ~en)                 \* never answers 'never' for something it would accept
  /\ (cs = "always" => en)                 \* never answers 'always' for something it could reject
  /\ (hint # NoHint /\ en => m.lvl <= hint)   \* never advertises a maximum below a level it accepts

(* ------------------------- expression universe ------------------------- *)
CONSTANTS Levels, Targets, Flags
Metas == [lvl : Levels, tgt : Targets, kind : {"event", "span"}]
Ctxs == SUBSET Flags

L3 == {1, 3, 5}
Leaves ==
       {[k |-> "level", l |-> l] : l \in {0, 1, 3, 5}}
  \cup {[k |-> "targets", dirs |-> d] : d \in {<<[t |-> "a", l |-> 3]>>, <<[t |-> "a", l |-> 1], [t |-> "a::b", l |-> 5]>>,
                                              <<[t |-> "", l |-> 3], [t |-> "b", l |-> 0]>>, <<[t |-> "a::b", l |-> 3], [t |-> "a", l |-> 5]>>, << >>,
                                              <<[t |-> "a", l |-> 2], [t |-> "a::b", l |-> 1], [t |-> "a", l |-> 5]>>, <<[t |-> "a", l |-> 5], [t |-> "a", l |-> 1]>>}}
  \cup {[k |-> "fn", l |-> l, tgt |-> tg, hint |-> h] : l \in {1, 3}, tg \in {"*", "a"}, h \in {NoHint, 3}}
  \cup {[k |-> "dyn", l |-> l, flag |-> fl, hint |-> h] : l \in {1, 3}, fl \in {"", "p"}, h \in {NoHint, 3}}
  \cup {[k |-> "none"]}
Wrap(S) == {[k |-> "not", a |-> a] : a \in S} \cup {[k |-> "some", a |-> a] : a \in S}
           \cup {[k |-> o, a |-> a, b |-> b] : o \in {"and", "or"}, a \in S, b \in S}
Depth1 == Leaves
Depth2 == Leaves \cup Wrap(Leaves)
=============================================================================
