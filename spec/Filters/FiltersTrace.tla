---------------------------- MODULE FiltersTrace ----------------------------
(* Validates what REAL filters published (callsite_enabled, max_level_hint) and decided (enabled), *)
(* as logged by the harness binary `filters` through a Spy, one line per (expression, context)     *)
(* with one entry per metadata.  Verdict (A): Sound() on the real values.  Drift: the real values   *)
(* differ from the formulas of Filters (CS, Hint, Enabled).                                         *)
EXTENDS Filters, Json, IOUtils

Rec == ndJsonDeserialize(IOEnv.TRACE)
VARIABLES l, bad, drift
tvars == <<f, l, bad, drift>>
SetOf(q) == {q[i] : i \in DOMAIN q}

RealSound(r) == /\ ~("panic" \in DOMAIN r)
                /\ \A i \in DOMAIN r.res : /\ r.res[i].cs \in {"never", "sometimes", "always"}
                                           /\ r.res[i].en \in BOOLEAN
                                           /\ Sound(r.res[i].cs, r.hint, r.res[i].en, r.res[i].m)
AsModel(r) == /\ r.hint = Hint(r.f)
              /\ \A i \in DOMAIN r.res : /\ r.res[i].cs = CS(r.f, r.res[i].m)
                                         /\ r.res[i].en = Enabled(r.f, r.res[i].m, SetOf(r.ctx))

TraceInit == l = 0 /\ bad = << >> /\ drift = << >> /\ f = [k |-> "none"]
TraceNext ==
  /\ l < Len(Rec)
  /\ l' = l + 1
  /\ LET r == Rec[l + 1] IN
       IF r.ev = "reset" THEN UNCHANGED <<f, bad, drift>>
       ELSE /\ f' = r.f
            /\ bad' = (IF RealSound(r) THEN bad ELSE Append(bad, l + 1))
            /\ drift' = (IF ~RealSound(r) \/ AsModel(r) THEN drift ELSE Append(drift, l + 1))
TraceSpec == TraceInit /\ [][TraceNext]_tvars
Report == l = Len(Rec) => PrintT("@@BAD " \o ToJson(bad)) /\ PrintT("@@DRIFT " \o ToJson(drift))
Consumed == IF TLCGet("stats").diameter = Len(Rec) + 1 THEN TRUE
            ELSE PrintT("@@STUCK " \o ToJson(TLCGet("stats").diameter)) /\ FALSE
=============================================================================
