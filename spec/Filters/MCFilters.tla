----------------------------- MODULE MCFilters ------------------------------
EXTENDS Filters, Json, IOUtils, SequencesExt
\* depth-3 sample for simulation-style sweeps: combinators over depth-2 on the left, leaves on the right
Depth3Sample == Depth2 \cup {[k |-> o, a |-> a, b |-> b] : o \in {"and", "or"}, a \in Wrap(Leaves), b \in Leaves}
                       \cup {[k |-> "not", a |-> a] : a \in Wrap(Leaves)}
ExprSeq == SetToSeq(Depth2)
Export == TLCGet("stats").distinct = Cardinality(Depth2) /\ ndJsonSerialize(IOEnv.CASES_OUT, ExprSeq)
Init3 == f \in Depth3Sample
Spec3 == Init3 /\ [][Next]_f
Export3 == TLCGet("stats").distinct = Cardinality(Depth3Sample) /\ ndJsonSerialize(IOEnv.CASES_OUT, SetToSeq(Depth3Sample))
=============================================================================
