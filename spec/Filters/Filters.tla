------------------------------ MODULE Filters -------------------------------
(* C08: enumeration of the filter expressions of FilterExpr as a specification (one state per    *)
(* expression); the invariant is the soundness of the summaries the code's formulas publish.     *)
EXTENDS FilterExpr

VARIABLE f
Init == f \in Depth2
Next == UNCHANGED f
Spec == Init /\ [][Next]_f

\* the combinator formulas of the code are sound for every expression, metadata and context
SummariesSound == \A m \in Metas, c \in Ctxs : Sound(CS(f, m), Hint(f), Enabled(f, m, c), m)
=============================================================================
