SPECIFICATION Spec3
CONSTANTS
  Levels = {1, 2, 3, 4, 5}
  Targets = {"a", "a::b", "ab", "b"}
  Flags = {"p"}
INVARIANT SummariesSound
POSTCONDITION Export3
CHECK_DEADLOCK FALSE
