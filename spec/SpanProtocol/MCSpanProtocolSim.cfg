SPECIFICATION SimSpec
CONSTANTS
  Threads = {1, 2, 3}
  Disp = {1, 2, 3}
  HS = {1, 2, 3, 4, 5}
  GS = {1, 2, 3, 4}
  FS = {1, 2}
  MaxPerDisp = 50
  MaxSteps = 40
INVARIANT Emitted
INVARIANT Good
CHECK_DEADLOCK FALSE
