SPECIFICATION SimSpec
CONSTANTS
  Threads = {1, 2, 3}
  Disp = {1, 2, 3}
  HS = {1, 2, 3, 4, 5, 6, 7}
  GS = {1, 2, 3, 4, 5}
  FS = {1, 2, 3}
  MaxPerDisp = 50
  MaxSteps = 160
INVARIANT Emitted
INVARIANT Good
CHECK_DEADLOCK FALSE
