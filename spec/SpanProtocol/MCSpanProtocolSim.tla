------------------------- MODULE MCSpanProtocolSim --------------------------
(* Program generator: TLC -simulate walks SpanProtocol choosing one enabled operation at random  *)
(* per step; each finished program is printed as one JSON line and run against the real API.     *)
EXTENDS SpanProtocol, Json
CONSTANT MaxSteps
VARIABLES hist, done
Enabled == {op \in Ops : NeedsFree(op) /\ Canon(op) /\ Pre(op) /\ (op.op = "new" /\ cur[op.t] # NoD => nxt[cur[op.t]] < MaxPerDisp)}
\* bias: spans are only interesting under a collector
Weighted == LET E == Enabled
                sw == {op \in E : op.op = "switch"}
            IN IF \A t \in Threads : cur[t] = NoD THEN (IF sw # {} THEN sw ELSE E) ELSE E
SimNext ==
  \/ /\ Len(hist) < MaxSteps /\ ~done
     /\ LET W == Weighted IN
        \E k \in {RandomElement({op.op : op \in W})} :      \* first the kind of operation, then an instance
        \E op \in {RandomElement({o \in W : o.op = k})} : Do(op, MCalls(op)) /\ hist' = Append(hist, op) /\ done' = FALSE
  \/ Len(hist) = MaxSteps /\ ~done /\ done' = TRUE /\ UNCHANGED <<vars, hist>>
SimSpec == Init /\ hist = << >> /\ done = FALSE /\ [][SimNext]_<<vars, hist, done>>
Emitted == done => PrintT("@@BEH " \o ToJson([src |-> "tlc-simulate", acc |-> acc, alias |-> alias, steps |-> hist]))
=============================================================================
