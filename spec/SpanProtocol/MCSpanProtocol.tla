--------------------------- MODULE MCSpanProtocol ---------------------------
EXTENDS SpanProtocol
CONSTANT MaxSteps
VARIABLE steps
MCInit == Init /\ steps = 0
MCNext == steps < MaxSteps /\ Next /\ steps' = steps + 1
MCSpec == MCInit /\ [][MCNext]_<<vars, steps>>
View == <<cur, acc, alias, hs, gs, fs, nxt, refs, ent, good>>
=============================================================================
