SPECIFICATION MCSpec
CONSTANTS
  Threads = {1, 2}
  Disp = {1, 2}
  HS = {1, 2, 3}
  GS = {1, 2}
  FS = {1}
  MaxPerDisp = 2
  MaxSteps = 6
VIEW View
INVARIANT Good
CHECK_DEADLOCK FALSE
