SPECIFICATION TraceSpec
CONSTANTS
  Threads = {0, 1, 2, 3}
  Disp = {1, 2, 3}
  HS = {1, 2, 3, 4, 5, 6, 7, 8}
  GS = {1, 2, 3, 4, 5, 6}
  FS = {1, 2, 3}
  MaxPerDisp = 1000
INVARIANT Report
POSTCONDITION Consumed
CHECK_DEADLOCK FALSE
