------------------------- MODULE SpanProtocolTrace --------------------------
(* Trace validation for C03: every logged operation is replayed through Do(op, calls) with the   *)
(* calls the recording collectors actually received.  `bad` collects the lines at which the       *)
(* monitor (A) turns false; `drift` the lines where the observed calls differ from MCalls (M).    *)
EXTENDS SpanProtocol, Json, IOUtils

Rec == ndJsonDeserialize(IOEnv.TRACE)
VARIABLES l, bad, drift
tvars == <<vars, l, bad, drift>>

AccOf(r) == [d \in Disp |-> IF d <= Len(r.acc) THEN r.acc[d] ELSE FALSE]
Reset(r) ==
  /\ cur' = [t \in Threads |-> NoD]
  /\ acc' = AccOf(r)
  /\ alias' = [d \in Disp |-> IF d <= Len(r.alias) THEN r.alias[d] ELSE FALSE]
  /\ hs' = [h \in HS |-> [st |-> "free", id |-> 0]]
  /\ gs' = [g \in GS |-> [st |-> "free", h |-> 0, t |-> 0, depth |-> 0]]
  /\ fs' = [f \in FS |-> [st |-> "free", h |-> 0]]
  /\ nxt' = [d \in Disp |-> 0]
  /\ refs' = << >>
  /\ ent' = [t \in Threads |-> << >>]
  /\ good' = TRUE
  /\ lastop' = [op |-> "init"]

\* the id Span::id() reports for the handle an operation produced
HidOk(r) ==
  CASE r.op = "new"     -> r.hid = FirstId(r.calls, "new_span")
    [] r.op = "current" -> r.hid = FirstRet(r.calls, "clone_span")
    [] r.op = "clone"   -> r.hid = FirstRet(r.calls, "clone_span")
    [] OTHER -> TRUE

TraceInit == Init /\ acc = [d \in Disp |-> FALSE] /\ alias = [d \in Disp |-> FALSE] /\ l = 0 /\ bad = << >> /\ drift = << >>
TraceNext ==
  /\ l < Len(Rec)
  /\ l' = l + 1
  /\ LET r == Rec[l + 1] IN
       CASE r.ev = "reset" -> Reset(r) /\ UNCHANGED <<bad, drift>>
         [] r.ev = "quiesce" -> Quiesce(r.calls) /\ bad' = (IF good' \/ ~good THEN bad ELSE Append(bad, l + 1)) /\ UNCHANGED drift
         [] r.ev = "crash" -> UNCHANGED vars /\ bad' = Append(bad, l + 1) /\ UNCHANGED drift
         [] r.ev = "op" ->
              /\ Do(r, r.calls)
              /\ bad' = (IF (good' /\ HidOk(r) /\ ~("panic" \in DOMAIN r)) \/ ~good THEN bad ELSE Append(bad, l + 1))
              /\ drift' = (IF r.calls = MCalls(r) THEN drift ELSE Append(drift, l + 1))
TraceSpec == TraceInit /\ [][TraceNext]_tvars

Report == l = Len(Rec) => PrintT("@@BAD " \o ToJson(bad)) /\ PrintT("@@DRIFT " \o ToJson(drift))
Consumed == IF TLCGet("stats").diameter = Len(Rec) + 1 THEN TRUE
            ELSE PrintT("@@STUCK " \o ToJson(TLCGet("stats").diameter)) /\ FALSE
=============================================================================
