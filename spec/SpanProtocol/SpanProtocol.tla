---------------------------- MODULE SpanProtocol ----------------------------
(***************************************************************************)
(* C03 - Span handles drive their collector through a balanced protocol.   *)
(*                                                                         *)
(* A *program* is a sequence of operations over the tracing::Span API      *)
(* (new with contextual / root / explicit parent, clone, drop, enter,      *)
(* entered, exit in any order, in_scope, record, follows_from,             *)
(* Span::current, or_current, instrument / poll / drop / into_inner of a   *)
(* future), run by several threads under switching default collectors.     *)
(* Every operation yields the list of calls the collectors received.       *)
(*                                                                         *)
(* A (the property): a monitor over those calls, independent of how the    *)
(*   API is implemented - per span id: one creation; reference count       *)
(*   1 + clones - closes equals the number of handles the program holds    *)
(*   (so one clone per additional handle, one close per dropped handle);   *)
(*   per thread and id: enters - exits equals the number of live guards,   *)
(*   never negative, on the calling thread; every call about an id goes to *)
(*   the collector that created it; nothing after the final close; a       *)
(*   disabled span causes no calls.                                        *)
(* M (tracing/src/span.rs, instrument.rs): MCalls(op) - the exact calls    *)
(*   each API operation makes.                                             *)
(* TLC explores every program up to the bounds and checks that the calls   *)
(* of M satisfy the monitor (Good).  In trace validation the calls come    *)
(* from the recording collectors instead of M.                             *)
(***************************************************************************)
EXTENDS Naturals, Sequences, FiniteSets, TLC

CONSTANTS Threads, Disp,
          HS,           \* handle slots
          GS,           \* guard slots
          FS,           \* future slots
          MaxPerDisp    \* spans per collector in the model

NoD == 0
Owner(id) == id \div 1000           \* recording collectors number their spans d*1000 + k

VARIABLES
  cur,      \* [Threads -> Disp \cup {NoD}]   the thread's default collector
  acc,      \* [Disp -> BOOLEAN]              whether the collector enables the span callsite "x" (it always enables "a")
  alias,    \* [Disp -> BOOLEAN]              whether the collector's clone_span returns a fresh id for the new handle
  hs,       \* [HS -> [st, id]]  st: "free" | "live" | "none" (a disabled Span value) | "fut"/"nfut" (live/disabled, inside an Instrumented) | "own"/"nown" (inside an EnteredSpan)
  gs,       \* [GS -> [st, h, t]] st: "free" | "borrow" (Span::enter guard) | "own" (EnteredSpan) | "scope" (in_scope frame)
  fs,       \* [FS -> [st, h]]    st: "free" | "live"
  nxt,      \* [Disp -> Nat] spans created so far at each collector (M only)
  (* monitor state, driven by the observed calls only *)
  refs,     \* function: id -> 1 + clones - closes, for every id ever created
  ent,      \* [Threads -> Seq(id)] enters not yet exited, per thread
  good,     \* FALSE as soon as an operation's calls break the property
  lastop    \* the last operation (for error traces / replay)

vars == <<cur, acc, alias, hs, gs, fs, nxt, refs, ent, good, lastop>>

Ids(h) == hs[h].id
HoldsSpan(h) == hs[h].st \in {"live", "fut", "own"}
\* what the PROGRAM holds: handles per id, guards per (thread, id)
NH(id) == Cardinality({h \in HS : HoldsSpan(h) /\ hs[h].id = id})
NG(t, id) == Cardinality({g \in GS : gs[g].st # "free" /\ gs[g].t = t /\ hs[gs[g].h].id = id /\ HoldsSpan(gs[g].h)})
Count(s, x) == Cardinality({i \in DOMAIN s : s[i] = x})

Call(c, col, id, th) == [call |-> c, col |-> col, id |-> id, th |-> th, ret |-> 0]
CallR(c, col, id, th, ret) == [call |-> c, col |-> col, id |-> id, th |-> th, ret |-> ret]

(* --------------------------- the monitor (A) --------------------------- *)
RemoveLast(s, x) == LET i == CHOOSE j \in DOMAIN s : s[j] = x /\ \A k \in DOMAIN s : s[k] = x => k <= j
                    IN SubSeq(s, 1, i - 1) \o SubSeq(s, i + 1, Len(s))
RECURSIVE Mon(_, _, _)
\* m = [refs, ent, ok]; folds the calls of one operation executed by thread t (t = 0: any thread, used at quiescence)
Mon(cs, t, m) ==
  IF cs = << >> THEN m ELSE
  LET c == Head(cs)
      known == c.id \in DOMAIN m.refs
      base == /\ c.col = Owner(c.id)                            \* goes to the collector that created the span
              /\ (c.call # "new_span" => known /\ m.refs[c.id] > 0)   \* nothing after the final close
      m2 == CASE c.call = "new_span" ->
                   [m EXCEPT !.ok = @ /\ ~known /\ c.col = Owner(c.id), !.refs = (c.id :> 1) @@ @]
              [] c.call = "clone_span" ->     \* the collector may hand out a different id for the new handle (c.ret)
                   [m EXCEPT !.ok = @ /\ base /\ c.col = Owner(c.ret) /\ (c.ret # c.id => c.ret \notin DOMAIN m.refs),
                             !.refs = IF c.ret \in DOMAIN @ THEN [@ EXCEPT ![c.ret] = @ + 1] ELSE (c.ret :> 1) @@ @]
              [] c.call = "try_close" ->
                   [m EXCEPT !.ok = @ /\ base, !.refs = IF known /\ @[c.id] > 0 THEN [@ EXCEPT ![c.id] = @ - 1] ELSE @]
              [] c.call = "enter" ->
                   [m EXCEPT !.ok = @ /\ base /\ (t = 0 \/ c.th = t), !.ent = [@ EXCEPT ![c.th] = Append(@, c.id)]]
              [] c.call = "exit" ->          \* preceded by an unmatched enter of the same id on the same thread
                   IF Count(m.ent[c.th], c.id) > 0
                   THEN [m EXCEPT !.ok = @ /\ base /\ (t = 0 \/ c.th = t), !.ent = [@ EXCEPT ![c.th] = RemoveLast(@, c.id)]]
                   ELSE [m EXCEPT !.ok = FALSE]
              [] OTHER -> [m EXCEPT !.ok = @ /\ base]           \* record, follows_from
  IN Mon(Tail(cs), t, m2)

\* program-level bookkeeping agrees with what the collectors were told (checked on the post-state)
Counts == /\ \A id \in DOMAIN refs : refs[id] = NH(id)
          /\ \A t \in Threads : \A id \in DOMAIN refs : Count(ent[t], id) = NG(t, id)
          /\ \A h \in HS : HoldsSpan(h) => hs[h].id \in DOMAIN refs

(* ----------------------- the implementation (M) ------------------------ *)
Free(S, f) == {x \in S : f[x].st = "free"}
\* the span a thread's default collector d reports as current: the recording collector keeps its own
\* per-thread stack and answers with its top if that span is still known to it
TopOf(t, d) == LET own == SelectSeq(ent[t], LAMBDA id : Owner(id) = d)
               IN IF own = << >> THEN 0 ELSE IF refs[own[Len(own)]] > 0 THEN own[Len(own)] ELSE 0

CloneCall(id, t) == CallR("clone_span", Owner(id), id, t, IF alias[Owner(id)] THEN Owner(id) * 1000 + nxt[Owner(id)] + 1 ELSE id)
MCalls(op) ==
  LET t == op.t IN
  CASE op.op = "new" ->
         IF cur[t] # NoD /\ (op.tgt = "a" \/ acc[cur[t]]) THEN << Call("new_span", cur[t], cur[t] * 1000 + nxt[cur[t]] + 1, t) >> ELSE << >>
    [] op.op = "clone" -> IF HoldsSpan(op.h) THEN << CloneCall(Ids(op.h), t) >> ELSE << >>
    [] op.op = "drop" -> IF HoldsSpan(op.h) THEN << Call("try_close", Owner(Ids(op.h)), Ids(op.h), t) >> ELSE << >>
    [] op.op \in {"enter", "entered", "scope_begin"} ->
         IF HoldsSpan(op.h) THEN << Call("enter", Owner(Ids(op.h)), Ids(op.h), t) >> ELSE << >>
    [] op.op \in {"exit", "scope_end", "exit_entered"} ->
         LET h == gs[op.g].h IN IF HoldsSpan(h) THEN << Call("exit", Owner(Ids(h)), Ids(h), t) >> ELSE << >>
    [] op.op = "drop_entered" ->
         LET h == gs[op.g].h IN IF HoldsSpan(h) THEN << Call("exit", Owner(Ids(h)), Ids(h), t), Call("try_close", Owner(Ids(h)), Ids(h), t) >> ELSE << >>
    [] op.op = "record" -> IF HoldsSpan(op.h) THEN << Call("record", Owner(Ids(op.h)), Ids(op.h), t) >> ELSE << >>
    [] op.op = "follows" -> IF HoldsSpan(op.h) /\ HoldsSpan(op.h2) THEN << Call("follows_from", Owner(Ids(op.h)), Ids(op.h), t) >> ELSE << >>
    [] op.op = "current" ->
         IF cur[t] # NoD /\ TopOf(t, cur[t]) # 0 THEN << CloneCall(TopOf(t, cur[t]), t) >> ELSE << >>
    [] op.op = "or_current" ->
         IF ~HoldsSpan(op.h) /\ cur[t] # NoD /\ TopOf(t, cur[t]) # 0 THEN << CloneCall(TopOf(t, cur[t]), t) >> ELSE << >>
    [] op.op = "instrument" -> << >>
    \* in_scope / enter guard / poll whose body panics: the unwinding still exits
    [] op.op \in {"scope_panic", "enter_panic"} ->
         IF HoldsSpan(op.h) THEN << Call("enter", Owner(Ids(op.h)), Ids(op.h), t), Call("exit", Owner(Ids(op.h)), Ids(op.h), t) >> ELSE << >>
    [] op.op = "poll" ->
         LET h == fs[op.f].h IN IF HoldsSpan(h) THEN << Call("enter", Owner(Ids(h)), Ids(h), t), Call("exit", Owner(Ids(h)), Ids(h), t) >> ELSE << >>
    [] op.op = "drop_fut" ->
         LET h == fs[op.f].h IN IF HoldsSpan(h) THEN << Call("enter", Owner(Ids(h)), Ids(h), t), Call("exit", Owner(Ids(h)), Ids(h), t),
                                                        Call("try_close", Owner(Ids(h)), Ids(h), t) >> ELSE << >>
    [] op.op = "into_inner" ->
         LET h == fs[op.f].h IN IF HoldsSpan(h) THEN << Call("try_close", Owner(Ids(h)), Ids(h), t) >> ELSE << >>
    [] op.op = "switch" -> << >>

(* -------------- program-level effect of an operation ------------------- *)
FirstId(cs, c) == LET s == SelectSeq(cs, LAMBDA x : x.call = c) IN IF s = << >> THEN 0 ELSE s[1].id

InGuardOf(h, t) == hs[h].st \in {"own", "nown"} /\ \E g \in GS : gs[g].st = "own" /\ gs[g].h = h /\ gs[g].t = t
FirstRet(cs, c) == LET s == SelectSeq(cs, LAMBDA x : x.call = c) IN IF s = << >> THEN 0 ELSE s[1].ret

Pre(op) ==
  \* (a handle that lives inside an owned entered guard can still be named as explicit parent - `parent: &guard` - and cloned -
  \* `guard.clone()` yields a Span through Deref - by the thread that holds the guard)
  CASE op.op = "new" -> hs[op.h].st = "free" /\ (op.pk = "of" => hs[op.p].st \in {"live", "none"} \/ InGuardOf(op.p, op.t))
    [] op.op = "clone" -> (hs[op.h].st \in {"live", "none"} \/ InGuardOf(op.h, op.t)) /\ hs[op.h2].st = "free"
    [] op.op = "drop" -> hs[op.h].st \in {"live", "none"} /\ \A g \in GS : ~(gs[g].st \in {"borrow", "scope"} /\ gs[g].h = op.h)
    [] op.op \in {"enter", "scope_begin"} -> hs[op.h].st \in {"live", "none"} /\ gs[op.g].st = "free"
                                            /\ (op.op = "scope_begin" => TRUE)
    [] op.op = "entered" -> hs[op.h].st \in {"live", "none"} /\ gs[op.g].st = "free"
                            /\ \A g \in GS : ~(gs[g].st \in {"borrow", "scope"} /\ gs[g].h = op.h)
    [] op.op = "exit" -> gs[op.g].st = "borrow" /\ gs[op.g].t = op.t
    [] op.op = "scope_end" -> gs[op.g].st = "scope" /\ gs[op.g].t = op.t
                              \* closures nest: only the innermost open in_scope frame of the thread can end
                              /\ \A g2 \in GS : (gs[g2].st = "scope" /\ gs[g2].t = op.t) => gs[g2].depth <= gs[op.g].depth
    [] op.op \in {"exit_entered", "drop_entered"} -> gs[op.g].st = "own" /\ gs[op.g].t = op.t
    [] op.op \in {"record", "scope_panic", "enter_panic"} -> hs[op.h].st \in {"live", "none"}
    [] op.op = "follows" -> hs[op.h].st \in {"live", "none"} /\ hs[op.h2].st \in {"live", "none"}
    [] op.op = "current" -> hs[op.h].st = "free"
    [] op.op = "or_current" -> hs[op.h].st \in {"live", "none"} /\ \A g \in GS : ~(gs[g].st \in {"borrow", "scope"} /\ gs[g].h = op.h)
    [] op.op = "instrument" -> hs[op.h].st \in {"live", "none"} /\ fs[op.f].st = "free"
                               /\ \A g \in GS : ~(gs[g].st \in {"borrow", "scope"} /\ gs[g].h = op.h)
    [] op.op \in {"poll", "drop_fut", "into_inner"} -> fs[op.f].st = "live"
    [] op.op = "switch" -> \A g \in GS : ~(gs[g].st = "scope" /\ gs[g].t = op.t) \* (a scoped default opened inside an in_scope closure would have to close inside it)

ScopeDepth(t) == Cardinality({g \in GS : gs[g].st = "scope" /\ gs[g].t = t})

Effect(op, cs) ==
  CASE op.op = "new" ->
         LET id == FirstId(cs, "new_span") IN
         /\ hs' = [hs EXCEPT ![op.h] = IF id # 0 THEN [st |-> "live", id |-> id] ELSE [st |-> "none", id |-> 0]]
         /\ UNCHANGED <<gs, fs, cur>>
    [] op.op = "clone" -> LET id == FirstRet(cs, "clone_span") IN
                          hs' = [hs EXCEPT ![op.h2] = IF id # 0 THEN [st |-> "live", id |-> id] ELSE [st |-> "none", id |-> 0]] /\ UNCHANGED <<gs, fs, cur>>
    [] op.op = "drop" -> hs' = [hs EXCEPT ![op.h] = [st |-> "free", id |-> 0]] /\ UNCHANGED <<gs, fs, cur>>
    [] op.op = "enter" -> gs' = [gs EXCEPT ![op.g] = [st |-> "borrow", h |-> op.h, t |-> op.t, depth |-> 0]] /\ UNCHANGED <<hs, fs, cur>>
    [] op.op = "scope_begin" -> gs' = [gs EXCEPT ![op.g] = [st |-> "scope", h |-> op.h, t |-> op.t, depth |-> ScopeDepth(op.t) + 1]] /\ UNCHANGED <<hs, fs, cur>>
    [] op.op = "entered" -> /\ gs' = [gs EXCEPT ![op.g] = [st |-> "own", h |-> op.h, t |-> op.t, depth |-> 0]]
                            /\ hs' = [hs EXCEPT ![op.h] = [@ EXCEPT !.st = IF @ = "live" THEN "own" ELSE "nown"]]
                            /\ UNCHANGED <<fs, cur>>
    [] op.op \in {"exit", "scope_end"} -> gs' = [gs EXCEPT ![op.g] = [st |-> "free", h |-> op.h, t |-> op.t, depth |-> 0]] /\ UNCHANGED <<hs, fs, cur>>
    [] op.op = "exit_entered" -> /\ gs' = [gs EXCEPT ![op.g] = [st |-> "free", h |-> op.h, t |-> op.t, depth |-> 0]]
                                 /\ hs' = [hs EXCEPT ![gs[op.g].h] = [@ EXCEPT !.st = IF @ = "own" THEN "live" ELSE "none"]]
                                 /\ UNCHANGED <<fs, cur>>
    [] op.op = "drop_entered" -> /\ gs' = [gs EXCEPT ![op.g] = [st |-> "free", h |-> op.h, t |-> op.t, depth |-> 0]]
                                 /\ hs' = [hs EXCEPT ![gs[op.g].h] = [st |-> "free", id |-> 0]]
                                 /\ UNCHANGED <<fs, cur>>
    [] op.op \in {"record", "follows", "scope_panic", "enter_panic"} -> UNCHANGED <<hs, gs, fs, cur>>
    [] op.op = "current" ->
         LET id == FirstRet(cs, "clone_span") IN
         /\ hs' = [hs EXCEPT ![op.h] = IF id # 0 THEN [st |-> "live", id |-> id] ELSE [st |-> "none", id |-> 0]]
         /\ UNCHANGED <<gs, fs, cur>>
    [] op.op = "or_current" ->
         LET id == FirstRet(cs, "clone_span") IN
         /\ hs' = IF HoldsSpan(op.h) THEN hs
                  ELSE [hs EXCEPT ![op.h] = IF id # 0 THEN [st |-> "live", id |-> id] ELSE [st |-> "none", id |-> 0]]
         /\ UNCHANGED <<gs, fs, cur>>
    [] op.op = "instrument" -> /\ fs' = [fs EXCEPT ![op.f] = [st |-> "live", h |-> op.h]]
                               /\ hs' = [hs EXCEPT ![op.h] = [@ EXCEPT !.st = IF @ = "live" THEN "fut" ELSE "nfut"]]
                               /\ UNCHANGED <<gs, cur>>
    [] op.op = "poll" -> UNCHANGED <<hs, gs, fs, cur>>
    [] op.op \in {"drop_fut", "into_inner"} ->
                         /\ fs' = [fs EXCEPT ![op.f] = [st |-> "free", h |-> op.h]]
                         /\ hs' = [hs EXCEPT ![fs[op.f].h] = [st |-> "free", id |-> 0]]
                         /\ UNCHANGED <<gs, cur>>
    [] op.op = "switch" -> cur' = [cur EXCEPT ![op.t] = op.d] /\ UNCHANGED <<hs, gs, fs>>

\* operation-level obligations of A that are not captured by the counts:
\* a disabled span (handle state "none") causes no collector calls at all
Quiet(op, cs) ==
  LET hnone(h) == hs[h].st \in {"none", "nown", "nfut"} IN
  CASE op.op \in {"clone", "drop", "enter", "entered", "scope_begin", "record", "instrument", "scope_panic", "enter_panic"} -> (hnone(op.h) => cs = << >>)
    [] op.op \in {"exit", "scope_end", "exit_entered", "drop_entered"} -> (hnone(gs[op.g].h) => cs = << >>)
    [] op.op \in {"poll", "drop_fut", "into_inner"} -> (hnone(fs[op.f].h) => cs = << >>)
    [] OTHER -> TRUE

Do(op, cs) ==
  /\ Pre(op)
  /\ Effect(op, cs)
  /\ LET m == Mon(cs, op.t, [refs |-> refs, ent |-> ent, ok |-> TRUE]) IN
       /\ refs' = m.refs /\ ent' = m.ent
       /\ good' = (good /\ m.ok /\ Quiet(op, cs) /\ Counts')
  /\ lastop' = op
  /\ nxt' = [d \in Disp |-> nxt[d] + Cardinality({i \in DOMAIN cs : cs[i].col = d /\ (cs[i].call = "new_span" \/ (cs[i].call = "clone_span" /\ cs[i].ret # cs[i].id))})]
  /\ acc' = acc /\ alias' = alias

\* the program ends: every handle, guard and future it still holds is dropped (guards first)
Quiesce(cs) ==
  /\ hs' = [h \in HS |-> [st |-> "free", id |-> 0]]
  /\ gs' = [g \in GS |-> [st |-> "free", h |-> 0, t |-> 0, depth |-> 0]]
  /\ fs' = [f \in FS |-> [st |-> "free", h |-> 0]]
  /\ LET m == Mon(cs, 0, [refs |-> refs, ent |-> ent, ok |-> TRUE]) IN
       /\ refs' = m.refs /\ ent' = m.ent
       /\ good' = (good /\ m.ok /\ Counts')
  /\ lastop' = [op |-> "quiesce"]
  /\ UNCHANGED <<cur, acc, alias, nxt>>
\* M's calls at quiescence: guards exit (borrowing guards, in_scope frames, EnteredSpans), EnteredSpans and
\* futures and plain handles close; the order among different objects is not prescribed here
(* ----------------------------- model ----------------------------------- *)
Ops ==
  {[op |-> "new", t |-> t, h |-> h, pk |-> pk, p |-> p, tgt |-> tg] : t \in Threads, h \in HS, pk \in {"ctx", "root", "of"}, p \in HS, tg \in {"a", "x"}}
  \cup {[op |-> "clone", t |-> t, h |-> h, h2 |-> h2] : t \in Threads, h \in HS, h2 \in HS}
  \cup {[op |-> o, t |-> t, h |-> h] : o \in {"drop", "record", "current", "or_current", "scope_panic", "enter_panic"}, t \in Threads, h \in HS}
  \cup {[op |-> o, t |-> t, h |-> h, g |-> g] : o \in {"enter", "entered", "scope_begin"}, t \in Threads, h \in HS, g \in GS}
  \cup {[op |-> o, t |-> t, g |-> g, h |-> 0] : o \in {"exit", "scope_end", "exit_entered", "drop_entered"}, t \in Threads, g \in GS}
  \cup {[op |-> "follows", t |-> t, h |-> h, h2 |-> h2] : t \in Threads, h \in HS, h2 \in HS}
  \cup {[op |-> "instrument", t |-> t, h |-> h, f |-> f, lib |-> lb] : t \in Threads, h \in HS, f \in FS, lb \in {"tracing", "futures"}}
  \cup {[op |-> o, t |-> t, f |-> f, h |-> 0] : o \in {"poll", "drop_fut", "into_inner"}, t \in Threads, f \in FS}
  \cup {[op |-> "switch", t |-> t, d |-> d] : t \in Threads, d \in Disp \cup {NoD}}

Canon(op) == \* symmetry breaking of slot choice: use the smallest free slot; explicit parent only with pk = "of"
  /\ (op.op = "new" => op.h = CHOOSE x \in Free(HS, hs) : \A y \in Free(HS, hs) : x <= y)
  /\ (op.op = "new" /\ op.pk # "of" => op.p = op.h)
  /\ (op.op = "clone" => op.h2 = CHOOSE x \in Free(HS, hs) : \A y \in Free(HS, hs) : x <= y)
  /\ (op.op = "current" => op.h = CHOOSE x \in Free(HS, hs) : \A y \in Free(HS, hs) : x <= y)
  /\ (op.op \in {"enter", "entered", "scope_begin"} => op.g = CHOOSE x \in Free(GS, gs) : \A y \in Free(GS, gs) : x <= y)
  /\ (op.op = "instrument" => op.f = CHOOSE x \in Free(FS, fs) : \A y \in Free(FS, fs) : x <= y)

Init ==
  /\ cur = [t \in Threads |-> NoD]
  /\ acc \in [Disp -> BOOLEAN]
  /\ alias \in [Disp -> BOOLEAN]
  /\ hs = [h \in HS |-> [st |-> "free", id |-> 0]]
  /\ gs = [g \in GS |-> [st |-> "free", h |-> 0, t |-> 0, depth |-> 0]]
  /\ fs = [f \in FS |-> [st |-> "free", h |-> 0]]
  /\ nxt = [d \in Disp |-> 0]
  /\ refs = << >>
  /\ ent = [t \in Threads |-> << >>]
  /\ good = TRUE
  /\ lastop = [op |-> "init"]

NeedsFree(op) == (op.op \in {"new", "current"} => Free(HS, hs) # {}) /\ (op.op = "clone" => Free(HS, hs) # {})
                 /\ (op.op \in {"enter", "entered", "scope_begin"} => Free(GS, gs) # {})
                 /\ (op.op = "instrument" => Free(FS, fs) # {})
Next == \E op \in Ops : NeedsFree(op) /\ Canon(op) /\ Pre(op)
                        /\ (op.op = "new" /\ cur[op.t] # NoD => nxt[cur[op.t]] < MaxPerDisp)
                        /\ Do(op, MCalls(op))
Spec == Init /\ [][Next]_vars

Good == good
=============================================================================
