SPECIFICATION Spec
CONSTANTS
  Producers = {1, 2}
  LinesPer = 2
  K = 1
  Lossy = FALSE
  MaxFaults = 2
INVARIANT AtMostOnce
INVARIANT OnlyOffered
INVARIANT InAcceptanceOrder
INVARIANT NonLossyNoDrops
INVARIANT EarlyAcceptedAreWritten
INVARIANT GuardReleases
PROPERTY Eventually
CHECK_DEADLOCK FALSE
