-------------------------- MODULE NonBlockingTrace --------------------------
(* Trace validation for C15: the totally ordered event log of one scenario (producer write.start / *)
(* write.end, the underlying writer's w.line / w.fail / w.partial / w.flush / w.drop, the guard's   *)
(* drop start / end, the final dropped-lines counter) is checked against A of NonBlocking, stated   *)
(* directly on the events.  `bad`: violations; `f18`: accepted-but-never-written lines offered      *)
(* while or after the guard was dropped (known finding F18).                                        *)
EXTENDS Naturals, Sequences, FiniteSets, TLC, Json, IOUtils

Rec == ndJsonDeserialize(IOEnv.TRACE)
VARIABLES l, bad, f18,
          lossy, started, ended, endedBefore, attempts, lastFlush, wdropped, dropBegun, d0, inflight0, early, rejected, racing, dropEnded
tvars == <<l, bad, f18, lossy, started, ended, endedBefore, attempts, lastFlush, wdropped, dropBegun, d0, inflight0, early, rejected, racing, dropEnded>>

LineOf(r) == <<r.p, r.i>>
SetOf(q) == {q[i] : i \in DOMAIN q}
Unattempted(S) == Cardinality(S \ SetOf(attempts))

Reset(r) ==
  /\ lossy' = r.lossy /\ started' = {} /\ ended' = {} /\ endedBefore' = << >> /\ attempts' = << >>
  /\ lastFlush' = TRUE /\ wdropped' = FALSE /\ dropBegun' = FALSE /\ d0' = 0 /\ inflight0' = 0 /\ early' = {} /\ rejected' = {} /\ racing' = {} /\ dropEnded' = FALSE

AttemptOk(x) == /\ x \in started /\ x \notin rejected                                   \* only offered lines
                /\ x \notin SetOf(attempts)                        \* at most once
                /\ \A b \in SetOf(attempts) : x \notin endedBefore[b]   \* acceptance order: x was accepted before b was offered => written first
                /\ ~wdropped

Step(r) ==
  CASE r.ev = "write.start" ->
         /\ started' = started \cup {LineOf(r)}
         /\ endedBefore' = (LineOf(r) :> ended) @@ endedBefore
         /\ racing' = IF dropBegun /\ ~dropEnded THEN racing \cup {LineOf(r)} ELSE racing
         /\ UNCHANGED <<ended, attempts, lastFlush, wdropped, dropBegun, d0, inflight0, early, lossy, rejected, dropEnded>>
    [] r.ev = "write.end" ->       \* a write that returns an error did not accept the line (non-lossy, worker gone)
         /\ ended' = ended \cup {LineOf(r)}
         /\ rejected' = IF r.ok THEN rejected ELSE rejected \cup {LineOf(r)}
         /\ UNCHANGED <<started, endedBefore, attempts, lastFlush, wdropped, dropBegun, d0, inflight0, early, lossy, racing, dropEnded>>
    [] r.ev \in {"w.line", "w.fail"} ->
         /\ attempts' = Append(attempts, LineOf(r)) /\ lastFlush' = FALSE
         /\ UNCHANGED <<started, ended, endedBefore, wdropped, dropBegun, d0, inflight0, early, lossy, rejected, racing, dropEnded>>
    [] r.ev = "w.flush" -> lastFlush' = TRUE /\ UNCHANGED <<started, ended, endedBefore, attempts, wdropped, dropBegun, d0, inflight0, early, lossy, rejected, racing, dropEnded>>
    [] r.ev = "w.drop" -> wdropped' = TRUE /\ UNCHANGED <<started, ended, endedBefore, attempts, lastFlush, dropBegun, d0, inflight0, early, lossy, rejected, racing, dropEnded>>
    [] r.ev = "guard.drop.start" ->
         /\ dropBegun' = TRUE /\ d0' = r.dropped /\ early' = ended /\ inflight0' = Cardinality(started \ ended)
         /\ racing' = started \ ended
         /\ UNCHANGED <<started, ended, endedBefore, attempts, lastFlush, wdropped, lossy, rejected, dropEnded>>
    [] r.ev = "guard.drop.end" ->
         /\ dropEnded' = TRUE
         /\ UNCHANGED <<started, ended, endedBefore, attempts, lastFlush, wdropped, dropBegun, d0, inflight0, early, lossy, rejected, racing>>
    [] OTHER -> UNCHANGED <<started, ended, endedBefore, attempts, lastFlush, wdropped, dropBegun, d0, inflight0, early, lossy, rejected, racing, dropEnded>>

\* every early line (its write returned before the guard's drop began) is attempted or counted as dropped, never both
EarlyAccounted == LET u == Unattempted(early \ rejected) IN u <= d0 /\ u + inflight0 >= d0

Ok(r) ==
  CASE r.ev \in {"w.line", "w.fail"} -> AttemptOk(LineOf(r))
    [] r.ev = "w.partial" -> FALSE                                         \* a torn or merged line
    [] r.ev = "write.end" -> LineOf(r) \in started /\ (lossy => r.ok) /\ (~r.ok => wdropped)   \* only a worker that is gone may refuse a line
    [] r.ev = "stall" -> FALSE
    [] r.ev = "guard.drop.end" ->                                          \* everything accepted before the drop was written, flushed, writer released
         /\ r.ms < 900 /\ wdropped /\ lastFlush /\ EarlyAccounted
         /\ (~lossy => Unattempted(early \ rejected) = 0)
    \* bulk scenarios (many producers hammering a full queue, no per-line events): conservation of lines --
    \* every offered line is written exactly once or counted as dropped exactly once (lossy), written (non-lossy)
    [] r.ev = "bulk.final" -> /\ r.written + r.dropped = r.offered
                              /\ (~lossy => r.dropped = 0)
                              /\ r.partial = 0
    [] r.ev = "final" -> /\ (~lossy => r.dropped = 0)
                         /\ dropBegun /\ EarlyAccounted
                         /\ Cardinality(SetOf(attempts)) + r.dropped <= Cardinality(started \ rejected)
                         \* only lines that raced with the guard's drop may be unaccounted for (finding F18); a line offered
                         \* after the drop returned must be counted (lossy) or refused (non-lossy)
                         /\ Cardinality(started \ rejected) - Cardinality(SetOf(attempts)) - r.dropped <= Cardinality(racing \ SetOf(attempts))
    [] OTHER -> TRUE
\* finding F18: at the end, lines offered while/after the guard was dropped that were neither written nor counted
F18(r) == r.ev = "final" /\ Ok(r)
          /\ Cardinality(SetOf(attempts)) + r.dropped < Cardinality(started \ rejected)

TraceInit == /\ l = 0 /\ bad = << >> /\ f18 = << >> /\ lossy = TRUE /\ started = {} /\ ended = {} /\ endedBefore = << >> /\ attempts = << >>
             /\ lastFlush = TRUE /\ wdropped = FALSE /\ dropBegun = FALSE /\ d0 = 0 /\ inflight0 = 0 /\ early = {} /\ rejected = {} /\ racing = {} /\ dropEnded = FALSE
TraceNext ==
  /\ l < Len(Rec)
  /\ l' = l + 1
  /\ LET r == Rec[l + 1] IN
       IF r.ev = "reset" THEN Reset(r) /\ UNCHANGED <<bad, f18>>
       ELSE IF r.ev = "crash" THEN bad' = Append(bad, l + 1) /\ UNCHANGED <<f18, lossy, started, ended, endedBefore, attempts, lastFlush, wdropped, dropBegun, d0, inflight0, early, rejected, racing, dropEnded>>
       ELSE /\ bad' = (IF Ok(r) THEN bad ELSE Append(bad, l + 1))
            /\ f18' = (IF F18(r) THEN Append(f18, l + 1) ELSE f18)
            /\ Step(r)
TraceSpec == TraceInit /\ [][TraceNext]_tvars
Report == l = Len(Rec) => PrintT("@@BAD " \o ToJson(bad)) /\ PrintT("@@F18 " \o ToJson(f18))
Consumed == IF TLCGet("stats").diameter = Len(Rec) + 1 THEN TRUE
            ELSE PrintT("@@STUCK " \o ToJson(TLCGet("stats").diameter)) /\ FALSE
=============================================================================
