----------------------------- MODULE NonBlocking ----------------------------
(***************************************************************************)
(* C15 - the non-blocking writer neither loses, duplicates nor reorders    *)
(* accepted lines.                                                         *)
(*                                                                         *)
(* M (tracing-appender/src/{non_blocking,worker}.rs): producers offering   *)
(* lines into a bounded channel (lossy: try_send, a full queue counts a    *)
(* drop; non-lossy: blocking send), the worker loop (blocking recv, then   *)
(* try_recv until empty, then flush; an I/O error aborts the batch; a      *)
(* Shutdown message or a disconnect ends the worker, which drops the       *)
(* writer and meets the guard at a rendez-vous), the guard's drop (send    *)
(* Shutdown, rendez-vous, join).  Any write or flush may fail.             *)
(* Time-outs of the guard are modelled as never firing.                    *)
(*                                                                         *)
(* A, as invariants over the history the underlying writer sees:           *)
(* each attempted write is one offered line, whole, at most once, in       *)
(* per-producer order and in acceptance order; lossy: attempted + dropped  *)
(* = offered for the lines offered before the guard's drop began;          *)
(* non-lossy: nothing dropped; once the guard's drop has returned, every   *)
(* line accepted before it began was attempted, a flush followed the last  *)
(* write, and the writer was released.  Lines offered while or after the   *)
(* guard is dropped may be accepted and never written (finding F18); they  *)
(* are tracked by `late` and excluded from the accounting.                 *)
(***************************************************************************)
EXTENDS Naturals, Sequences, FiniteSets, TLC

CONSTANTS Producers, LinesPer, K, Lossy, MaxFaults

Line(p, i) == <<p, i>>
ShutdownMsg == <<0, 0>>
AllLines == {Line(p, i) : p \in Producers, i \in 1..LinesPer}

VARIABLES
  nextLine,   \* [Producers -> 1..LinesPer+1]
  queue,      \* Seq of lines or "Shutdown"
  dropped,    \* the error counter
  accepted,   \* Seq of lines in the order they entered the queue (ghost)
  late,       \* lines offered after the guard's drop began (ghost)
  attempts,   \* Seq of [line, ok]: write_all calls on the underlying writer, in order
  flushedAfterLastWrite,
  wpc,        \* worker: "recv" | "drain" | "flush" | "exiting" | "rendezvous" | "gone"
  wstate,     \* WorkerState of the current batch: "Continue" | "Empty" | "Shutdown"
  writerDropped,
  gpc,        \* guard: "alive" | "sending" | "rendezvous" | "joining" | "dropped"
  faults

vars == <<nextLine, queue, dropped, accepted, late, attempts, flushedAfterLastWrite, wpc, wstate, writerDropped, gpc, faults>>

ReceiverAlive == wpc # "gone"

Offer(p) ==
  /\ nextLine[p] <= LinesPer
  /\ LET ln == Line(p, nextLine[p]) IN
     /\ late' = IF gpc # "alive" THEN late \cup {ln} ELSE late
     /\ IF ~ReceiverAlive
          THEN /\ Lossy                                  \* try_send on a disconnected channel: counted
               /\ dropped' = dropped + 1 /\ UNCHANGED <<queue, accepted>>
          ELSE IF Len(queue) < K
                 THEN queue' = Append(queue, ln) /\ accepted' = Append(accepted, ln) /\ dropped' = dropped
                 ELSE /\ Lossy                           \* non-lossy: the producer waits (action not enabled)
                      /\ dropped' = dropped + 1 /\ UNCHANGED <<queue, accepted>>
  /\ nextLine' = [nextLine EXCEPT ![p] = @ + 1]
  /\ UNCHANGED <<attempts, flushedAfterLastWrite, wpc, wstate, writerDropped, gpc, faults>>

\* --- worker ---
WriteLine(ln, ok) ==
  /\ attempts' = Append(attempts, [line |-> ln, ok |-> ok])
  /\ flushedAfterLastWrite' = FALSE
  /\ faults' = IF ok THEN faults ELSE faults + 1

Recv ==      \* blocking recv at the start of a batch
  /\ wpc = "recv" /\ queue # << >>
  /\ queue' = Tail(queue)
  /\ IF Head(queue) = ShutdownMsg
       THEN wstate' = "Shutdown" /\ wpc' = "flush" /\ UNCHANGED <<attempts, flushedAfterLastWrite, faults>>
       ELSE \E ok \in BOOLEAN : /\ (ok \/ faults < MaxFaults)
                                /\ WriteLine(Head(queue), ok)
                                /\ IF ok THEN wstate' = "Continue" /\ wpc' = "drain"
                                         ELSE wstate' = wstate /\ wpc' = "recv"        \* `?`: the batch is abandoned, no flush
  /\ UNCHANGED <<nextLine, dropped, accepted, late, writerDropped, gpc>>

Drain ==     \* try_recv
  /\ wpc = "drain"
  /\ IF queue = << >>
       THEN wstate' = "Empty" /\ wpc' = "flush" /\ UNCHANGED <<queue, attempts, flushedAfterLastWrite, faults>>
       ELSE /\ queue' = Tail(queue)
            /\ IF Head(queue) = ShutdownMsg
                 THEN wstate' = "Shutdown" /\ wpc' = "flush" /\ UNCHANGED <<attempts, flushedAfterLastWrite, faults>>
                 ELSE \E ok \in BOOLEAN : /\ (ok \/ faults < MaxFaults)
                                          /\ WriteLine(Head(queue), ok)
                                          /\ IF ok THEN wstate' = "Continue" /\ wpc' = "drain"
                                                   ELSE wstate' = wstate /\ wpc' = "recv"
  /\ UNCHANGED <<nextLine, dropped, accepted, late, writerDropped, gpc>>

Flush ==
  /\ wpc = "flush"
  /\ \E ok \in BOOLEAN :
       /\ (ok \/ faults < MaxFaults)
       /\ faults' = IF ok THEN faults ELSE faults + 1
       /\ flushedAfterLastWrite' = TRUE                 \* a flush CALL followed the last write (it may itself fail)
       /\ wpc' = IF wstate = "Shutdown" THEN "exiting" ELSE "recv"      \* the shutdown state survives a failed flush
  /\ UNCHANGED <<nextLine, queue, dropped, accepted, late, attempts, wstate, writerDropped, gpc>>

Exit ==      \* drop(writer), then wait at the rendez-vous
  /\ wpc = "exiting"
  /\ writerDropped' = TRUE /\ wpc' = "rendezvous"
  /\ UNCHANGED <<nextLine, queue, dropped, accepted, late, attempts, flushedAfterLastWrite, wstate, gpc, faults>>

\* --- guard ---
GuardBegin == gpc = "alive" /\ gpc' = "sending"
              /\ UNCHANGED <<nextLine, queue, dropped, accepted, late, attempts, flushedAfterLastWrite, wpc, wstate, writerDropped, faults>>
GuardSend == /\ gpc = "sending" /\ Len(queue) < K
             /\ queue' = Append(queue, ShutdownMsg) /\ gpc' = "rendezvous"
             /\ UNCHANGED <<nextLine, dropped, accepted, late, attempts, flushedAfterLastWrite, wpc, wstate, writerDropped, faults>>
Rendezvous == /\ gpc = "rendezvous" /\ wpc = "rendezvous"
              /\ gpc' = "dropped" /\ wpc' = "gone"
              /\ UNCHANGED <<nextLine, queue, dropped, accepted, late, attempts, flushedAfterLastWrite, wstate, writerDropped, faults>>

Init ==
  /\ nextLine = [p \in Producers |-> 1] /\ queue = << >> /\ dropped = 0 /\ accepted = << >> /\ late = {}
  /\ attempts = << >> /\ flushedAfterLastWrite = TRUE /\ wpc = "recv" /\ wstate = "Empty" /\ writerDropped = FALSE
  /\ gpc = "alive" /\ faults = 0

Next == (\E p \in Producers : Offer(p)) \/ Recv \/ Drain \/ Flush \/ Exit \/ GuardBegin \/ GuardSend \/ Rendezvous
Spec == Init /\ [][Next]_vars /\ WF_vars(Recv) /\ WF_vars(Drain) /\ WF_vars(Flush) /\ WF_vars(Exit)
            /\ WF_vars(GuardBegin) /\ WF_vars(GuardSend) /\ WF_vars(Rendezvous) /\ \A p \in Producers : WF_vars(Offer(p))

(* ------------------------------ A --------------------------------------- *)
Lines(q) == {q[i].line : i \in DOMAIN q}
Offered == {Line(p, i) : p \in Producers, i \in 1..LinesPer} \cap {Line(p, i) : p \in Producers, i \in 1..(LinesPer + 1)}
OfferedSoFar == {ln \in AllLines : ln[2] < nextLine[ln[1]]}
\* each attempt is an offered line, at most once
AtMostOnce == \A i, j \in DOMAIN attempts : i # j => attempts[i].line # attempts[j].line
OnlyOffered == Lines(attempts) \subseteq OfferedSoFar
\* in acceptance order (which contains per-producer order): attempts is a prefix-respecting subsequence of `accepted`
InAcceptanceOrder == \A i, j \in DOMAIN attempts : i < j =>
                        \E a, b \in DOMAIN accepted : a < b /\ accepted[a] = attempts[i].line /\ accepted[b] = attempts[j].line
NonLossyNoDrops == ~Lossy => dropped = 0
\* the lines of the accounting: offered before the guard's drop began
Early == OfferedSoFar \ late
Quiescent == gpc = "dropped" /\ \A p \in Producers : nextLine[p] = LinesPer + 1
\* every early line was either attempted or counted as dropped - each exactly one of the two
Accounting == Quiescent => Cardinality(Lines(attempts) \cap Early) + (dropped - Cardinality({ln \in late : ln \notin Lines(attempts) /\ ln \notin {accepted[i] : i \in DOMAIN accepted}})) >= Cardinality(Early)
EarlyAcceptedAreWritten == gpc = "dropped" => \A i \in DOMAIN accepted : accepted[i] \notin late => accepted[i] \in Lines(attempts)
GuardReleases == gpc = "dropped" => writerDropped /\ flushedAfterLastWrite
\* a failed write affects only that line: every accepted early line is attempted even if others failed (covered by
\* EarlyAcceptedAreWritten), and a failed attempt is never retried (AtMostOnce)
Eventually == <>(gpc = "dropped")
\* without the exclusion of `late` lines the property fails (finding F18): expected to be violated
AllAcceptedWritten == Quiescent => \A i \in DOMAIN accepted : accepted[i] \in Lines(attempts)
=============================================================================
