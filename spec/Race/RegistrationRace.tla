-------------------------- MODULE RegistrationRace --------------------------
(***************************************************************************)
(* C04 (and the registry side of C12) - the mechanism at the granularity   *)
(* of each atomic operation and lock acquisition:                          *)
(*  tracing/src/lib.rs   MacroCallsite::{interest, register}: the interest *)
(*                       byte, the UNREGISTERED/REGISTERING/REGISTERED CAS *)
(*  tracing-core/src/callsite.rs  register (read lock: compute interest    *)
(*                       over the live registrars, set_interest, lock-free *)
(*                       push: load head, store next, CAS), register_      *)
(*                       dispatch / rebuild_interest_cache (write lock:    *)
(*                       push registrar, prune dead, re-fold every         *)
(*                       registered callsite one at a time, set MAX_LEVEL) *)
(*  tracing-core/src/dispatch.rs  the thread's scoped default.             *)
(* Threads run small scripts (hit c, new+install d, drop d, rebuild).      *)
(* Checked for every interleaving: no deadlock; a delivery only to a       *)
(* collector that accepts; a hit on a thread whose own collector was       *)
(* installed earlier is judged by that collector; at quiescence nothing is *)
(* stranded (every listed callsite was offered to every live collector,    *)
(* the cached interest and MAX_LEVEL admit everything a live collector     *)
(* accepts).                                                               *)
(***************************************************************************)
EXTENDS Naturals, Sequences, FiniteSets, TLC

CONSTANTS Threads, Disp, Callsites,      \* callsite = [lvl, tgt]
          Filt,                          \* [Disp -> [thr, tgts, kind ("static" | "dyn"), hint (0..5 or 9)]]
          Scripts                        \* [Threads -> Seq(op)]  op = [op |-> "hit", c] | [op |-> "new", d] | [op |-> "drop"] | [op |-> "rebuild"]

Accepts(d, c) == c.lvl <= Filt[d].thr /\ c.tgt \in Filt[d].tgts
InterestOf(d, c) == IF ~Accepts(d, c) THEN "Never" ELSE IF Filt[d].kind = "static" THEN "Always" ELSE "Sometimes"
HintOf(d) == IF Filt[d].hint = 9 THEN 5 ELSE Filt[d].hint
And(a, b) == IF a = b THEN a ELSE "Sometimes"
MaxOf(S) == IF S = {} THEN 0 ELSE CHOOSE x \in S : \A y \in S : y <= x
SetOf(q) == {q[i] : i \in DOMAIN q}

VARIABLES
  pc,          \* [Threads -> label]
  ip,          \* [Threads -> index into the script]
  cur,         \* [Threads -> Disp \cup {0}]   the thread's scoped default
  loc,         \* [Threads -> record of locals]
  alive,       \* [Disp -> BOOLEAN]
  registrars,  \* Seq(Disp)
  readers, writer,      \* the dispatchers RwLock: set of reading threads, writing thread or 0
  interest,    \* [Callsites -> {"Empty","Never","Sometimes","Always"}]
  regstate,    \* [Callsites -> 0..2]
  head, nxt,   \* lock-free list: head (a callsite or "nil"), nxt[c]
  maxLevel,
  offered,     \* ghost: [Disp -> SUBSET Callsites]  register_callsite(d, c) was called
  delivered    \* ghost: Seq of [t, c, d, own]  (own = the thread's collector at the time)

vars == <<pc, ip, cur, loc, alive, registrars, readers, writer, interest, regstate, head, nxt, maxLevel, offered, delivered>>

Nil == [lvl |-> 0, tgt |-> "nil"]
RECURSIVE Walk(_, _)
Walk(h, fuel) == IF h = Nil \/ fuel = 0 THEN << >> ELSE <<h>> \o Walk(nxt[h], fuel - 1)
Listed == SetOf(Walk(head, Cardinality(Callsites) + 1))
Op(t) == Scripts[t][ip[t]]
Live == {d \in SetOf(registrars) : alive[d]}
Fold(c) == IF Live = {} THEN "Never"
           ELSE LET one == CHOOSE d \in Live : TRUE IN
                IF \A d \in Live : InterestOf(d, c) = InterestOf(one, c) THEN InterestOf(one, c) ELSE "Sometimes"

Goto(t, l) == pc' = [pc EXCEPT ![t] = l]
NextOp(t) == /\ ip' = [ip EXCEPT ![t] = @ + 1]
             /\ pc' = [pc EXCEPT ![t] = IF ip[t] + 1 > Len(Scripts[t]) THEN "done" ELSE "fetch"]
U(vs) == UNCHANGED vs

(* ------------------------------- steps --------------------------------- *)
Fetch(t) == /\ pc[t] = "fetch"
            /\ Goto(t, CASE Op(t).op = "hit" -> "h_gate" [] Op(t).op = "new" -> "w_lock" [] Op(t).op = "rebuild" -> "w_lock" [] Op(t).op = "drop" -> "drop")
            /\ loc' = [loc EXCEPT ![t] = [int |-> "Empty", h |-> Nil, todo |-> << >>, isnew |-> Op(t).op = "new"]]
            /\ U(<<ip, cur, alive, registrars, readers, writer, interest, regstate, head, nxt, maxLevel, offered, delivered>>)

\* ---- hit(c): level_enabled!, interest(), register(), is_enabled(), dispatch
HGate(t) == /\ pc[t] = "h_gate"
            /\ IF Op(t).c.lvl <= maxLevel THEN Goto(t, "h_load") /\ U(<<ip>>) ELSE NextOp(t)
            /\ U(<<cur, loc, alive, registrars, readers, writer, interest, regstate, head, nxt, maxLevel, offered, delivered>>)
HLoad(t) == /\ pc[t] = "h_load"
            /\ IF interest[Op(t).c] = "Empty" THEN Goto(t, "r_cas") /\ loc' = loc
               ELSE Goto(t, "h_decide") /\ loc' = [loc EXCEPT ![t].int = interest[Op(t).c]]
            /\ U(<<ip, cur, alive, registrars, readers, writer, interest, regstate, head, nxt, maxLevel, offered, delivered>>)
RCas(t) ==  /\ pc[t] = "r_cas"
            /\ LET c == Op(t).c IN
               CASE regstate[c] = 0 -> regstate' = [regstate EXCEPT ![c] = 1] /\ Goto(t, "r_lock") /\ loc' = loc
                 [] regstate[c] = 2 -> regstate' = regstate /\ Goto(t, "r_reload") /\ loc' = loc
                 [] regstate[c] = 1 -> regstate' = regstate /\ Goto(t, "h_decide") /\ loc' = [loc EXCEPT ![t].int = "Sometimes"]   \* somebody else is registering
            /\ U(<<ip, cur, alive, registrars, readers, writer, interest, head, nxt, maxLevel, offered, delivered>>)
RLock(t) == /\ pc[t] = "r_lock" /\ writer = 0                               \* read lock
            /\ readers' = readers \cup {t} /\ Goto(t, "r_compute")
            /\ U(<<ip, cur, loc, alive, registrars, writer, interest, regstate, head, nxt, maxLevel, offered, delivered>>)
RCompute(t) == /\ pc[t] = "r_compute"                                       \* register_callsite on every live registrar, fold
               /\ loc' = [loc EXCEPT ![t].int = Fold(Op(t).c)]
               /\ offered' = [d \in Disp |-> IF d \in Live THEN offered[d] \cup {Op(t).c} ELSE offered[d]]
               /\ Goto(t, "r_store")
               /\ U(<<ip, cur, alive, registrars, readers, writer, interest, regstate, head, nxt, maxLevel, delivered>>)
RStore(t) == /\ pc[t] = "r_store"
             /\ interest' = [interest EXCEPT ![Op(t).c] = loc[t].int] /\ Goto(t, "p_load")
             /\ U(<<ip, cur, loc, alive, registrars, readers, writer, regstate, head, nxt, maxLevel, offered, delivered>>)
PLoad(t) ==  /\ pc[t] = "p_load" /\ loc' = [loc EXCEPT ![t].h = head] /\ Goto(t, "p_next")
             /\ U(<<ip, cur, alive, registrars, readers, writer, interest, regstate, head, nxt, maxLevel, offered, delivered>>)
PNext(t) ==  /\ pc[t] = "p_next" /\ nxt' = [nxt EXCEPT ![Op(t).c] = loc[t].h] /\ Goto(t, "p_cas")
             /\ U(<<ip, cur, loc, alive, registrars, readers, writer, interest, regstate, head, maxLevel, offered, delivered>>)
PCas(t) ==   /\ pc[t] = "p_cas"
             /\ IF head = loc[t].h THEN head' = Op(t).c /\ Goto(t, "r_unlock") /\ loc' = loc
                                   ELSE head' = head /\ loc' = [loc EXCEPT ![t].h = head] /\ Goto(t, "p_next")   \* retry re-stores next
             /\ U(<<ip, cur, alive, registrars, readers, writer, interest, regstate, nxt, maxLevel, offered, delivered>>)
RUnlock(t) == /\ pc[t] = "r_unlock" /\ readers' = readers \ {t} /\ Goto(t, "r_done")
              /\ U(<<ip, cur, loc, alive, registrars, writer, interest, regstate, head, nxt, maxLevel, offered, delivered>>)
RDone(t) ==  /\ pc[t] = "r_done" /\ regstate' = [regstate EXCEPT ![Op(t).c] = 2] /\ Goto(t, "r_reload")
             /\ U(<<ip, cur, loc, alive, registrars, readers, writer, interest, head, nxt, maxLevel, offered, delivered>>)
RReload(t) == /\ pc[t] = "r_reload"
              /\ loc' = [loc EXCEPT ![t].int = IF interest[Op(t).c] \in {"Never", "Always"} THEN interest[Op(t).c] ELSE "Sometimes"]
              /\ Goto(t, "h_decide")
              /\ U(<<ip, cur, alive, registrars, readers, writer, interest, regstate, head, nxt, maxLevel, offered, delivered>>)
HDecide(t) == /\ pc[t] = "h_decide"
              /\ LET c == Op(t).c d == cur[t]
                     pass == loc[t].int # "Never" /\ (loc[t].int = "Always" \/ (d # 0 /\ Accepts(d, c)))
                     \* seen: had register_callsite(d, c) been called when the collector received / was asked about c ?
                 IN delivered' = IF pass /\ d # 0 THEN Append(delivered, [t |-> t, c |-> c, d |-> d, ok |-> Accepts(d, c), seen |-> c \in offered[d]])
                                 ELSE IF d # 0 /\ Accepts(d, c) THEN Append(delivered, [t |-> t, c |-> c, d |-> 0, ok |-> FALSE, seen |-> TRUE])   \* a missed delivery
                                 ELSE delivered
              /\ NextOp(t)
              /\ U(<<cur, loc, alive, registrars, readers, writer, interest, regstate, head, nxt, maxLevel, offered>>)

\* ---- Dispatch::new(d) + set_default / rebuild_interest_cache
WLock(t) == /\ pc[t] = "w_lock" /\ writer = 0 /\ readers = {}
            /\ writer' = t /\ Goto(t, IF loc[t].isnew THEN "w_push" ELSE "w_prune")
            /\ U(<<ip, cur, loc, alive, registrars, readers, interest, regstate, head, nxt, maxLevel, offered, delivered>>)
WPush(t) == /\ pc[t] = "w_push"
            /\ registrars' = Append(registrars, Op(t).d) /\ alive' = [alive EXCEPT ![Op(t).d] = TRUE] /\ Goto(t, "w_prune")
            /\ U(<<ip, cur, loc, readers, writer, interest, regstate, head, nxt, maxLevel, offered, delivered>>)
WPrune(t) == /\ pc[t] = "w_prune"
             /\ registrars' = SelectSeq(registrars, LAMBDA d : alive[d])
             /\ loc' = [loc EXCEPT ![t].todo = Walk(head, Cardinality(Callsites) + 1)]      \* for_each starts from the head as it is now
             /\ Goto(t, "w_each")
             /\ U(<<ip, cur, alive, readers, writer, interest, regstate, head, nxt, maxLevel, offered, delivered>>)
WEach(t) == /\ pc[t] = "w_each"
            /\ IF loc[t].todo = << >> THEN Goto(t, "w_max") /\ U(<<loc, interest, offered>>)
               ELSE LET c == Head(loc[t].todo) IN
                    /\ interest' = [interest EXCEPT ![c] = Fold(c)]
                    /\ offered' = [d \in Disp |-> IF d \in Live THEN offered[d] \cup {c} ELSE offered[d]]
                    /\ loc' = [loc EXCEPT ![t].todo = Tail(@)] /\ U(<<pc>>)
            /\ U(<<ip, cur, alive, registrars, readers, writer, regstate, head, nxt, maxLevel, delivered>>)
WMax(t) ==  /\ pc[t] = "w_max" /\ maxLevel' = MaxOf({HintOf(d) : d \in Live}) /\ Goto(t, "w_unlock")
            /\ U(<<ip, cur, loc, alive, registrars, readers, writer, interest, regstate, head, nxt, offered, delivered>>)
WUnlock(t) == /\ pc[t] = "w_unlock" /\ writer' = 0
              /\ cur' = (IF loc[t].isnew THEN [cur EXCEPT ![t] = Op(t).d] ELSE cur)        \* set_default: thread-local
              /\ NextOp(t)
              /\ U(<<loc, alive, registrars, readers, interest, regstate, head, nxt, maxLevel, offered, delivered>>)
Drop(t) ==  /\ pc[t] = "drop"
            /\ alive' = (IF cur[t] = 0 THEN alive ELSE [alive EXCEPT ![cur[t]] = FALSE])
            /\ cur' = [cur EXCEPT ![t] = 0]
            /\ NextOp(t)
            /\ U(<<loc, registrars, readers, writer, interest, regstate, head, nxt, maxLevel, offered, delivered>>)

Step(t) == Fetch(t) \/ HGate(t) \/ HLoad(t) \/ RCas(t) \/ RLock(t) \/ RCompute(t) \/ RStore(t) \/ PLoad(t) \/ PNext(t) \/ PCas(t)
           \/ RUnlock(t) \/ RDone(t) \/ RReload(t) \/ HDecide(t) \/ WLock(t) \/ WPush(t) \/ WPrune(t) \/ WEach(t) \/ WMax(t) \/ WUnlock(t) \/ Drop(t)

Init == /\ pc = [t \in Threads |-> IF Scripts[t] = << >> THEN "done" ELSE "fetch"] /\ ip = [t \in Threads |-> 1]
        /\ cur = [t \in Threads |-> 0]
        /\ loc = [t \in Threads |-> [int |-> "Empty", h |-> Nil, todo |-> << >>, isnew |-> FALSE]]
        /\ alive = [d \in Disp |-> FALSE] /\ registrars = << >> /\ readers = {} /\ writer = 0
        /\ interest = [c \in Callsites |-> "Empty"] /\ regstate = [c \in Callsites |-> 0]
        /\ head = Nil /\ nxt = [c \in Callsites |-> Nil] /\ maxLevel = 0
        /\ offered = [d \in Disp |-> {}] /\ delivered = << >>
AllDone == \A t \in Threads : pc[t] = "done"
Next == (\E t \in Threads : Step(t)) \/ (AllDone /\ UNCHANGED vars)
Spec == Init /\ [][Next]_vars /\ \A t \in Threads : WF_vars(Step(t))

(* ------------------------------ properties ------------------------------ *)
\* a delivery goes only to a collector that accepts it, and a thread's own installed collector never misses one
JudgedByOwnCollector == \A i \in DOMAIN delivered : delivered[i].ok
\* NOT an invariant of the code (known finding F20): a collector receives an emission of a callsite that was never offered to it --
\* the thread that loses the REGISTERING race proceeds with `sometimes` before the winner's register_callsite pass has run.
\* Stateful filters (EnvFilter's by_cs table) depend on having been offered the callsite first.
OfferedBeforeUse == \A i \in DOMAIN delivered : delivered[i].seen
NoDeadlock == AllDone \/ \E t \in Threads : ENABLED Step(t)
\* nothing stranded once the activity has quiesced
Quiescent == AllDone =>
  /\ \A d \in Live : Listed \subseteq offered[d]                               \* every callsite was offered to every live collector
  /\ \A c \in Listed : \A d \in Live : Accepts(d, c) => interest[c] # "Never"   \* not left permanently disabled
  /\ \A c \in Listed : interest[c] = "Always" => \A d \in Live : Accepts(d, c)
  /\ \A d \in Live : maxLevel >= (IF Filt[d].tgts = {} THEN 0 ELSE Filt[d].thr) \* the global level is not left too low
  /\ \A c \in Callsites : regstate[c] = 2 <=> c \in Listed                      \* the list has every registered callsite, once
Terminates == <>AllDone
=============================================================================
