------------------------------ MODULE RaceTrace -----------------------------
(***************************************************************************)
(* C04 / C12 - abstract verdict on scheduled multi-threaded runs.          *)
(*                                                                         *)
(* A run is a set of threads, each installing its own collector (or using  *)
(* a shared reloadable stack), hitting callsites for the first time while  *)
(* others create / install / drop collectors, rebuild the interest cache,  *)
(* set the global default or reload a filter, interleaved at the atomic    *)
(* operations and lock acquisitions of the registration / dispatch paths   *)
(* by the cooperative scheduler.  What must hold does NOT depend on the    *)
(* interleaving:                                                           *)
(*  - nobody deadlocks or panics;                                          *)
(*  - an emission on a thread whose own collector d was installed earlier  *)
(*    by that thread is delivered iff d's filter accepts it - to d, never  *)
(*    to anybody else (C04: judged by the collector whose installation     *)
(*    completed; never delivered to a collector that rejects);             *)
(*  - with a reloadable filter (C12): an emission is judged by a value     *)
(*    that was in effect at some moment of the emission - the value of the *)
(*    last reload that returned before it started, or of a reload          *)
(*    overlapping it - never by an older one;                              *)
(*  - at quiescence every live collector receives exactly what it accepts  *)
(*    from every callsite (nothing stranded), and MAX_LEVEL covers them;   *)
(*  - set_global_default succeeds exactly once.                            *)
(***************************************************************************)
EXTENDS Integers, Sequences, FiniteSets, TLC, Json, IOUtils

Rec == ndJsonDeserialize(IOEnv.TRACE)
VARIABLES l, bad, cfg, globalOks, sw
tvars == <<l, bad, cfg, globalOks, sw>>
SetOf(q) == {q[i] : i \in DOMAIN q}

\* collectors' own filters (the records of spec/Dispatch; the dynamic flag is on in these scenarios)
StaticPart(f, c) == c.lvl <= f.thr /\ c.tgt \in SetOf(f.tgts)
\* a switchable collector (kind "sw") accepts nothing while it is off; it starts off, is flipped by its own thread (which
\* then rebuilds the interest cache), and sw is the set of collectors that are on
Accepts(f, c) == StaticPart(f, c)
FilterOf(d) == (CHOOSE i \in DOMAIN cfg.collectors : cfg.collectors[i].d = d)
Known(d) == \E i \in DOMAIN cfg.collectors : cfg.collectors[i].d = d
On(d) == cfg.collectors[FilterOf(d)].f.kind # "sw" \/ d \in sw
Expect(d, c) == IF d # 0 /\ Known(d) /\ On(d) /\ Accepts(cfg.collectors[FilterOf(d)].f, c) THEN d ELSE 0

\* C12: reload values in effect during [s, e]
\* (a reloadable Option<filter> whose value is None is an absent layer: everything passes)
RAccepts(v, c) == v.none \/ (c.lvl <= v.thr /\ c.tgt \in SetOf(v.tgts))
\* an EnvFilter value may carry the span-scoped directive [w]=<level> (spanl, 0 = none): inside a span named w events up to it are enabled
\* (the harness's span w is an INFO span of target a: it exists, and can be entered, only if the value enables it)
SpanOn(v) == RAccepts(v, [lvl |-> 3, tgt |-> "a"]) \/ v.spanl >= 3
RAcceptsIn(v, c, inspan) == RAccepts(v, c) \/ (inspan /\ SpanOn(v) /\ c.lvl <= v.spanl)
Completed(s) == {i \in DOMAIN cfg.reloads : cfg.reloads[i].e < s}
Latest(s) == IF Completed(s) = {} THEN 0
             ELSE cfg.reloads[CHOOSE i \in Completed(s) : \A j \in Completed(s) : cfg.reloads[j].e <= cfg.reloads[i].e].v
Overlapping(s, e) == {cfg.reloads[i].v : i \in {j \in DOMAIN cfg.reloads : cfg.reloads[j].s < e /\ cfg.reloads[j].e > s}}
Candidates(s, e) == {Latest(s)} \cup Overlapping(s, e)
ValueOf(i) == cfg.values[i + 1]

HitOk(r) ==
  IF cfg.has_reload
  THEN \E v \in Candidates(r.start, r.end) : r.got = (IF RAcceptsIn(ValueOf(v), r.c, r.inspan) THEN 1 ELSE 0)
  ELSE r.got = Expect(r.d, r.c)

FinalOk(r) ==
  /\ \A i \in DOMAIN r.round :
       LET x == r.round[i] IN
       IF cfg.has_reload THEN x.got = (IF RAccepts(ValueOf(Latest(1000000000)), x.c) THEN 1 ELSE 0)
                         ELSE x.got = Expect(x.d, x.c)
  /\ globalOks <= 1
  \* every callsite that was registered (offered to some collector) has been offered to every collector that is still alive
  /\ \A i \in DOMAIN r.offered : \A j \in DOMAIN r.registered : \E k \in DOMAIN r.offered[i].cs : r.offered[i].cs[k] = r.registered[j]
  /\ r.dead_handle_err                     \* a handle whose collector is gone reports an error and changes nothing

Ok(r) ==
  CASE r.ev = "op" /\ r.op = "hit" -> HitOk(r)
    [] r.ev = "op" /\ r.op = "reload" -> r.ok
    [] r.ev = "panic" -> FALSE
    [] r.ev = "hang" -> FALSE
    [] r.ev = "crash" -> FALSE
    [] r.ev = "sched" -> ~r.stalled /\ ~r.deadlocked
    [] r.ev = "final" -> FinalOk(r)
    [] OTHER -> TRUE

TraceInit == l = 0 /\ bad = << >> /\ cfg = [has_reload |-> FALSE, collectors |-> << >>, reloads |-> << >>, values |-> << >>] /\ globalOks = 0 /\ sw = {}
TraceNext ==
  /\ l < Len(Rec)
  /\ l' = l + 1
  /\ LET r == Rec[l + 1] IN
       IF r.ev = "reset" THEN cfg' = [has_reload |-> r.has_reload, collectors |-> r.collectors, reloads |-> r.reloads, values |-> r.values]
                              /\ globalOks' = 0 /\ bad' = bad /\ sw' = {}
       ELSE /\ cfg' = cfg
            /\ globalOks' = (IF r.ev = "op" /\ r.op = "set_global" /\ r.ok THEN globalOks + 1 ELSE globalOks)
            /\ sw' = (IF r.ev = "op" /\ r.op = "switch" THEN (IF r.on THEN sw \cup {r.d} ELSE sw \ {r.d}) ELSE sw)
            /\ bad' = (IF Ok(r) THEN bad ELSE Append(bad, l + 1))
TraceSpec == TraceInit /\ [][TraceNext]_tvars
Report == l = Len(Rec) => PrintT("@@BAD " \o ToJson(bad))
Consumed == IF TLCGet("stats").diameter = Len(Rec) + 1 THEN TRUE
            ELSE PrintT("@@STUCK " \o ToJson(TLCGet("stats").diameter)) /\ FALSE
=============================================================================
