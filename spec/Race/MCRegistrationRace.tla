------------------------- MODULE MCRegistrationRace -------------------------
EXTENDS RegistrationRace, Json
CS == {[lvl |-> 3, tgt |-> "a"], [lvl |-> 5, tgt |-> "b"]}
c1 == [lvl |-> 3, tgt |-> "a"]
c2 == [lvl |-> 5, tgt |-> "b"]
F == (1 :> [thr |-> 5, tgts |-> {"a", "b"}, kind |-> "static", hint |-> 9]) @@
     (2 :> [thr |-> 3, tgts |-> {"a"}, kind |-> "dyn", hint |-> 3]) @@
     (3 :> [thr |-> 1, tgts |-> {"a", "b"}, kind |-> "static", hint |-> 1])
Hit(c) == [op |-> "hit", c |-> c]
New(d) == [op |-> "new", d |-> d]
\* S1: two threads first-hit the same callsite under their own collectors
S1 == (1 :> <<New(1), Hit(c1), Hit(c2)>>) @@ (2 :> <<New(2), Hit(c1)>>)
\* S2: a first hit races with the creation, installation and drop of another collector
S2 == (1 :> <<New(1), Hit(c1), Hit(c1)>>) @@ (2 :> <<New(3), Hit(c1), [op |-> "drop"], New(2)>>)
\* S3: three threads: first hits of two callsites, a rebuild, a collector replaced
S3 == (1 :> <<New(1), Hit(c1), Hit(c2)>>) @@ (2 :> <<New(3), Hit(c2), [op |-> "rebuild"]>>) @@ (3 :> <<Hit(c1), New(2), Hit(c1)>>)
=============================================================================
