SPECIFICATION Spec
CONSTANTS
  Emitters = {1, 2}
  Values <- V
  Callsites <- CS
  EmitsPer = 2
INVARIANT JudgedByAValueInEffect
CHECK_DEADLOCK FALSE
