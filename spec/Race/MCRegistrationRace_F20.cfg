SPECIFICATION Spec
CONSTANTS
  Threads = {1, 2}
  Disp = {1, 2, 3}
  Callsites <- CS
  Filt <- F
  Scripts <- S1
INVARIANT OfferedBeforeUse
CHECK_DEADLOCK FALSE
