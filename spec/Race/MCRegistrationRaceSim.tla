------------------------ MODULE MCRegistrationRaceSim ------------------------
(* schedule generator: TLC -simulate walks RegistrationRace for the scenario given by the including module,      *)
(* choosing the next thread at random; the sequence of thread choices of each finished behaviour is printed and *)
(* enforced on the real code by the cooperative scheduler (labels are not transmitted: the replay is tolerant    *)
(* to the code announcing more or fewer points than the model has steps).                                         *)
EXTENDS MCRegistrationRace
VARIABLES hist, fin
SimNext == \/ /\ ~AllDone /\ ~fin
              /\ \E t \in {RandomElement({x \in Threads : ENABLED Step(x)})} : Step(t) /\ hist' = Append(hist, t) /\ fin' = FALSE
           \/ AllDone /\ ~fin /\ fin' = TRUE /\ UNCHANGED <<vars, hist>>
SimSpec == Init /\ hist = << >> /\ fin = FALSE /\ [][SimNext]_<<vars, hist, fin>>
Emitted == fin => PrintT("@@SCHED " \o ToJson(hist))
=============================================================================
