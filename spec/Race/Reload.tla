------------------------------- MODULE Reload -------------------------------
(***************************************************************************)
(* C12 - after a reload returns, every thread filters with the new value.  *)
(* M: a reloadable filter value behind the interest cache.                 *)
(*   reload(v): take the write lock; store v; unlock; rebuild_interest_    *)
(*     cache (re-fold every registered callsite, one at a time; then       *)
(*     MAX_LEVEL) - four kinds of separately scheduled steps               *)
(*   emit(c):  read MAX_LEVEL; load the cached interest (callsites are     *)
(*     pre-registered so stale `always` / `never` exist in both            *)
(*     directions); for `sometimes` read the value under the read lock.    *)
(* A: an emission that STARTS after reload(v) has RETURNED is judged by v  *)
(* (or a later value); one overlapping a reload by the old or the new      *)
(* value - i.e. by a value that was in effect at some moment between the   *)
(* emission's start and end.                                               *)
(***************************************************************************)
EXTENDS Naturals, Sequences, FiniteSets, TLC

CONSTANTS Emitters, Values,     \* Values: Seq([thr, tgts, dyn])  - value 1 is the initial one; the reloader installs 2, 3, ...
          Callsites, EmitsPer

Accepts(v, c) == c.lvl <= v.thr /\ c.tgt \in v.tgts
InterestOf(v, c) == IF ~Accepts(v, c) THEN "Never" ELSE IF v.dyn THEN "Sometimes" ELSE "Always"

VARIABLES value, wlocked, interest, maxLevel,
          rpc, rnext, rtodo,             \* reloader: pc, index of the value being installed, callsites still to re-fold
          epc, ec, elo, ecount,          \* emitters; elo = the value whose reload had returned last when the emission started
          ok                             \* FALSE once an emission was judged by a value not in effect during it
vars == <<value, wlocked, interest, maxLevel, rpc, rnext, rtodo, epc, ec, elo, ecount, ok>>

N == Len(Values)

Init == /\ value = 1 /\ wlocked = FALSE
        /\ interest = [c \in Callsites |-> InterestOf(Values[1], c)]
        /\ maxLevel = Values[1].thr
        /\ rpc = "idle" /\ rnext = 2 /\ rtodo = {}
        /\ epc = [t \in Emitters |-> "idle"] /\ ec = [t \in Emitters |-> CHOOSE c \in Callsites : TRUE]
        /\ elo = [t \in Emitters |-> 1] /\ ecount = [t \in Emitters |-> 0]
        /\ ok = TRUE

\* ---- reloader
RBegin  == /\ rpc = "idle" /\ rnext <= N /\ rpc' = "lock"
           /\ UNCHANGED <<value, wlocked, interest, maxLevel, rnext, rtodo, epc, ec, elo, ecount, ok>>
RLock   == /\ rpc = "lock" /\ ~wlocked /\ wlocked' = TRUE /\ rpc' = "store"
           /\ UNCHANGED <<value, interest, maxLevel, rnext, rtodo, epc, ec, elo, ecount, ok>>
RStore  == /\ rpc = "store" /\ value' = rnext /\ rpc' = "unlock"
           /\ UNCHANGED <<wlocked, interest, maxLevel, rnext, rtodo, epc, ec, elo, ecount, ok>>
RUnlock == /\ rpc = "unlock" /\ wlocked' = FALSE /\ rpc' = "each" /\ rtodo' = Callsites
           /\ UNCHANGED <<value, interest, maxLevel, rnext, epc, ec, elo, ecount, ok>>
REach   == /\ rpc = "each"
           /\ IF rtodo = {} THEN rpc' = "max" /\ UNCHANGED <<interest, rtodo>>
              ELSE \E c \in rtodo : interest' = [interest EXCEPT ![c] = InterestOf(Values[value], c)] /\ rtodo' = rtodo \ {c} /\ rpc' = rpc
          
           /\ UNCHANGED <<value, wlocked, maxLevel, rnext, epc, ec, elo, ecount, ok>>
RMax    == /\ rpc = "max" /\ maxLevel' = Values[value].thr /\ rpc' = "return"
           /\ UNCHANGED <<value, wlocked, interest, rnext, rtodo, epc, ec, elo, ecount, ok>>
RReturn == /\ rpc = "return" /\ rnext' = rnext + 1 /\ rpc' = "idle"
           /\ UNCHANGED <<value, wlocked, interest, maxLevel, rtodo, epc, ec, elo, ecount, ok>>

\* ---- emitters
\* the values in effect at some moment of the emission: from the one whose reload had returned when it started, up to
\* the one being installed (or last installed) when it ends
Hi == IF rpc = "idle" THEN rnext - 1 ELSE rnext
Finish(t, got) == /\ ok' = (ok /\ \E v \in elo[t]..Hi : got = Accepts(Values[v], ec[t]))
                  /\ epc' = [epc EXCEPT ![t] = "idle"] /\ ecount' = [ecount EXCEPT ![t] = @ + 1]
EStart(t) == /\ epc[t] = "idle" /\ ecount[t] < EmitsPer
             /\ \E c \in Callsites : ec' = [ec EXCEPT ![t] = c]
             /\ elo' = [elo EXCEPT ![t] = rnext - 1] /\ epc' = [epc EXCEPT ![t] = "gate"]
             /\ UNCHANGED <<value, wlocked, interest, maxLevel, rpc, rnext, rtodo, ecount, ok>>
EGate(t)  == /\ epc[t] = "gate"
             /\ IF ec[t].lvl <= maxLevel THEN epc' = [epc EXCEPT ![t] = "load"] /\ UNCHANGED <<ok, ecount>> ELSE Finish(t, FALSE)
             /\ UNCHANGED <<value, wlocked, interest, maxLevel, rpc, rnext, rtodo, ec, elo>>
ELoad(t)  == /\ epc[t] = "load"
             /\ CASE interest[ec[t]] = "Never"  -> Finish(t, FALSE)
                  [] interest[ec[t]] = "Always" -> Finish(t, TRUE)
                  [] OTHER -> epc' = [epc EXCEPT ![t] = "ask"] /\ UNCHANGED <<ok, ecount>>
             /\ UNCHANGED <<value, wlocked, interest, maxLevel, rpc, rnext, rtodo, ec, elo>>
EAsk(t)   == /\ epc[t] = "ask" /\ ~wlocked                              \* read lock
             /\ Finish(t, Accepts(Values[value], ec[t]))
             /\ UNCHANGED <<value, wlocked, interest, maxLevel, rpc, rnext, rtodo, ec, elo>>

Next == RBegin \/ RLock \/ RStore \/ RUnlock \/ REach \/ RMax \/ RReturn \/ \E t \in Emitters : EStart(t) \/ EGate(t) \/ ELoad(t) \/ EAsk(t)
Spec == Init /\ [][Next]_vars

JudgedByAValueInEffect == ok
=============================================================================
