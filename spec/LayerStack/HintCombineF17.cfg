SPECIFICATION Spec
INVARIANT F17Exists
CHECK_DEADLOCK FALSE
