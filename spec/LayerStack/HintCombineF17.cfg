SPECIFICATION Spec
CONSTANT AllMembers = FALSE
INVARIANT F17Exists
CHECK_DEADLOCK FALSE
