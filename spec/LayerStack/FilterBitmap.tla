---------------------------- MODULE FilterBitmap -----------------------------
(***************************************************************************)
(* Mechanism model of the per-thread filter state of per-layer filtering    *)
(* (`FILTERING` in tracing-subscriber/src/filter/subscriber_filters) --      *)
(* property C07, and the derivation of known finding F3 by TLC.              *)
(*                                                                          *)
(* One thread, layers 1..N, layer i filtered by the static level filter     *)
(* `lim[i]` (accepts metadata of level <= lim[i]).  The composed collector:  *)
(*   register_callsite   every Filtered adds its filter's interest to a      *)
(*                       pending value; the registry returns the combination *)
(*                       (always iff every filter says always, never iff     *)
(*                       every one says never, else sometimes) -- cached per *)
(*                       callsite                                            *)
(*   enabled pass        Filtered_i sets its bit in the thread's bitmap to   *)
(*                       "disabled" or "enabled" (FilterState::set)          *)
(*   dispatch            Filtered_i::on_event / on_new_span = did_enable:    *)
(*                       deliver iff its bit is not "disabled", else clear   *)
(*                       the bit                                             *)
(* An emission runs the enabled pass only when the cached interest is        *)
(* `sometimes`; with `always` it goes straight to dispatch and reads         *)
(* whatever the bitmap holds.  `enabled!(..)` (Probe) is an enabled pass     *)
(* that is not followed by a dispatch.                                       *)
(*                                                                          *)
(* A (the property): an emission is delivered to exactly the layers whose    *)
(* own filter accepts it -- whatever happened before on the thread.          *)
(*                                                                          *)
(* ConsumeProbe = TRUE is a repaired design (the probe resets the bits it    *)
(* set): TLC then proves Exact.  With FALSE (the code) TLC produces the      *)
(* F3 history: Probe(level rejected by layer i) ; Emit(level every layer     *)
(* accepts statically) is missed by layer i.                                 *)
(***************************************************************************)
EXTENDS Naturals, FiniteSets, Sequences

CONSTANTS N, Levels, ConsumeProbe
Layers == 1..N

VARIABLES lim,        \* [Layers -> Levels]  the layers' level filters
          disabled,   \* the bitmap: layers whose bit says "disabled"
          last        \* ghost: [lvl, delivered] of the last emission (lvl = 0: none yet)
fvars == <<lim, disabled, last>>

Accepts(i, lvl) == lvl <= lim[i]
Interest(lvl) == IF \A i \in Layers : Accepts(i, lvl) THEN "always"
                 ELSE IF \A i \in Layers : ~Accepts(i, lvl) THEN "never" ELSE "sometimes"
EnabledPass(lvl) == {i \in Layers : ~Accepts(i, lvl)}         \* the bitmap after a pass

Init == /\ lim \in [Layers -> Levels] /\ disabled = {} /\ last = [lvl |-> 0, delivered |-> {}]
Probe(lvl) == /\ Interest(lvl) # "never"                                   \* a cached `never` answers without asking
              /\ disabled' = IF ConsumeProbe THEN {} ELSE EnabledPass(lvl)
              /\ UNCHANGED <<lim, last>>
Emit(lvl) == /\ Interest(lvl) # "never"
             /\ LET bits == IF Interest(lvl) = "sometimes" THEN EnabledPass(lvl) ELSE disabled IN
                /\ last' = [lvl |-> lvl, delivered |-> Layers \ bits]      \* did_enable: deliver unless the bit says disabled
                /\ disabled' = {}                                           \* ... and clear it
             /\ UNCHANGED lim
Next == \E lvl \in Levels : Probe(lvl) \/ Emit(lvl)
Spec == Init /\ [][Next]_fvars

Exact == last.lvl # 0 => last.delivered = {i \in Layers : Accepts(i, last.lvl)}
=============================================================================
