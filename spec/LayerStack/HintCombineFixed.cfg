SPECIFICATION Spec
CONSTANT AllMembers = TRUE
INVARIANT AlwaysSound
CHECK_DEADLOCK FALSE
