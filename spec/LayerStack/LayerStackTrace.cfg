SPECIFICATION TraceSpec
CONSTANTS
  Levels = {1, 2, 3, 4, 5}
  Targets = {"a", "a::b", "ab", "b"}
  Flags = {"p"}
  Threads = {1, 2}
  MaxSpans = 40
  Mode = "c07"
INVARIANT Report
POSTCONDITION Consumed
CHECK_DEADLOCK FALSE
