SPECIFICATION Spec
CONSTANTS
  N = 3
  Levels = {1, 2, 3, 4, 5}
  ConsumeProbe = FALSE
INVARIANT Exact
CHECK_DEADLOCK FALSE
