-------------------------- MODULE LayerStackTrace ---------------------------
EXTENDS LayerStack, Json, IOUtils

Rec == ndJsonDeserialize(IOEnv.TRACE)
CONSTANT Mode            \* "c07" | "c09": c09 also judges registration passes (unfiltered stacks)
VARIABLES l, bad, f3, bad8
tvars == <<lvars, l, bad, f3, bad8>>

EmptyFlat == [layers |-> << >>, globals |-> << >>, vetoes |-> << >>]
Reset(r) ==
  /\ flat' = r.flat /\ flags' = {} /\ n' = 0
  /\ sm' = [s \in SpanIds |-> [lvl |-> 0, tgt |-> "", kind |-> "span"]]
  /\ spar' = [s \in SpanIds |-> 0] /\ exists' = [s \in SpanIds |-> FALSE] /\ vis' = [s \in SpanIds |-> {}]
  /\ open' = [s \in SpanIds |-> FALSE] /\ ent' = [t \in Threads |-> << >>] /\ stale' = [t \in Threads |-> {}]
  /\ good' = TRUE /\ tainted' = FALSE

TraceInit ==
  /\ flat = EmptyFlat /\ flags = {} /\ n = 0
  /\ sm = [s \in SpanIds |-> [lvl |-> 0, tgt |-> "", kind |-> "span"]]
  /\ spar = [s \in SpanIds |-> 0] /\ exists = [s \in SpanIds |-> FALSE] /\ vis = [s \in SpanIds |-> {}]
  /\ open = [s \in SpanIds |-> FALSE] /\ ent = [t \in Threads |-> << >>] /\ stale = [t \in Threads |-> {}]
  /\ good = TRUE /\ tainted = FALSE
  /\ l = 0 /\ bad = << >> /\ f3 = << >> /\ bad8 = << >>

\* the summary the composed collector publishes - when built, and again after a reload handle was switched - against the
\* stack's meaning at that moment
SummaryBad(r) == \/ r.op = "build" /\ "summary" \in DOMAIN r /\ ~SummaryOk(r.summary)
                 \/ r.op = "swap" /\ "summary" \in DOMAIN r /\ ~SummaryOkIn(r.flat, r.summary)
Judge(r) ==
  LET ok == ~("panic" \in DOMAIN r) /\ OpOk(r, Target(r)) /\ ExistsOk(r)
            /\ (Mode = "c09" /\ "regs" \in DOMAIN r => RegsOk(r.regs))
            \* creating the Dispatch offers every callsite the process already knows to every layer of the new stack - whatever
            \* other collectors are alive (the harness registered the whole pool beforehand; summary.cs lists it)
            /\ (Mode = "c09" /\ r.op = "build" /\ "log_reg" \in DOMAIN r /\ r.log_reg /\ flat.layers # << >> =>
                   \A i \in DOMAIN r.summary.cs : \E j \in DOMAIN r.regs : r.regs[j].m = r.summary.cs[i].m)
      \* F3 needs an emission for which the collector ran NO `enabled` pass (cached interest `always`): a pass rewrites every bit
      isf3 == ~ok /\ ~("panic" \in DOMAIN r) /\ ExistsOk(r) /\ StaleOnly(r) /\ ~r.pass
  IN /\ Effect(r)
     /\ good' = (good /\ ok)
     \* an unsound whole-stack summary (C08) makes every later delivery in this history suspect
     /\ tainted' = (tainted \/ isf3 \/ SummaryBad(r))
     /\ bad' = (IF ok \/ isf3 THEN bad ELSE Append(bad, l + 1))
     /\ f3' = (IF isf3 THEN Append(f3, l + 1) ELSE f3)
     /\ bad8' = (IF SummaryBad(r) THEN Append(bad8, l + 1) ELSE bad8)

TraceNext ==
  /\ l < Len(Rec)
  /\ l' = l + 1
  /\ LET r == Rec[l + 1] IN
       CASE r.ev = "reset" -> Reset(r) /\ UNCHANGED <<bad, f3, bad8>>
         [] r.ev = "crash" -> UNCHANGED <<flat, flags, n, sm, spar, exists, vis, open, ent, stale, tainted, f3, bad8>> /\ good' = FALSE
                              /\ bad' = (IF good /\ ~tainted THEN Append(bad, l + 1) ELSE bad)
         \* after a first disagreement (or an F3 hit) the rest of the history is not judged
         [] r.ev = "op" /\ (~good \/ tainted) -> UNCHANGED <<lvars, bad, f3, bad8>>
         [] r.ev = "op" /\ good /\ ~tainted -> Judge(r)
TraceSpec == TraceInit /\ [][TraceNext]_tvars

Report == l = Len(Rec) => PrintT("@@BAD " \o ToJson(bad)) /\ PrintT("@@F3 " \o ToJson(f3)) /\ PrintT("@@BAD8 " \o ToJson(bad8))
Consumed == IF TLCGet("stats").diameter = Len(Rec) + 1 THEN TRUE
            ELSE PrintT("@@STUCK " \o ToJson(TLCGet("stats").diameter)) /\ FALSE
=============================================================================
