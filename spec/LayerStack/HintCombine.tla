----------------------------- MODULE HintCombine -----------------------------
(***************************************************************************)
(* How a stack of subscribers combines max-level hints (Layered::           *)
(* pick_level_hint, the NoneLayerMarker downcast) -- mechanism model for     *)
(* the whole-stack clause of C08 / C07 and for known finding F17.            *)
(*                                                                          *)
(* A leaf is a plain (globally filtering) subscriber with a hint, or an      *)
(* absent one (`Option::None`: hint Some(OFF) plus the none-marker).  An     *)
(* element of the stack is a leaf or `a.and_then(b)` of two leaves.  The     *)
(* stack is registry().with(e1).with(e2)...                                  *)
(*   A   the stack accepts level l iff every present leaf accepts it         *)
(*       (l <= hint, or no hint); the published hint is SOUND iff it is not  *)
(*       below a level the stack accepts.                                    *)
(*   M   pick_level_hint as written, with Option ordering None < Some, and   *)
(*       the marker query answered by ANY none-leaf inside a Layered.        *)
(* Invariant UnsoundOnlyF17: every unsound stack has the shape recorded for  *)
(* F17 (>= 2 top-level elements, an and_then with an absent half).  TLC      *)
(* enumerates all stacks of <= 3 elements.                                   *)
(***************************************************************************)
EXTENDS Naturals, Sequences, FiniteSets, TLC

NoHint == 9
Hints == {NoHint, 0, 1, 3, 5}
Leaves == {[k |-> "leaf", none |-> FALSE, hint |-> h] : h \in Hints} \cup {[k |-> "leaf", none |-> TRUE, hint |-> 0]}
CONSTANT AllMembers   \* FALSE: a composite answers the none-marker query if ANY member is absent (the code before the repair of
                      \* F17 / F28); TRUE: only if ALL its members are absent (the repair)
Elems == Leaves \cup {[k |-> "and_then", a |-> a, b |-> b] : a \in Leaves, b \in Leaves}
                \cup {[k |-> "vec", items |-> q] : q \in UNION {[1..n -> Leaves] : n \in 0..2}}

VARIABLE stack
Init == stack \in UNION {[1..n -> Elems] : n \in 1..3}
Next == UNCHANGED stack
Spec == Init /\ [][Next]_stack

(* ------------------------------- A ------------------------------------- *)
LeavesOf(e) == IF e.k = "leaf" THEN {e} ELSE IF e.k = "vec" THEN {e.items[i] : i \in DOMAIN e.items} ELSE {e.a, e.b}
AllLeaves == UNION {LeavesOf(stack[i]) : i \in DOMAIN stack}
\* (with no present leaf nobody can lose an event: any hint is sound then)
Accepts(l) == /\ \E x \in AllLeaves : ~x.none
              /\ \A x \in AllLeaves : x.none \/ x.hint = NoHint \/ l <= x.hint
Sound(h) == h = NoHint \/ \A l \in 1..5 : Accepts(l) => l <= h

(* ------------------------------- M ------------------------------------- *)
\* Option<LevelFilter> ordering: None (NoHint) < Some(_)
OMax(x, y) == IF x = NoHint THEN y ELSE IF y = NoHint THEN x ELSE IF x >= y THEN x ELSE y
Pick(outer, inner, innerIsNone, subIsNone, innerIsRegistry) ==
  IF innerIsRegistry THEN outer
  ELSE IF subIsNone THEN (IF inner = NoHint THEN NoHint ELSE OMax(outer, inner))
  ELSE IF innerIsNone /\ inner = 0 THEN outer
  ELSE OMax(outer, inner)
Marker(e) == IF e.k = "leaf" THEN e.none
             ELSE IF e.k = "vec" THEN e.items = << >> \/ (IF AllMembers THEN \A i \in DOMAIN e.items : e.items[i].none
                                                                         ELSE \E i \in DOMAIN e.items : e.items[i].none)   \* Vec: find_map over its elements
             ELSE IF AllMembers THEN e.a.none /\ e.b.none ELSE e.a.none \/ e.b.none       \* Layered forwards the marker query to both halves
\* Vec::max_level_hint: OFF when empty, no hint as soon as one element has none, else the most verbose
VHint(q) == IF q = << >> THEN 0 ELSE IF \E i \in DOMAIN q : q[i].hint = NoHint THEN NoHint
            ELSE CHOOSE h \in {q[i].hint : i \in DOMAIN q} : \A i \in DOMAIN q : q[i].hint <= h
EHint(e) == IF e.k = "leaf" THEN e.hint
            ELSE IF e.k = "vec" THEN VHint(e.items)
            ELSE Pick(e.b.hint, e.a.hint, e.a.none, e.b.none, FALSE)      \* a.and_then(b): subscriber = b, inner = a
RECURSIVE CHint(_), CMarker(_)
CMarker(n) == IF n = 0 THEN FALSE ELSE Marker(stack[n]) \/ CMarker(n - 1)
CHint(n) == IF n = 0 THEN NoHint
            ELSE Pick(EHint(stack[n]), CHint(n - 1), CMarker(n - 1), Marker(stack[n]), n = 1)
StackHint == CHint(Len(stack))

F17Shape == Len(stack) >= 2 /\ \E i \in DOMAIN stack : \/ stack[i].k = "and_then" /\ (stack[i].a.none \/ stack[i].b.none)
                                                       \/ stack[i].k = "vec" /\ \E j \in DOMAIN stack[i].items : stack[i].items[j].none
UnsoundOnlyF17 == ~Sound(StackHint) => F17Shape
\* without and_then trees with an absent half every hint is sound
SoundOutsideF17 == ~F17Shape => Sound(StackHint)
\* the finding itself: some F17-shaped stack is unsound
F17Exists == ~(F17Shape /\ ~Sound(StackHint))
\* the repaired rule: every hint is sound
AlwaysSound == Sound(StackHint)
=============================================================================
