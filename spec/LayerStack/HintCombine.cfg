SPECIFICATION Spec
INVARIANTS UnsoundOnlyF17 SoundOutsideF17
CHECK_DEADLOCK FALSE
