SPECIFICATION Spec
CONSTANT AllMembers = FALSE
INVARIANTS UnsoundOnlyF17 SoundOutsideF17
CHECK_DEADLOCK FALSE
