----------------------------- MODULE LayerStack -----------------------------
(***************************************************************************)
(* C07 (per-layer filters are isolated), C09 (every layer sees every       *)
(* notification once, inner before outer; wrappers are transparent) and    *)
(* the whole-stack clause of C08.                                          *)
(*                                                                         *)
(* A stack is given in FLAT form - what it means, with every wrapper       *)
(* (Box, Arc, Some, one-element Vec, reload, Identity, and_then nesting)   *)
(* erased: the recording layers in callback order (inner first), each with *)
(* the chain of per-layer filters attached above it, the global filter     *)
(* layers, and the targets a global event_enabled veto rejects.  The       *)
(* harness builds the REAL stack from the tree form; that the flat form    *)
(* predicts its behaviour is exactly wrapper transparency.                 *)
(*                                                                         *)
(* A: layer L receives an emission iff every global filter accepts it and  *)
(* every filter attached to L accepts it (Filters!Enabled: the filter's    *)
(* own decision for that metadata in that context) - a function of the     *)
(* stack and the emission only.  A span is visible to L iff L received its *)
(* creation; enter / exit / record / close reach exactly the layers it is  *)
(* visible to; lookups from L (current span, scopes, parents) show exactly *)
(* the visible spans.  Within one notification layers are called inner     *)
(* first.                                                                  *)
(*                                                                         *)
(* History class of known finding F3: an `enabled` pass that is not        *)
(* followed by a dispatch (enabled! probe, event vetoed by event_enabled)  *)
(* leaves the rejecting filters' bits in the thread's filter state; the    *)
(* next emission on the thread may then miss exactly those layers.         *)
(* `stale[t]` over-approximates the affected layers.                       *)
(***************************************************************************)
EXTENDS FilterExpr

CONSTANTS Threads, MaxSpans
SpanIds == 1..MaxSpans
Names(flat) == {flat.layers[i].name : i \in DOMAIN flat.layers}

VARIABLES
  flat,     \* [layers: Seq([name, filters: Seq(expr), interest]), globals: Seq(expr), vetoes: Seq(target)]
  flags,    \* context: the set of dynamic flags that are on
  n,        \* spans created so far
  sm,       \* [SpanIds -> metadata]
  spar,     \* [SpanIds -> SpanIds \cup {0}]  real parent
  exists,   \* [SpanIds -> BOOLEAN]  the span was really created in the registry
  vis,      \* [SpanIds -> SUBSET layer names]
  open,     \* [SpanIds -> BOOLEAN]
  ent,      \* [Threads -> Seq(SpanIds)]
  stale,    \* [Threads -> SUBSET layer names]
  good, tainted

lvars == <<flat, flags, n, sm, spar, exists, vis, open, ent, stale, good, tainted>>

SetOf(q) == {q[i] : i \in DOMAIN q}
LastOf(q) == q[Len(q)]
PassGlobal(m) == \A i \in DOMAIN flat.globals : Enabled(flat.globals[i], m, flags)
Vetoed(m) == m.kind = "event" /\ m.tgt \in SetOf(flat.vetoes)
Recv(L, m) == PassGlobal(m) /\ \A i \in DOMAIN L.filters : Enabled(L.filters[i], m, flags)
Receivers(m) == SelectSeq(flat.layers, LAMBDA L : Recv(L, m))
SeesSpan(s) == SelectSeq(flat.layers, LAMBDA L : L.name \in vis[s])

VisCur(L, t) == LET q == SelectSeq(ent[t], LAMBDA s : L.name \in vis[s]) IN IF q = << >> THEN 0 ELSE LastOf(q)
RawCur(t) == IF ent[t] = << >> THEN 0 ELSE LastOf(ent[t])
RECURSIVE VisAnc(_, _)
VisAnc(L, s) == IF s = 0 THEN << >> ELSE (IF L.name \in vis[s] THEN <<s>> ELSE << >>) \o VisAnc(L, spar[s])
RemoveLast(q, x) == IF x \notin SetOf(q) THEN q ELSE
                    LET i == CHOOSE j \in DOMAIN q : q[j] = x /\ \A k \in DOMAIN q : q[k] = x => k <= j
                    IN SubSeq(q, 1, i - 1) \o SubSeq(q, i + 1, Len(q))

\* does the observed callback list `obs` match the layers `Ls` (in order) with per-layer predicate P ?
Match(obs, Ls, P(_, _)) == Len(obs) = Len(Ls) /\ \A i \in DOMAIN obs : obs[i].L = Ls[i].name /\ P(obs[i], Ls[i])

EventOk(r, Ls) ==
  Match(r.obs, Ls, LAMBDA o, L :
      /\ o.cb = "event"
      /\ o.cur = VisCur(L, r.t)
      /\ IF r.pk = "of"
         THEN o.chain = VisAnc(L, r.p) \/ (L.name \notin vis[r.p] /\ o.chain = << >>)   \* an invisible explicit parent shows no scope
         ELSE o.chain = VisAnc(L, VisCur(L, r.t)))

RealParent(r) == IF r.pk = "of" THEN r.p ELSE RawCur(r.t)
NewOk(r, Ls) ==
  Match(r.obs, Ls, LAMBDA o, L :
      /\ o.cb = "new_span" /\ o.tok = n + 1
      /\ o.par = (LET a == VisAnc(L, RealParent(r)) IN IF a = << >> THEN 0 ELSE a[1]))

\* A's verdict on the notifications of one operation, for the layer list `Ls` that must receive it
OpOk(r, Ls) ==
  CASE r.op = "event"  -> EventOk(r, Ls)
    [] r.op = "new"    -> NewOk(r, Ls)
    [] r.op = "enter"  -> Match(r.obs, Ls, LAMBDA o, L : o.cb = "enter" /\ o.tok = r.s /\ o.cur = r.s)
    [] r.op = "exit"   -> Match(r.obs, Ls, LAMBDA o, L : o.cb = "exit" /\ o.tok = r.s)
    [] r.op = "record" -> Match(r.obs, Ls, LAMBDA o, L : o.cb = "record" /\ o.tok = r.s)
    [] r.op = "follows" -> Match(r.obs, Ls, LAMBDA o, L : o.cb = "follows_from" /\ o.tok = r.s /\ o.from = r.p)
    [] r.op = "drop"   -> Match(r.obs, Ls, LAMBDA o, L : o.cb = "close" /\ o.tok = r.s /\ o.chain = VisAnc(L, r.s))
    \* dispatcher registration: every layer exactly once (a one-time set-up call; its order among layers is not judged)
    [] r.op = "build"  -> /\ Len(r.obs) = Len(Ls) /\ \A i \in DOMAIN r.obs : r.obs[i].cb = "register_dispatch"
                          /\ {r.obs[i].L : i \in DOMAIN r.obs} = {Ls[i].name : i \in DOMAIN Ls}
    [] OTHER           -> r.obs = << >>

\* the layers an operation must reach
Target(r) ==
  CASE r.op = "event"  -> IF Vetoed(r.m) THEN << >> ELSE Receivers(r.m)
    [] r.op = "new"    -> Receivers(r.m)
    [] r.op \in {"enter", "exit", "record", "drop"} -> IF r.s \in 1..n /\ exists[r.s] /\ open[r.s] THEN SeesSpan(r.s) ELSE << >>
    [] r.op = "follows" -> IF r.s \in 1..n /\ r.p \in 1..n /\ exists[r.s] /\ exists[r.p] THEN SelectSeq(flat.layers, LAMBDA L : L.name \in vis[r.s] /\ L.name \in vis[r.p]) ELSE << >>
    [] r.op = "build"  -> flat.layers
    [] OTHER           -> << >>

\* what finding F3 may cost: the same operation judged as if the stale layers need not receive it
StaleOnly(r) == r.op \in {"event", "new"} /\ stale[r.t] # {}
                /\ \E D \in SUBSET stale[r.t] : D # {} /\ OpOk(r, SelectSeq(Target(r), LAMBDA L : L.name \notin D))

Effect(r) ==
  LET t == r.t IN
  CASE r.op = "new" ->
         /\ n' = n + 1
         /\ sm' = [sm EXCEPT ![n + 1] = r.m]
         /\ spar' = [spar EXCEPT ![n + 1] = IF r.exists THEN RealParent(r) ELSE 0]
         /\ exists' = [exists EXCEPT ![n + 1] = r.exists]
         /\ vis' = [vis EXCEPT ![n + 1] = IF r.exists THEN {L.name : L \in SetOf(Receivers(r.m))} ELSE {}]
         /\ open' = [open EXCEPT ![n + 1] = r.exists]
         /\ stale' = [stale EXCEPT ![t] = @ \ {r.obs[i].L : i \in DOMAIN r.obs}]      \* a layer that received it has a clean bit
         /\ UNCHANGED <<flat, flags, ent>>
    [] r.op = "event" ->
         \* a filter's bit is consumed when its own on_event runs (which, for nested filters, needs the outer filter
         \* to have accepted); over-approximation: a layer stays possibly-stale until it is seen receiving something
         /\ stale' = [stale EXCEPT ![t] = IF Vetoed(r.m) /\ PassGlobal(r.m)
                                          THEN @ \cup {L.name : L \in {x \in SetOf(flat.layers) : ~Recv(x, r.m)}}
                                          ELSE @ \ {r.obs[i].L : i \in DOMAIN r.obs}]
         /\ UNCHANGED <<flat, flags, n, sm, spar, exists, vis, open, ent>>
    [] r.op = "probe" ->
         /\ stale' = [stale EXCEPT ![t] = IF PassGlobal(r.m) THEN @ \cup {L.name : L \in {x \in SetOf(flat.layers) : ~Recv(x, r.m)}} ELSE @]
         /\ UNCHANGED <<flat, flags, n, sm, spar, exists, vis, open, ent>>
    [] r.op = "enter" ->
         /\ ent' = IF r.s \in 1..n /\ exists[r.s] /\ open[r.s] THEN [ent EXCEPT ![t] = Append(@, r.s)] ELSE ent
         /\ UNCHANGED <<flat, flags, n, sm, spar, exists, vis, open, stale>>
    [] r.op = "exit" ->
         /\ ent' = [ent EXCEPT ![t] = RemoveLast(@, r.s)]
         /\ UNCHANGED <<flat, flags, n, sm, spar, exists, vis, open, stale>>
    [] r.op = "drop" ->
         /\ open' = [open EXCEPT ![r.s] = FALSE]
         /\ UNCHANGED <<flat, flags, n, sm, spar, exists, vis, ent, stale>>
    [] r.op = "setflag" ->
         /\ flags' = SetOf(r.ctx)
         /\ UNCHANGED <<flat, n, sm, spar, exists, vis, open, ent, stale>>
    \* a reload handle over an optional layer was switched to Some(layer) / None: the stack now means r.flat
    [] r.op = "swap" ->
         /\ flat' = r.flat
         /\ UNCHANGED <<flags, n, sm, spar, exists, vis, open, ent, stale>>
    [] OTHER -> UNCHANGED <<flat, flags, n, sm, spar, exists, vis, open, ent, stale>>

\* constraints on the one thing A takes from the observation: whether a span was created at all
ExistsOk(r) == r.op = "new" => /\ (Receivers(r.m) # << >> => r.exists)
                               /\ (~PassGlobal(r.m) => ~r.exists)

(* whole-stack summary (C08): what the composed collector publishes vs. what any layer would receive *)
AnyRecvUnderIn(f, m, c) == \E i \in DOMAIN f.layers :
                         /\ \A g \in DOMAIN f.globals : Enabled(f.globals[g], m, c)
                         /\ \A j \in DOMAIN f.layers[i].filters : Enabled(f.layers[i].filters[j], m, c)
SummaryOkIn(f, sum) ==
  /\ \A i \in DOMAIN sum.cs : sum.cs[i].cs = "never" => \A c \in SUBSET Flags : ~AnyRecvUnderIn(f, sum.cs[i].m, c)
  /\ sum.hint # NoHint => \A i \in DOMAIN sum.cs : \A c \in SUBSET Flags : AnyRecvUnderIn(f, sum.cs[i].m, c) => sum.cs[i].m.lvl <= sum.hint
SummaryOk(sum) == SummaryOkIn(flat, sum)

(* registration passes (C09, unfiltered stacks): per callsite and pass every layer is asked exactly once.       *)
(* (The order among layers is not judged: the stack asks outer layers first, Vec asks in element order.)       *)
RegsOk(regs) ==
  LET k == Len(flat.layers) IN
  IF k = 0 THEN regs = << >> ELSE
  /\ Len(regs) % k = 0
  /\ \A b \in 0..((Len(regs) \div k) - 1) :
       /\ {regs[b * k + j].L : j \in 1..k} = Names(flat)
       /\ \A j \in 1..k : regs[b * k + j].m = regs[b * k + 1].m
=============================================================================
