----------------------------- MODULE Directives -----------------------------
(***************************************************************************)
(* Target / level / span directives (`Targets`, `EnvFilter`) -- property   *)
(* C11.                                                                    *)
(*                                                                         *)
(* A directive is [t, s, f, v, l]: target prefix ("" = none), span name    *)
(* ("" = none), field name ("" = none), field value (0 = none), level      *)
(* (0 = OFF .. 5 = TRACE).  A filter is a SEQUENCE of directives, in the    *)
(* order they were written; a later directive with the same (t, s, f, v)   *)
(* replaces an earlier one.                                                *)
(*                                                                         *)
(*   A  (what the property says)  StaticAllows / SpanLevel / ScopeLevel /  *)
(*      EventEnabled / SpanAllowed: declarative, over the set of spans     *)
(*      currently entered on the thread and their recorded field values.   *)
(*   M  (what the code does)  a scope STACK of levels pushed on enter and  *)
(*      popped on exit, a by_id table of tracked spans, max-level gates.   *)
(*                                                                         *)
(* The state machine is one thread running a well-nested script: NewSpan,  *)
(* Record (only while the span is not entered), Enter, Exit, Close.  The   *)
(* invariants say that in EVERY reachable state the mechanism's decision   *)
(* for every event / span metadata is one the property allows.             *)
(*                                                                         *)
(* Where the property text leaves room, SpanAllowed is a SET of answers:   *)
(*  (r1/r2) a field-name directive `t[{k}]=l` applied to a SPAN either     *)
(*          ignores the span's field set (code) or requires the field;     *)
(*  (self)  a span whose callsite matches a span-scoped directive is       *)
(*          either enabled up to that directive's level (strict reading of *)
(*          "and for that span itself") or always (the code's documented   *)
(*          intent: "it should always be enabled, since it influences      *)
(*          filtering").  Events have exactly one allowed answer.          *)
(***************************************************************************)
EXTENDS Naturals, Sequences, FiniteSets, TLC

\* str::starts_with on the target universe {"a", "a::b", "ab", "b"}  ("" = no target in the directive)
IsPrefix(p, t) == \/ p = t
                  \/ p = ""
                  \/ (p = "a" /\ t \in {"a", "a::b", "ab"})
PLen(p) == CASE p = "" -> 0 [] p = "a" -> 1 [] p = "b" -> 1 [] p = "ab" -> 2 [] p = "a::b" -> 4
MaxL(S) == IF S = {} THEN 0 ELSE CHOOSE x \in S : \A y \in S : y <= x

CONSTANTS DirU,        \* universe of directives
          MaxDirs,     \* directives per filter
          SpanU,       \* universe of span metadata [lvl, tgt, name]
          Handles,     \* span handles of the script
          KVals,       \* value tokens of field k
          SkipOffPush  \* negative control: the seeded design error "do not push OFF, always pop"

VARIABLES kind,     \* "targets" | "env"
          dirs,     \* the filter
          spans,    \* handle -> [st: "none"|"live"|"dead", m, k, lv]  (k: recorded value token of field k, "" = unset)
          entered,  \* A: sequence of handles entered on this thread, innermost last
          scope     \* M: the thread-local stack of levels
dvars == <<kind, dirs, spans, entered, scope>>

Flds(name) == IF name = "s1" THEN {"k"} ELSE {}
SpanMeta(sm) == [lvl |-> sm.lvl, tgt |-> sm.tgt, kind |-> "span", name |-> sm.name, flds |-> Flds(sm.name)]
EventMeta(lvl, tgt, k) == [lvl |-> lvl, tgt |-> tgt, kind |-> "event", name |-> "", flds |-> IF k THEN {"k"} ELSE {}]
EventU == {EventMeta(lvl, tgt, k) : lvl \in 1..5, tgt \in {"a", "a::b", "ab", "b"}, k \in BOOLEAN}

IsStatic(d)  == d.s = "" /\ d.v = ""
IsDynamic(d) == d.s # "" \/ d.f # ""
\* index sets of the directives in force (a later equal key replaces an earlier one)
SKey(d) == <<d.t, d.f>>
DKey(d) == <<d.t, d.s, d.f, d.v>>
EffStatic(D)  == {i \in DOMAIN D : IsStatic(D[i]) /\ \A j \in DOMAIN D : (j > i /\ IsStatic(D[j])) => SKey(D[j]) # SKey(D[i])}
EffDynamic(D) == {i \in DOMAIN D : IsDynamic(D[i]) /\ \A j \in DOMAIN D : (j > i /\ IsDynamic(D[j])) => DKey(D[j]) # DKey(D[i])}
NF(d) == IF d.f = "" THEN 0 ELSE 1

(* ------------------------------- A ------------------------------------- *)
\* rd = 1: a field-name directive matches every span of its target; rd = 2: only spans that have the field
StaticCares(d, m, rd) ==
  /\ IsPrefix(d.t, m.tgt)
  /\ \/ d.f = ""
     \/ m.kind = "event" /\ d.f \in m.flds
     \/ m.kind = "span" /\ (rd = 1 \/ d.f \in m.flds)
\* the most specific matching directive (longest target prefix, then more field constraints) decides
StaticAllows(D, m, rd) ==
  LET ms == {i \in EffStatic(D) : StaticCares(D[i], m, rd)} IN
  IF ms = {} THEN FALSE
  ELSE LET best == CHOOSE i \in ms : \A j \in ms : \/ PLen(D[j].t) < PLen(D[i].t)
                                                   \/ (PLen(D[j].t) = PLen(D[i].t) /\ NF(D[j]) <= NF(D[i]))
       IN m.lvl <= D[best].l
\* target-only question (`Targets::would_enable`): an event of that target and level with no fields
WouldEnable(D, tgt, lvl) == StaticAllows(D, EventMeta(lvl, tgt, FALSE), 1)

DynCares(d, sm) == /\ IsPrefix(d.t, sm.tgt)
                   /\ (d.s = "" \/ d.s = sm.name)
                   /\ (d.f = "" \/ d.f \in Flds(sm.name))
\* values are compared as canonical tokens ("1", "-3", "true", "1.5", "abc"); "" = no value / not recorded
ValMatch(d, k) == d.v = "" \/ d.v = k
\* the level a span raises while entered: every span-scoped directive matching it by target, name,
\* field presence and recorded value contributes its level
SpanLevel(D, sm, k) == MaxL({D[i].l : i \in {j \in EffDynamic(D) : DynCares(D[j], sm) /\ ValMatch(D[j], k)}})
HasMatcher(D, sm) == \E i \in EffDynamic(D) : DynCares(D[i], sm)

ScopeLevel == MaxL({spans[entered[i]].lv : i \in {j \in DOMAIN entered : spans[entered[j]].st = "live"}})

EventEnabled(m) ==
  IF kind = "targets" THEN StaticAllows(dirs, m, 1)
  ELSE StaticAllows(dirs, m, 1) \/ m.lvl <= ScopeLevel
SpanAllowed(sm, k) ==
  LET m == SpanMeta(sm) IN
  IF kind = "targets" THEN {StaticAllows(dirs, m, 1), StaticAllows(dirs, m, 2)}
  ELSE LET base(rd) == StaticAllows(dirs, m, rd) \/ m.lvl <= ScopeLevel
           strict   == m.lvl <= SpanLevel(dirs, sm, k)
           always   == HasMatcher(dirs, sm)
       IN {base(1) \/ strict, base(2) \/ strict, base(1) \/ always, base(2) \/ always}

(* ------------------------------- M ------------------------------------- *)
StatMax == MaxL({dirs[i].l : i \in {j \in DOMAIN dirs : IsStatic(dirs[j])}})
DynMax  == MaxL({dirs[i].l : i \in {j \in DOMAIN dirs : IsDynamic(dirs[j])}})
HasDyn  == \E i \in DOMAIN dirs : IsDynamic(dirs[i])
HasValueFilters == \E i \in DOMAIN dirs : dirs[i].v # ""
MHint == IF kind = "targets" THEN StatMax
         ELSE IF HasValueFilters THEN 5 ELSE IF StatMax >= DynMax THEN StatMax ELSE DynMax
MStatic(m) == StatMax >= m.lvl /\ StaticAllows(dirs, m, 1)
MEvent(m) ==
  /\ m.lvl <= MHint
  /\ IF kind = "targets" THEN MStatic(m)
     ELSE \/ HasDyn /\ DynMax >= m.lvl /\ \E i \in DOMAIN scope : scope[i] >= m.lvl
          \/ MStatic(m)
MSpan(sm) ==
  LET m == SpanMeta(sm) IN
  /\ m.lvl <= MHint
  /\ IF kind = "targets" THEN MStatic(m)
     ELSE \/ HasDyn /\ HasMatcher(dirs, sm)                      \* register_callsite: Interest::always
          \/ HasDyn /\ DynMax >= m.lvl /\ \E i \in DOMAIN scope : scope[i] >= m.lvl
          \/ MStatic(m)
Tracked(h) == kind = "env" /\ spans[h].st = "live" /\ HasMatcher(dirs, spans[h].m)

(* ----------------------------- actions --------------------------------- *)
NoSpan == [st |-> "none", m |-> [lvl |-> 0, tgt |-> "", name |-> ""], k |-> "", lv |-> 0]
DirSeqs == UNION {[1..n -> DirU] : n \in 0..MaxDirs}
Init == /\ kind \in {"targets", "env"}
        /\ dirs \in {D \in DirSeqs : kind = "targets" => \A i \in DOMAIN D : IsStatic(D[i])}
        /\ spans = [h \in Handles |-> NoSpan]
        /\ entered = << >>
        /\ scope = << >>

\* `live` is the collector's answer; the spec only demands that it is an allowed one
NewSpanWith(h, sm, k, live) ==
  /\ spans[h].st = "none"
  /\ live \in SpanAllowed(sm, k)
  /\ spans' = [spans EXCEPT ![h] = [st |-> IF live THEN "live" ELSE "dead", m |-> sm, k |-> k,
                                     lv |-> IF kind = "env" THEN SpanLevel(dirs, sm, k) ELSE 0]]
  /\ UNCHANGED <<kind, dirs, entered, scope>>
NewSpan(h, sm, k) == NewSpanWith(h, sm, k, MSpan(sm))
Record(h, k) ==
  /\ spans[h].st # "none" /\ "k" \in Flds(spans[h].m.name)
  /\ spans[h].k = ""                  \* a field is recorded once (the code's value matchers are sticky: matched once, matched for good)
  /\ \A i \in DOMAIN entered : entered[i] # h
  /\ spans' = [spans EXCEPT ![h].k = k, ![h].lv = IF kind = "env" THEN SpanLevel(dirs, spans[h].m, k) ELSE 0]
  /\ UNCHANGED <<kind, dirs, entered, scope>>
Enter(h) ==
  /\ spans[h].st # "none"
  /\ \A i \in DOMAIN entered : entered[i] # h
  /\ entered' = Append(entered, h)
  /\ scope' = IF Tracked(h) /\ ~(SkipOffPush /\ spans[h].lv = 0) THEN Append(scope, spans[h].lv) ELSE scope
  /\ UNCHANGED <<kind, dirs, spans>>
Exit(h) ==
  /\ entered # << >> /\ entered[Len(entered)] = h
  /\ entered' = SubSeq(entered, 1, Len(entered) - 1)
  /\ scope' = IF Tracked(h) /\ scope # << >> THEN SubSeq(scope, 1, Len(scope) - 1) ELSE scope
  /\ UNCHANGED <<kind, dirs, spans>>
Close(h) ==
  /\ spans[h].st # "none"
  /\ \A i \in DOMAIN entered : entered[i] # h
  /\ spans' = [spans EXCEPT ![h] = NoSpan]
  /\ UNCHANGED <<kind, dirs, entered, scope>>

Next == \E h \in Handles :
          \/ \E sm \in SpanU, k \in KVals \cup {""} : (k = "" \/ sm.name = "s1") /\ NewSpan(h, sm, k)
          \/ \E k \in KVals : Record(h, k)
          \/ Enter(h) \/ Exit(h) \/ Close(h)
Spec == Init /\ [][Next]_dvars

(* ----------------------------- properties ------------------------------ *)
\* C11: the mechanism enables an event exactly when the property says so, in every reachable state
EventsExact == \A m \in EventU : MEvent(m) = EventEnabled(m)
SpansAllowed == \A sm \in SpanU, k \in KVals \cup {""} : (k = "" \/ sm.name = "s1") => MSpan(sm) \in SpanAllowed(sm, k)
\* would_enable agrees with actual filtering (Targets)
WouldAgrees == kind = "targets" =>
                 \A lvl \in 1..5, tgt \in {"a", "a::b", "ab", "b"} : WouldEnable(dirs, tgt, lvl) = MEvent(EventMeta(lvl, tgt, FALSE))
\* Targets and EnvFilter agree on every filter both accept (a static filter, outside any span)
BothAgree == (entered = << >> /\ \A i \in DOMAIN dirs : IsStatic(dirs[i])) =>
               \A m \in EventU : StaticAllows(dirs, m, 1) = EventEnabled(m)
\* the stack the code keeps is exactly the raised levels of the entered tracked spans, in order
ScopeIsEntered ==
  LET tr == SelectSeq(entered, LAMBDA h : Tracked(h)) IN
  /\ Len(scope) = Len(tr)
  /\ \A i \in DOMAIN scope : scope[i] = spans[tr[i]].lv
\* the hint the filter publishes never hides something the property enables
HintSound == \A m \in EventU : EventEnabled(m) => m.lvl <= MHint
=============================================================================
