SPECIFICATION TraceSpec
CONSTANTS
  DirU = {}
  SpanU = {}
  MaxDirs = 0
  Handles = {1, 2, 3}
  KVals = {}
  SkipOffPush = FALSE
INVARIANT Report
POSTCONDITION Consumed
CHECK_DEADLOCK FALSE
