SPECIFICATION Spec
CONSTANTS
  DirU <- DirUQ
  SpanU <- SpanUQ
  MaxDirs = 2
  Handles = {1, 2}
  KVals = {"1", "2"}
  SkipOffPush = TRUE
INVARIANTS EventsExact
CHECK_DEADLOCK FALSE
