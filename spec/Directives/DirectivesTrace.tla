-------------------------- MODULE DirectivesTrace ---------------------------
(* Validates what the REAL `Targets` / `EnvFilter` did, as logged by the harness binary        *)
(* `directives`, against Directives (A).  Lines:                                                 *)
(*   reset                       start of a chunk                                                *)
(*   case   s, dirs, t_ok, e_ok, would, t_disp, t_rt, t_rt_disp, e_disp, e_rt, e_rt_disp        *)
(*          -> parse acceptance, would_enable table, Display round trips                         *)
(*   start  cfg, kind, dirs      a fresh stack with that filter (global layer or per-layer)      *)
(*   op     one script step with the stack's reply -> the action of Directives of that name;     *)
(*          an event's reply must EQUAL EventEnabled, a span's reply must be IN SpanAllowed.     *)
(* Tags: BAD (C11 violated), TVSE (Targets accepted a string with span syntax and disagrees with *)
(* EnvFilter on it).                                                                             *)
EXTENDS Directives, Json, IOUtils

Rec == ndJsonDeserialize(IOEnv.TRACE)
VARIABLES l, bad, tvse, mode, wrap, wx, fhint   \* wrap: "" | "or" | "and" with LevelFilter wx (FilterExt combinators around the EnvFilter)
tvars == <<dvars, l, bad, tvse, mode, wrap, wx, fhint>>
\* fhint: the max-level hint the real filter published (9 = none / not judged): in a stack where the filter is asked about
\* everything (E-pair) it never lets through a span or event above that level (C08's clause, for EnvFilter)
W(b, lvl) == CASE wrap = "or" -> b \/ lvl <= wx [] wrap = "and" -> b /\ lvl <= wx [] OTHER -> b

AllStatic(D) == \A i \in DOMAIN D : IsStatic(D[i])
TGTS == <<"a", "a::b", "ab", "b">>
\* order of the harness's `all` probe and `would` table
AllIdx(lvl, ti, kb) == (lvl - 1) * 8 + (ti - 1) * 2 + (IF kb THEN 2 ELSE 1)
WouldIdx(lvl, ti) == (lvl - 1) * 4 + ti

CaseOk(r) ==
  /\ ~("panic" \in DOMAIN r)
  /\ ~r.odd => r.e_ok                                         \* every generated string is in EnvFilter's grammar
  /\ (~r.odd /\ ~r.tv) => r.t_ok                              \* ... and in Targets' when it has no span part
  /\ (r.t_ok /\ ~r.tv) =>
        \A lvl \in 1..5, ti \in 1..4 : r.would[WouldIdx(lvl, ti)] = WouldEnable(r.dirs, TGTS[ti], lvl)
  \* Display -> parse yields the same filter (strings whose bracket syntax Targets took for a target name: see TVSE)
  /\ (r.t_ok /\ (~r.tv \/ r.odd)) => r.t_rt = "same" /\ r.t_rt_disp = r.t_disp
  /\ r.e_ok => r.e_rt = "ok" /\ r.e_rt_disp = r.e_disp
TvseCase(r) == r.t_ok /\ ~AllStatic(r.dirs)                   \* Targets accepted span syntax

OpOk(r) ==
  CASE r.op = "span"  -> /\ spans[r.h].st = "none"
                         /\ r.reply \in {W(b, r.lvl) : b \in SpanAllowed([lvl |-> r.lvl, tgt |-> r.tgt, name |-> r.name], r.k)}
                         \* (no hint clause for spans: a span selected by a span-scoped directive is answered `always` at registration
                         \* whatever its level - one of the allowed answers above - so it may be let through above the hint)
    [] r.op = "event" -> /\ r.reply = W(EventEnabled(EventMeta(r.lvl, r.tgt, r.k)), r.lvl)
                         /\ (fhint # 9 /\ r.reply) => r.lvl <= fhint
    [] r.op = "all"   -> \A lvl \in 1..5, ti \in 1..4, kb \in BOOLEAN :
                            r.reply[AllIdx(lvl, ti, kb)] = W(EventEnabled(EventMeta(lvl, TGTS[ti], kb)), lvl)
    [] OTHER -> TRUE

Step(r) ==
  CASE r.op = "span"   -> /\ spans' = [spans EXCEPT ![r.h] =
                                [st |-> IF r.reply THEN "live" ELSE "dead", m |-> [lvl |-> r.lvl, tgt |-> r.tgt, name |-> r.name], k |-> r.k,
                                 lv |-> IF kind = "env" THEN SpanLevel(dirs, [lvl |-> r.lvl, tgt |-> r.tgt, name |-> r.name], r.k) ELSE 0]]
                          /\ UNCHANGED <<kind, dirs, entered, scope>>
    [] r.op = "record" -> Record(r.h, r.k)
    [] r.op = "enter"  -> Enter(r.h)
    [] r.op = "exit"   -> Exit(r.h)
    [] r.op = "close"  -> Close(r.h)
    [] OTHER -> UNCHANGED dvars

TraceInit == /\ l = 0 /\ bad = << >> /\ tvse = << >> /\ mode = "idle" /\ wrap = "" /\ wx = 0 /\ fhint = 9
             /\ kind = "env" /\ dirs = << >> /\ spans = [h \in Handles |-> NoSpan] /\ entered = << >> /\ scope = << >>
TraceNext ==
  /\ l < Len(Rec)
  /\ l' = l + 1
  /\ LET r == Rec[l + 1] IN
       CASE r.ev = "reset" -> UNCHANGED <<dvars, bad, tvse, mode, wrap, wx, fhint>>
         [] r.ev = "case"  -> /\ bad' = (IF CaseOk(r) THEN bad ELSE Append(bad, l + 1))
                              /\ tvse' = tvse
                              /\ UNCHANGED <<dvars, mode, wrap, wx, fhint>>
         \* EnvFilter::new(s) = the directives of s, or the default directive `error` when s has none
         [] r.ev = "start" -> /\ dirs' = (IF r.cfg = "E-new" /\ r.dirs = << >> THEN << [t |-> "", s |-> "", f |-> "", v |-> "", l |-> 1] >> ELSE r.dirs)
                              \* a Targets that accepted span syntax is judged as the EnvFilter it claims to agree with
                              /\ kind' = (IF r.kind = "targets" /\ r.tv THEN "env" ELSE r.kind)
                              /\ mode' = (IF r.kind = "targets" /\ r.tv THEN "tvse" ELSE "normal")
                              /\ spans' = [h \in Handles |-> NoSpan] /\ entered' = << >> /\ scope' = << >>
                              /\ wrap' = r.wrap /\ wx' = r.x /\ fhint' = r.hint
                              /\ UNCHANGED <<bad, tvse>>
         \* (a filter built one directive at a time answers exactly as the parsed one: the directive set decides, not its history)
         [] r.ev = "op"    -> /\ bad' = (IF mode = "tvse" \/ (OpOk(r) /\ ("same_as_parsed" \in DOMAIN r => r.same_as_parsed)) THEN bad ELSE Append(bad, l + 1))
                              /\ tvse' = (IF mode = "tvse" /\ ~OpOk(r) THEN Append(tvse, l + 1) ELSE tvse)
                              /\ Step(r)
                              /\ mode' = mode /\ UNCHANGED <<wrap, wx, fhint>>
TraceSpec == TraceInit /\ [][TraceNext]_tvars
Report == l = Len(Rec) => PrintT("@@BAD " \o ToJson(bad)) /\ PrintT("@@TVSE " \o ToJson(tvse))
Consumed == IF TLCGet("stats").diameter = Len(Rec) + 1 THEN TRUE
            ELSE PrintT("@@STUCK " \o ToJson(TLCGet("stats").diameter)) /\ FALSE
=============================================================================
