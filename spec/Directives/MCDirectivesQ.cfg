SPECIFICATION Spec
CONSTANTS
  DirU <- DirUQ
  SpanU <- SpanUQ
  MaxDirs = 2
  Handles = {1, 2}
  KVals = {"1", "2"}
  SkipOffPush = FALSE
INVARIANTS EventsExact SpansAllowed WouldAgrees BothAgree ScopeIsEntered HintSound
CHECK_DEADLOCK FALSE
