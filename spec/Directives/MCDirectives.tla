---------------------------- MODULE MCDirectives ----------------------------
EXTENDS Directives
Dir(t, s, f, v, l) == [t |-> t, s |-> s, f |-> f, v |-> v, l |-> l]
\* quick universe: 2 targets x {no span, s1} x {no field, k, k=1} x 3 levels
DirUQ == {Dir(t, s, fv[1], fv[2], l) : t \in {"", "a"}, s \in {"", "s1"}, fv \in {<<"", "">>, <<"k", "">>, <<"k", "1">>}, l \in {0, 3, 5}}
SpanUQ == {[lvl |-> lvl, tgt |-> tgt, name |-> n] : lvl \in {4}, tgt \in {"a"}, n \in {"s1", "s2"}}
SpanUM == {[lvl |-> lvl, tgt |-> tgt, name |-> n] : lvl \in {3, 5}, tgt \in {"a", "b"}, n \in {"s1", "s2"}}
\* thorough universe
DirUT == {Dir(t, s, fv[1], fv[2], l) : t \in {"", "a", "a::b"}, s \in {"", "s1", "s2"}, fv \in {<<"", "">>, <<"k", "">>, <<"k", "1">>}, l \in {0, 2, 3, 5}}
SpanUT == {[lvl |-> lvl, tgt |-> tgt, name |-> n] : lvl \in {2, 3, 5}, tgt \in {"a", "a::b", "b"}, n \in {"s1", "s2"}}
=============================================================================
