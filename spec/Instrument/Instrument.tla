----------------------------- MODULE Instrument ------------------------------
(***************************************************************************)
(* #[instrument] -- property C17.                                           *)
(*                                                                          *)
(* A run is one chronological log `L` of records [k, call, ...]:            *)
(*   effect(what, body)   an observable effect of the function under test   *)
(*                        (argument clone / drop, body step, ...)           *)
(*   new_span(id, name, level, target, parent, fields)                      *)
(*   enter(id) exit(id) close(id) follows(id, from) event(level, target,    *)
(*   parent, fields)      collector callbacks                               *)
(*   poll / pending / done(outcome)   the executor polling `call`           *)
(* `call` is the call being polled when the record was produced.            *)
(*                                                                          *)
(* The property, for the attributed twin run `I`, the plain twin run `P`    *)
(* and the expectations `X[c]` of every call c:                             *)
(*   TwinEq      same effects in the same order, same outcome per call      *)
(*   OneSpan     exactly one span per call, as configured                   *)
(*   Bracket     every body effect of c happens while c's span is entered   *)
(*   NothingElse while c's span is entered nothing of another call happens  *)
(*   Events      exactly the expected ret / err events, inside the span     *)
(*   Closed      the span is exited and closed exactly once at the end      *)
(*   Silent      under no / a disabling collector: no span, no event        *)
(***************************************************************************)
EXTENDS Naturals, Sequences, FiniteSets, TLC

Idx(L, P(_)) == {i \in DOMAIN L : P(L[i])}
Effects(L) == LET s == SelectSeq(L, LAMBDA x : x.k = "effect") IN [i \in DOMAIN s |-> <<s[i].call, s[i].what>>]
Outcomes(L) == LET s == SelectSeq(L, LAMBDA x : x.k = "done") IN [i \in DOMAIN s |-> <<s[i].call, s[i].outcome>>]
TwinEq(I, P) == Effects(I) = Effects(P) /\ Outcomes(I) = Outcomes(P)

\* is span s entered just before position j ?
LastEE(L, s, j) == LET c == {i \in 1..(j - 1) : L[i].k \in {"enter", "exit"} /\ L[i].id = s} IN
                   IF c = {} THEN 0 ELSE CHOOSE i \in c : \A i2 \in c : i2 <= i
Entered(L, s, j) == LET i == LastEE(L, s, j) IN i # 0 /\ L[i].k = "enter"

SpanLines(L, c) == {i \in DOMAIN L : L[i].k = "new_span" /\ L[i].call = c}
FieldSet(fs) == {<<fs[i].name, fs[i].v>> : i \in DOMAIN fs}
ExpFieldSet(fs) == {<<fs[i].name, fs[i].v>> : i \in DOMAIN fs}

SpanOk(L, c, x, env) ==
  /\ Cardinality(SpanLines(L, c)) = 1
  /\ LET sp == L[CHOOSE i \in SpanLines(L, c) : TRUE] IN
     /\ sp.name = x.name /\ sp.level = x.level /\ sp.target = x.target
     /\ sp.parent = (CASE x.parent = "root" -> 0 [] x.parent = "given" -> env.psp [] OTHER -> env.outer)
     /\ FieldSet(sp.fields) = ExpFieldSet(x.fields)
     /\ Len(sp.fields) = Cardinality(FieldSet(sp.fields))                    \* each field once
     \* arguments of primitive types arrive as typed values (their visitor method), everything else through Debug
     /\ \A i \in DOMAIN sp.fields : \A j \in DOMAIN x.fields :
          (sp.fields[i].name = x.fields[j].name /\ "m" \in DOMAIN x.fields[j] /\ "m" \in DOMAIN sp.fields[i])
             => (x.fields[j].m = "any" \/ sp.fields[i].m = x.fields[j].m)
     /\ LET fl == {i \in DOMAIN L : L[i].k = "follows" /\ L[i].id = sp.id} IN
          IF x.follows THEN Cardinality(fl) = 1 /\ \A i \in fl : L[i].from = env.psp ELSE fl = {}

SpanOf(L, c) == L[CHOOSE i \in SpanLines(L, c) : TRUE].id

Bracket(L, c) ==
  LET s == SpanOf(L, c) IN
  /\ \A j \in DOMAIN L : (L[j].k = "effect" /\ L[j].call = c /\ L[j].body) => Entered(L, s, j)
  /\ \A j \in DOMAIN L : (L[j].k \in {"enter", "exit"} /\ L[j].id = s) => L[j].call = c
NothingElse(L, c) ==
  LET s == SpanOf(L, c) IN
  \A j \in DOMAIN L : (Entered(L, s, j) /\ L[j].k \in {"effect", "new_span", "event", "poll", "pending", "done"}) => L[j].call = c

Events(L, c, x) ==
  LET s == SpanOf(L, c)
      ev == SelectSeq([i \in DOMAIN L |-> i], LAMBDA i : L[i].k = "event" /\ L[i].call = c)
      lastBody == LET b == {j \in DOMAIN L : L[j].k = "effect" /\ L[j].call = c /\ L[j].body} IN
                  IF b = {} THEN 0 ELSE CHOOSE j \in b : \A j2 \in b : j2 <= j
  IN
  /\ Len(ev) = Len(x.events)
  /\ \A n \in DOMAIN ev :
       LET e == L[ev[n]] IN
       /\ Entered(L, s, ev[n]) /\ e.parent = s                     \* emitted inside the span
       /\ ev[n] > lastBody                                          \* after the body
       /\ e.level = x.events[n].level /\ e.target = x.target
       /\ FieldSet(e.fields) = {<<x.events[n].field, x.events[n].v>>}

Closed(L, c) ==
  LET s == SpanOf(L, c) IN
  /\ Cardinality({i \in DOMAIN L : L[i].k = "close" /\ L[i].id = s}) = 1
  /\ ~Entered(L, s, Len(L) + 1)
  /\ \A i \in DOMAIN L : (L[i].k = "close" /\ L[i].id = s) => \A j \in DOMAIN L : (L[j].k \in {"enter", "exit"} /\ L[j].id = s) => j < i

Silent(L) == \A i \in DOMAIN L : L[i].k \notin {"new_span", "event", "follows", "record"}

\* under a disabling collector the attribute adds nothing at all: also the enter / exit / close callbacks (of spans that are
\* not the attribute's, e.g. an enclosing span the caller entered) are those of the plain twin
Lifecycle(L) == LET s == SelectSeq(L, LAMBDA x : x.k \in {"enter", "exit", "close"}) IN [i \in DOMAIN s |-> <<s[i].k, s[i].id>>]

\* under a collector that accepts exactly the levels up to k (and says so in its hint): the span exists iff its level is
\* accepted, and each ret / err event is delivered iff ITS level is accepted - whatever the span's level is (the shortcuts
\* in front of the collector are evaluated per callsite; C01 for the callsites the attribute generates)
XK(x, k) == [x EXCEPT !.events = SelectSeq(x.events, LAMBDA e : e.level <= k)]
NoSpanCall(L, c) == SpanLines(L, c) = {}
EventsNoSpan(L, c, x) ==
  LET ev == SelectSeq([i \in DOMAIN L |-> i], LAMBDA i : L[i].k = "event" /\ L[i].call = c) IN
  /\ Len(ev) = Len(x.events)
  /\ \A n \in DOMAIN ev :
       LET e == L[ev[n]] IN
       /\ e.level = x.events[n].level /\ e.target = x.target
       /\ FieldSet(e.fields) = {<<x.events[n].field, x.events[n].v>>}

Env(L) == L[1]
AcceptThr(k, I, P, X) ==
  /\ TwinEq(I, P)
  /\ Silent(P)
  /\ \A c \in DOMAIN X : LET cc == c - 1  x == XK(X[c], k) IN
       IF X[c].level <= k
       THEN SpanOk(I, cc, x, Env(I)) /\ Bracket(I, cc) /\ NothingElse(I, cc) /\ Events(I, cc, x) /\ Closed(I, cc)
       ELSE NoSpanCall(I, cc) /\ EventsNoSpan(I, cc, x)
Accept(mode, I, P, X) ==
  /\ TwinEq(I, P)
  /\ Silent(P)
  /\ IF mode = "accept"
     THEN \A c \in DOMAIN X : LET cc == c - 1 IN
            /\ SpanOk(I, cc, X[c], Env(I))
            /\ Bracket(I, cc) /\ NothingElse(I, cc) /\ Events(I, cc, X[c]) /\ Closed(I, cc)
     ELSE Silent(I) /\ Lifecycle(I) = Lifecycle(P)
=============================================================================
