SPECIFICATION Spec
CONSTANT HoldAcrossAwait = FALSE
INVARIANT Accepted
CHECK_DEADLOCK FALSE
