SPECIFICATION Spec
CONSTANT HoldAcrossAwait = TRUE
INVARIANT Accepted
CHECK_DEADLOCK FALSE
