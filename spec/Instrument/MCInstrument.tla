---------------------------- MODULE MCInstrument -----------------------------
(* The #[instrument] expansion as a mechanism producing logs, for two calls interleaved at poll     *)
(* granularity by an executor:                                                                       *)
(*   sync   span + guard before the body; ret/err event after the body, inside the guard             *)
(*   async  the body becomes a future wrapped in Instrumented: every poll is enter / poll / exit,    *)
(*          the ret/err event is emitted by the last poll, dropping the finished future enters once   *)
(*          more, then the span closes                                                                *)
(* Every complete log must satisfy Instrument!Accept (the acceptor used for the real traces is not   *)
(* vacuous and does not reject the intended mechanism).  HoldAcrossAwait is the negative control:    *)
(* the span stays entered while the future is suspended.                                             *)
EXTENDS Instrument

CONSTANT HoldAcrossAwait

Shapes == [kind : {"sync"}, yields : {0}, out : {"ok", "err", "panic"}, cfg : {"none", "ret", "err", "both"}]
          \cup [kind : {"async"}, yields : {1, 2}, out : {"ok", "err", "panic"}, cfg : {"none", "ret", "err", "both"}]
Calls == {0, 1}

VARIABLES shape, L, P, polls, phase
mvars == <<shape, L, P, polls, phase>>

Sid(c) == c + 1
Outcome(c) == CASE shape[c].out = "ok" -> "Ok(5)" [] shape[c].out = "err" -> "Err(MyErr(3))" [] OTHER -> "panic:boom"
ExpEvents(c) ==
  LET s == shape[c] IN
  IF s.out = "panic" THEN << >>
  ELSE IF s.cfg \in {"err", "both"} /\ s.out = "err" THEN << [field |-> "error", v |-> "my-err-3", level |-> 1] >>
  ELSE IF s.cfg = "both" /\ s.out = "ok" THEN << [field |-> "return", v |-> "5", level |-> 3] >>
  ELSE IF s.cfg = "ret" THEN << [field |-> "return", v |-> Outcome(c), level |-> 3] >>
  ELSE << >>
X == [i \in 1..2 |-> [name |-> "inst", level |-> 3, target |-> "m", parent |-> "ctx", follows |-> FALSE,
                      fields |-> << [name |-> "n", v |-> "0"] >>, events |-> ExpEvents(i - 1)]]

Eff(c, w, b) == [k |-> "effect", call |-> c, what |-> w, body |-> b]
Line(c, kk) == [k |-> kk, call |-> c]
SpanLine(c, kk) == [k |-> kk, call |-> c, id |-> Sid(c)]
NewSpan(c) == [k |-> "new_span", call |-> c, id |-> Sid(c), name |-> "inst", level |-> 3, target |-> "m", parent |-> 0,
               fields |-> << [name |-> "n", v |-> "0"] >>]
EventLines(c) == [i \in DOMAIN ExpEvents(c) |-> [k |-> "event", call |-> c, level |-> ExpEvents(c)[i].level, target |-> "m", parent |-> Sid(c),
                                                 fields |-> << [name |-> ExpEvents(c)[i].field, v |-> ExpEvents(c)[i].v] >>]]
Done(c) == [k |-> "done", call |-> c, outcome |-> Outcome(c)]

\* the collector-visible and the plain chunk of poll number p (1-based) of call c
Last(c, p) == p = shape[c].yields + 1
BodyEff(c, p) == IF shape[c].out = "panic" /\ Last(c, p) THEN << Eff(c, <<"b", p>>, TRUE) >> ELSE << Eff(c, <<"b", p>>, TRUE) >>
Chunk(c, p) ==
  LET first == p = 1  last == Last(c, p)  s == shape[c] IN
  << Line(c, "poll") >>
  \o (IF first THEN << NewSpan(c) >> ELSE << >>)
  \o (IF s.kind = "sync" \/ ~HoldAcrossAwait \/ first THEN << SpanLine(c, "enter") >> ELSE << >>)
  \o BodyEff(c, p)
  \o (IF last THEN EventLines(c) ELSE << >>)
  \o (IF s.kind = "sync" \/ ~HoldAcrossAwait \/ last THEN << SpanLine(c, "exit") >> ELSE << >>)
  \o (IF last /\ s.kind = "async" THEN << SpanLine(c, "enter"), SpanLine(c, "exit") >> ELSE << >>)
  \o (IF last THEN << SpanLine(c, "close"), Eff(c, "returned", FALSE), Done(c) >> ELSE << Line(c, "pending") >>)
PlainChunk(c, p) ==
  << Line(c, "poll") >> \o BodyEff(c, p)
  \o (IF Last(c, p) THEN << Eff(c, "returned", FALSE), Done(c) >> ELSE << Line(c, "pending") >>)

EnvLine == [k |-> "env", call |-> 0 - 1, psp |-> 100, outer |-> 0]
Init == /\ shape \in [Calls -> Shapes]
        /\ L = << EnvLine >> /\ P = << EnvLine >>
        /\ polls = [c \in Calls |-> 0]
        /\ phase = "inst"
\* the executor polls a call that is not finished; the plain run uses the same schedule
Poll(c) == /\ polls[c] <= shape[c].yields
           /\ polls' = [polls EXCEPT ![c] = @ + 1]
           /\ L' = L \o Chunk(c, polls[c] + 1)
           /\ P' = P \o PlainChunk(c, polls[c] + 1)
           /\ UNCHANGED <<shape, phase>>
Next == \E c \in Calls : Poll(c)
Spec == Init /\ [][Next]_mvars
AllDone == \A c \in Calls : polls[c] = shape[c].yields + 1
Accepted == AllDone => Accept("accept", L, P, X)
=============================================================================
