-------------------------- MODULE InstrumentTrace ---------------------------
(* Validates the runs of the harness binary `instr` -- one line per case with the chronological    *)
(* logs of the plain twins (`plain`) and of the attributed twins (`inst`) and the expectations `x`  *)
(* of every call -- against Instrument!Accept.  The tag names which clause failed first.            *)
EXTENDS Instrument, Json, IOUtils

Rec == ndJsonDeserialize(IOEnv.TRACE)
VARIABLES l, bad
tvars == <<l, bad>>

Why(r) ==
  IF "panic" \in DOMAIN r THEN "panic"
  ELSE IF ~TwinEq(r.inst, r.plain) THEN "TwinEq"
  ELSE IF ~Silent(r.plain) THEN "PlainNotSilent"
  ELSE IF r.mode = "thr" THEN
       LET X == r.x
           on(c) == X[c].level <= r.thr
           badc(P(_, _)) == \E c \in DOMAIN X : on(c) /\ ~P(c - 1, XK(X[c], r.thr)) IN
       IF badc(LAMBDA cc, x : SpanOk(r.inst, cc, x, Env(r.inst))) THEN "OneSpan"
       ELSE IF badc(LAMBDA cc, x : Bracket(r.inst, cc)) THEN "Bracket"
       ELSE IF badc(LAMBDA cc, x : NothingElse(r.inst, cc)) THEN "NothingElse"
       ELSE IF badc(LAMBDA cc, x : Events(r.inst, cc, x)) THEN "Events"
       ELSE IF badc(LAMBDA cc, x : Closed(r.inst, cc)) THEN "Closed"
       ELSE IF \E c \in DOMAIN X : ~on(c) /\ ~NoSpanCall(r.inst, c - 1) THEN "NoSpan"
       ELSE IF \E c \in DOMAIN X : ~on(c) /\ ~EventsNoSpan(r.inst, c - 1, XK(X[c], r.thr)) THEN "EventsOfDisabledSpan"
       ELSE IF ~AcceptThr(r.thr, r.inst, r.plain, X) THEN "AcceptThr"
       ELSE ""
  ELSE IF r.mode # "accept" THEN (IF ~Silent(r.inst) THEN "Silent" ELSE IF Lifecycle(r.inst) # Lifecycle(r.plain) THEN "Lifecycle" ELSE "")
  ELSE LET X == r.x
           badc(P(_, _)) == \E c \in DOMAIN X : ~P(c - 1, X[c]) IN
       IF badc(LAMBDA cc, x : SpanOk(r.inst, cc, x, Env(r.inst))) THEN "OneSpan"
       ELSE IF badc(LAMBDA cc, x : Bracket(r.inst, cc)) THEN "Bracket"
       ELSE IF badc(LAMBDA cc, x : NothingElse(r.inst, cc)) THEN "NothingElse"
       ELSE IF badc(LAMBDA cc, x : Events(r.inst, cc, x)) THEN "Events"
       ELSE IF badc(LAMBDA cc, x : Closed(r.inst, cc)) THEN "Closed"
       ELSE ""

TraceInit == l = 0 /\ bad = << >>
TraceNext ==
  /\ l < Len(Rec)
  /\ l' = l + 1
  /\ LET r == Rec[l + 1] IN
       IF r.ev = "reset" THEN UNCHANGED bad
       ELSE LET w == Why(r) IN bad' = (IF w = "" THEN bad ELSE Append(bad, <<l + 1, w>>))
TraceSpec == TraceInit /\ [][TraceNext]_tvars
Report == l = Len(Rec) => PrintT("@@BAD " \o ToJson([i \in DOMAIN bad |-> bad[i][1]])) /\ PrintT("@@WHY " \o ToJson([i \in DOMAIN bad |-> bad[i][2]]))
Consumed == IF TLCGet("stats").diameter = Len(Rec) + 1 THEN TRUE
            ELSE PrintT("@@STUCK " \o ToJson(TLCGet("stats").diameter)) /\ FALSE
=============================================================================
