------------------------------- MODULE Rolling ------------------------------
(***************************************************************************)
(* C16 - rolling file appender.                                            *)
(*                                                                         *)
(* Time is a clock reading in seconds; a rotation kind has a period P      *)
(* (60 / 3600 / 86400 s, 0 = never) and period index k = now div P; the    *)
(* file of period k is named from the calendar date of k (the naming is    *)
(* checked by the harness's projection, which maps file names back to      *)
(* period indices with an independent calendar).                           *)
(*                                                                         *)
(* A: `cur` is the period of the most recent rotation (initially the       *)
(* period of the appender's creation).  A write at clock reading `now`     *)
(* rotates iff now has reached the start of the period after `cur`         *)
(* (exactly once, whatever the number of writers); time standing still or  *)
(* stepping back never rotates.  The buffer is appended whole to the file  *)
(* of the (possibly new) current period; every other file is unchanged.    *)
(* With a file limit n, a rotation first removes the oldest-created files  *)
(* so that at most n remain after the new one is created.                  *)
(* M: next_date (an atomic), should_rollover / CAS in advance_date /       *)
(* refresh_writer (prune, create, swap under the write lock) as separate   *)
(* steps of concurrent MakeWriter users; a loser of the CAS may take the   *)
(* read lock on the file being replaced (MCRolling).                       *)
(***************************************************************************)
EXTENDS Integers, Sequences, FiniteSets, TLC

CONSTANTS P,          \* period in seconds, 0 = never
          MaxFiles    \* 0 = unlimited

VARIABLES cur,        \* current period index
          nextDate,   \* clock reading at which the next rotation is due (0 = never)
          files,      \* function: period index -> Seq(buffer id), the appender's files on disk
          created     \* Seq(period index): the files in creation order (oldest first)
avars == <<cur, nextDate, files, created>>

Period(now) == IF P = 0 THEN 0 ELSE now \div P
Due(now) == nextDate # 0 /\ now >= nextDate
\* files kept when a new one is about to be created: the newest MaxFiles - 1
Pruned(cr) == IF MaxFiles = 0 \/ Len(cr) < MaxFiles THEN cr
              ELSE SubSeq(cr, Len(cr) - (MaxFiles - 1) + 1, Len(cr))
SetOf(q) == {q[i] : i \in DOMAIN q}
Restrict(f, S) == [k \in (DOMAIN f) \cap S |-> f[k]]

Create(t0) == /\ cur = Period(t0) /\ nextDate = (IF P = 0 THEN 0 ELSE (Period(t0) + 1) * P)
              /\ files = (Period(t0) :> << >>) /\ created = <<Period(t0)>>

Write(now, id) ==
  IF Due(now) THEN
    LET k == Period(now)
        kept == Pruned(created)
        base == Restrict(files, SetOf(kept))
        old == IF k \in DOMAIN base THEN base[k] ELSE << >>              \* files are opened in append mode
    IN /\ cur' = k
       /\ nextDate' = (k + 1) * P
       /\ files' = (k :> Append(old, id)) @@ base
       /\ created' = IF k \in SetOf(kept) THEN kept ELSE Append(kept, k)
  ELSE /\ files' = [files EXCEPT ![cur] = Append(@, id)]
       /\ UNCHANGED <<cur, nextDate, created>>
=============================================================================
