---------------------------- MODULE RollingTrace ----------------------------
(* Trace validation for C16 (sequential histories through both interfaces): after every write the  *)
(* directory listing, projected to <period index, buffer ids>, must equal A's `files`.  The period   *)
(* length and the file limit change from behaviour to behaviour, so A's operators are restated here *)
(* with P and MaxFiles as variables (same definitions as module Rolling).                            *)
EXTENDS Integers, Sequences, FiniteSets, TLC, Json, IOUtils

Rec == ndJsonDeserialize(IOEnv.TRACE)
VARIABLES P, MaxFiles, cur, nextDate, files, created, l, bad
tvars == <<P, MaxFiles, cur, nextDate, files, created, l, bad>>

Period(now) == IF P = 0 THEN 0 ELSE now \div P
Due(now) == nextDate # 0 /\ now >= nextDate
Pruned(cr) == IF MaxFiles = 0 \/ Len(cr) < MaxFiles THEN cr ELSE SubSeq(cr, Len(cr) - (MaxFiles - 1) + 1, Len(cr))
SetOf(q) == {q[i] : i \in DOMAIN q}
Restrict(f, S) == [k \in (DOMAIN f) \cap S |-> f[k]]
\* total lookups: after a rejected step the state follows the observation, which need not be consistent with `created`
Fl(j) == IF j \in DOMAIN files THEN files[j] ELSE << >>

Reset(r) == LET p == r.p k0 == IF r.p = 0 THEN 0 ELSE r.t0 \div r.p IN
            /\ P' = p /\ MaxFiles' = r.max_files /\ cur' = k0 /\ nextDate' = (IF p = 0 THEN 0 ELSE (k0 + 1) * p)
            \* r.left: files an earlier run of the program left in the directory (period, contents), oldest first
            /\ files' = (k0 :> << >>) @@ [k \in {r.left[i].k : i \in DOMAIN r.left} |-> r.left[CHOOSE i \in DOMAIN r.left : r.left[i].k = k].ids]
            /\ created' = [i \in DOMAIN r.left |-> r.left[i].k] \o <<k0>>
Write(now, id) ==
  IF Due(now) THEN
    LET k == Period(now) kept == Pruned(created) base == Restrict(files, SetOf(kept))
        old == IF k \in DOMAIN base THEN base[k] ELSE << >>
    IN /\ cur' = k /\ nextDate' = (k + 1) * P
       /\ files' = (k :> Append(old, id)) @@ base
       /\ created' = IF k \in SetOf(kept) THEN kept ELSE Append(kept, k)
  ELSE files' = [files EXCEPT ![cur] = Append(@, id)] /\ UNCHANGED <<cur, nextDate, created>>

\* observation: r.files = sequence of [k, ids]; r.names_ok: every file name is the calendar name of its period
ObsFn(r) == [k \in {r.files[i].k : i \in DOMAIN r.files} |-> (CHOOSE i \in DOMAIN r.files : r.files[i].k = k)]
ObsOk(r) == /\ r.names_ok /\ r.write_ok
            /\ Cardinality({r.files[i].k : i \in DOMAIN r.files}) = Len(r.files)
            /\ {r.files[i].k : i \in DOMAIN r.files} = DOMAIN files'
            /\ \A i \in DOMAIN r.files : r.files[i].ids = files'[r.files[i].k]

\* several MakeWriter users at one clock reading, scheduled at the appender's yield points: one rotation at most; every
\* buffer stored exactly once, in the new current file or - having overlapped the rotation - in the file being replaced
\* (a buffer that went to a replaced file which the file limit then removed is gone with that file)
Suffix(q, pre) == SubSeq(q, Len(pre) + 1, Len(q))
IsPrefix(pre, q) == Len(pre) <= Len(q) /\ SubSeq(q, 1, Len(pre)) = pre
Distinct(q) == \A i, j \in DOMAIN q : i # j => q[i] # q[j]
\* the clock readings of the racing threads (one reading for all of them unless the step says otherwise)
Nows(r) == IF "nows" \in DOMAIN r THEN SetOf(r.nows) ELSE {r.now}
\* the periods a rotation of this race may open: that of any reading that is due (the thread that wins the rotation decides)
Cands(r) == {Period(n) : n \in {m \in Nows(r) : Due(m)}}
RotOk(r, k) ==
  LET ids == SetOf(r.ids) o == ObsFn(r)
      obsSeq(j) == r.files[o[j]].ids
      kept == Pruned(created) base == Restrict(files, SetOf(kept))
      oldk == IF k \in DOMAIN base THEN base[k] ELSE << >> IN
  /\ DOMAIN o = SetOf(kept) \cup {k}                                        \* exactly one rotation's worth of pruning
  /\ \A j \in DOMAIN o : j \notin {k, cur} => j \in DOMAIN base /\ obsSeq(j) = base[j]
  /\ IsPrefix(oldk, obsSeq(k)) /\ Distinct(Suffix(obsSeq(k), oldk)) /\ SetOf(Suffix(obsSeq(k), oldk)) \subseteq ids
  /\ (cur \in DOMAIN o /\ cur # k =>
         /\ IsPrefix(Fl(cur), obsSeq(cur)) /\ Distinct(Suffix(obsSeq(cur), Fl(cur)))
         /\ SetOf(Suffix(obsSeq(cur), Fl(cur))) \subseteq ids
         /\ SetOf(Suffix(obsSeq(cur), Fl(cur))) \cap SetOf(Suffix(obsSeq(k), oldk)) = {}
         /\ SetOf(Suffix(obsSeq(cur), Fl(cur))) \cup SetOf(Suffix(obsSeq(k), oldk)) = ids)
  /\ (cur \notin DOMAIN o \/ cur = k => SetOf(Suffix(obsSeq(k), oldk)) \subseteq ids /\ (cur \in DOMAIN o => SetOf(Suffix(obsSeq(k), oldk)) = ids))
RaceOk(r) ==
  LET ids == SetOf(r.ids) o == ObsFn(r)
      obsSeq(k) == r.files[o[k]].ids IN
  /\ r.names_ok /\ r.write_ok /\ Cardinality({r.files[i].k : i \in DOMAIN r.files}) = Len(r.files)
  /\ IF Cands(r) # {} THEN \E k \in Cands(r) : RotOk(r, k)
     ELSE
       /\ DOMAIN o = DOMAIN files
       /\ \A j \in DOMAIN o : j # cur => obsSeq(j) = files[j]
       /\ IsPrefix(Fl(cur), obsSeq(cur)) /\ Distinct(Suffix(obsSeq(cur), Fl(cur))) /\ SetOf(Suffix(obsSeq(cur), Fl(cur))) = ids
RaceEffect(r) ==
  LET o == ObsFn(r)
      k == IF \E j \in Cands(r) : RotOk(r, j) THEN CHOOSE j \in Cands(r) : RotOk(r, j) ELSE Period(r.now) IN
  /\ files' = [j \in DOMAIN o |-> r.files[o[j]].ids]
  /\ IF Cands(r) # {} THEN LET kept == Pruned(created) IN
                          cur' = k /\ nextDate' = (k + 1) * P /\ created' = (IF k \in SetOf(kept) THEN kept ELSE Append(kept, k))
                    ELSE UNCHANGED <<cur, nextDate, created>>

TraceInit == P = 0 /\ MaxFiles = 0 /\ cur = 0 /\ nextDate = 0 /\ files = (0 :> << >>) /\ created = <<0>> /\ l = 0 /\ bad = << >>
TraceNext ==
  /\ l < Len(Rec)
  /\ l' = l + 1
  /\ LET r == Rec[l + 1] IN
       CASE r.ev = "reset" -> Reset(r) /\ bad' = (IF r.init_ok THEN bad ELSE Append(bad, l + 1))
         [] r.ev = "crash" -> UNCHANGED <<P, MaxFiles, cur, nextDate, files, created>> /\ bad' = Append(bad, l + 1)
         [] r.ev = "op" /\ r.op = "race" -> RaceEffect(r) /\ UNCHANGED <<P, MaxFiles>> /\ bad' = (IF RaceOk(r) THEN bad ELSE Append(bad, l + 1))
         [] r.ev = "op" /\ r.op # "race" -> Write(r.now, r.id) /\ UNCHANGED <<P, MaxFiles>> /\ bad' = (IF ObsOk(r) THEN bad ELSE Append(bad, l + 1))
TraceSpec == TraceInit /\ [][TraceNext]_tvars
Report == l = Len(Rec) => PrintT("@@BAD " \o ToJson(bad))
Consumed == IF TLCGet("stats").diameter = Len(Rec) + 1 THEN TRUE
            ELSE PrintT("@@STUCK " \o ToJson(TLCGet("stats").diameter)) /\ FALSE
=============================================================================
