SPECIFICATION MSpec
CONSTANTS
  P = 60
  MaxFiles = 0
  Writers = {1, 2, 3}
  Clock <- ClockQ
INVARIANT ExactlyOnce
INVARIANT RightFile
INVARIANT OneRotationPerBoundary
CHECK_DEADLOCK FALSE
