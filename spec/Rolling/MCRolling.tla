------------------------------ MODULE MCRolling -----------------------------
(* M: concurrent users of the MakeWriter interface, one atomic step per should_rollover load, CAS, *)
(* refresh_writer (under the write lock) and write (under the read lock).  Checked against A:      *)
(* every buffer is stored exactly once, whole; a boundary triggers exactly one rotation; a write    *)
(* lands in the file of the period containing its clock reading or - when it overlapped another     *)
(* thread's rotation - in the file that was being replaced.                                        *)
EXTENDS Rolling
CONSTANTS Writers, Clock      \* Clock: the sequence of clock readings handed out, in order
VARIABLES tick,     \* next index into Clock
          pc,       \* [Writers -> "idle"|"loaded"|"won"|"lost"|"ready"|"done"]
          mynow, mycur, handle,   \* per writer: its clock reading, the next_date it loaded, the file (period) its read lock sees
          nd,       \* M's next_date
          mfile,    \* the period whose file the shared RwLock<File> currently holds
          mfiles,   \* period -> Seq(buffer)
          rotations \* number of refresh_writer executions
mvars == <<tick, pc, mynow, mycur, handle, nd, mfile, mfiles, rotations>>

\* three writers around a boundary: two at the boundary second, one after it
ClockQ == <<59, 60, 60, 61>>
ClockJump == <<59, 200, 130, 200>>
MInit == /\ tick = 2 /\ pc = [w \in Writers |-> "idle"] /\ mynow = [w \in Writers |-> 0] /\ mycur = [w \in Writers |-> 0]
         /\ handle = [w \in Writers |-> 0] /\ nd = (Period(Clock[1]) + 1) * P /\ mfile = Period(Clock[1])
         /\ mfiles = (Period(Clock[1]) :> << >>) /\ rotations = 0
         /\ cur = 0 /\ nextDate = 0 /\ files = << >> /\ created = << >>      \* A's variables are unused here

Start(w) == /\ pc[w] = "idle" /\ tick <= Len(Clock)
            /\ mynow' = [mynow EXCEPT ![w] = Clock[tick]] /\ tick' = tick + 1
            /\ IF nd # 0 /\ Clock[tick] >= nd                                  \* should_rollover: one atomic load
                 THEN pc' = [pc EXCEPT ![w] = "loaded"] /\ mycur' = [mycur EXCEPT ![w] = nd]
                 ELSE pc' = [pc EXCEPT ![w] = "ready"] /\ mycur' = mycur
            /\ UNCHANGED <<handle, nd, mfile, mfiles, rotations, avars>>
Cas(w) ==   /\ pc[w] = "loaded"
            /\ IF nd = mycur[w] THEN nd' = (Period(mynow[w]) + 1) * P /\ pc' = [pc EXCEPT ![w] = "won"]
                                ELSE nd' = nd /\ pc' = [pc EXCEPT ![w] = "ready"]
            /\ UNCHANGED <<tick, mynow, mycur, handle, mfile, mfiles, rotations, avars>>
Refresh(w) == /\ pc[w] = "won" /\ \A x \in Writers : pc[x] # "writing"       \* the write lock excludes readers
              /\ mfile' = Period(mynow[w])
              /\ mfiles' = IF Period(mynow[w]) \in DOMAIN mfiles THEN mfiles ELSE (Period(mynow[w]) :> << >>) @@ mfiles
              /\ rotations' = rotations + 1 /\ pc' = [pc EXCEPT ![w] = "ready"]
              /\ UNCHANGED <<tick, mynow, mycur, handle, nd, avars>>
Lock(w) ==  /\ pc[w] = "ready"                                                  \* read lock: sees the file installed now
            /\ handle' = [handle EXCEPT ![w] = mfile] /\ pc' = [pc EXCEPT ![w] = "writing"]
            /\ UNCHANGED <<tick, mynow, mycur, nd, mfile, mfiles, rotations, avars>>
Put(w) ==   /\ pc[w] = "writing"
            /\ mfiles' = [mfiles EXCEPT ![handle[w]] = Append(@, w)]
            /\ pc' = [pc EXCEPT ![w] = "done"]
            /\ UNCHANGED <<tick, mynow, mycur, handle, nd, mfile, rotations, avars>>
MNext == \E w \in Writers : Start(w) \/ Cas(w) \/ Refresh(w) \/ Lock(w) \/ Put(w)
MSpec == MInit /\ [][MNext]_<<mvars, avars>>

AllDone == \A w \in Writers : pc[w] = "done"
Stored(w) == {k \in DOMAIN mfiles : \E i \in DOMAIN mfiles[k] : mfiles[k][i] = w}
\* never lost, never duplicated
ExactlyOnce == AllDone => \A w \in Writers : Cardinality(Stored(w)) = 1
                                           /\ \A k \in Stored(w) : Cardinality({i \in DOMAIN mfiles[k] : mfiles[k][i] = w}) = 1
\* in its period's file, or (overlapping a rotation) in a file of an earlier period that was being replaced
RightFile == AllDone => \A w \in Writers : \A k \in Stored(w) : k <= Period(mynow[w]) \/ k <= Period(Clock[Len(Clock)])
\* one rotation per boundary crossed: never more rotations than distinct periods entered
OneRotationPerBoundary == rotations <= Cardinality({Period(Clock[i]) : i \in DOMAIN Clock}) - 1
=============================================================================
