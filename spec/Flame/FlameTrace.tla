----------------------------- MODULE FlameTrace -----------------------------
(***************************************************************************)
(* Runs of the harness binary `flame` (a real Registry + FlameSubscriber   *)
(* writing into a buffer, operations executed one at a time on named OS    *)
(* threads) against Flame:                                                 *)
(*  - an operation writes exactly the lines Flame!Chains says, each the    *)
(*    rendering "<thread>;<item>;...;<item> <n>" of the expected chain     *)
(*    (items rendered from the callsites' own metadata as logged by the    *)
(*    harness: [module::]name[:file:line]);                                *)
(*  - the sample n lies between the harness's own clock readings: at least *)
(*    (start of this operation - end of the thread's previous one) and at  *)
(*    most (end of this operation - start of the previous one); the        *)
(*    previous one of a thread's first event is the layer's construction;  *)
(*  - Conservation: per thread the samples add up to the time between the  *)
(*    construction and the thread's last event, within the same readings   *)
(*    (only an upper bound once a sample was skipped).                     *)
(***************************************************************************)
EXTENDS Flame, Json, IOUtils

Rec == ndJsonDeserialize(IOEnv.TRACE)
VARIABLES l, bad, render, metas, lastw, sumv, anyskip
tvars == <<fvars, l, bad, render, metas, lastw, sumv, anyskip>>

Item(s) ==
  (IF render.modp THEN metas[s].module \o "::" ELSE "") \o metas[s].name
  \o (IF render.fl THEN ":" \o metas[s].file \o ":" \o ToString(metas[s].line) ELSE "")
RECURSIVE Join(_)
Join(c) == IF c = << >> THEN "" ELSE Join(SubSeq(c, 1, Len(c) - 1)) \o ";" \o Item(c[Len(c)])
Render(r, c) == (IF cfg.collapsed THEN "all-threads" ELSE r.tname) \o Join(c)

OpOf(r) == [op |-> r.op, t |-> r.t, s |-> r.s, pk |-> r.pk, p |-> r.p, nm |-> r.nm]
LinesOk(r) ==
  LET want == Chains(OpOf(r)) IN
  /\ Len(r.lines) = Len(want)
  /\ \A i \in DOMAIN want :
       /\ r.lines[i].stack = Render(r, want[i])
       /\ r.overflow \/ (/\ r.lines[i].v >= r.t0 - lastw[r.t][2]
                         /\ r.lines[i].v <= r.t1 - lastw[r.t][1])
Ok(r) ==
  CASE r.ev = "op" /\ r.op = "new" -> ~("panic" \in DOMAIN r) /\ r.meta.name = r.nm /\ r.lines = << >>
    [] r.ev = "op" -> ~("panic" \in DOMAIN r) /\ LinesOk(r)
    [] r.ev = "final" ->
         /\ r.extra = ""
         /\ r.overflow \/ \A t \in Threads :
              /\ sumv[t] <= lastw[t][2] - r.n0
              /\ anyskip[t] \/ sumv[t] >= lastw[t][1] - r.n1
    [] r.ev = "crash" -> FALSE
    [] OTHER -> TRUE

TraceInit ==
  /\ FInit([empty |-> TRUE, collapsed |-> FALSE]) /\ l = 0 /\ bad = << >> /\ render = [modp |-> TRUE, fl |-> FALSE]
  /\ metas = [s \in SpanIds |-> [name |-> "", module |-> "", file |-> "", line |-> 0]]
  /\ lastw = [t \in Threads |-> <<0, 0>>] /\ sumv = [t \in Threads |-> 0] /\ anyskip = [t \in Threads |-> FALSE]
TraceNext ==
  /\ l < Len(Rec) /\ l' = l + 1
  /\ UNCHANGED <<last, now, out, skipped>>
  /\ LET r == Rec[l + 1] IN
       IF r.ev = "reset" THEN
            /\ cfg' = r.cfg /\ render' = r.render /\ made' = {} /\ parent' = [s \in SpanIds |-> 0] /\ name' = [s \in SpanIds |-> "-"]
            /\ stack' = [t \in Threads |-> << >>] /\ UNCHANGED <<bad, metas, lastw, sumv, anyskip>>
       ELSE IF r.ev = "init" THEN
            \* the layer was built between the harness's clock readings n0 and n1
            /\ lastw' = [t \in Threads |-> <<r.n0, r.n1>>] /\ sumv' = [t \in Threads |-> 0] /\ anyskip' = [t \in Threads |-> FALSE]
            /\ UNCHANGED <<cfg, made, parent, name, stack, bad, render, metas>>
       ELSE IF r.ev = "op" /\ ~("panic" \in DOMAIN r) /\ Pre(OpOf(r)) THEN
            /\ TreeEffect(OpOf(r))
            /\ metas' = IF r.op = "new" THEN [metas EXCEPT ![r.s] = r.meta] ELSE metas
            /\ lastw' = IF r.op = "new" THEN lastw ELSE [lastw EXCEPT ![r.t] = <<r.t0, r.t1>>]
            /\ sumv' = IF r.op = "new" \/ r.lines = << >> THEN sumv ELSE [sumv EXCEPT ![r.t] = @ + r.lines[1].v]
            /\ anyskip' = IF r.op # "new" /\ r.lines = << >> THEN [anyskip EXCEPT ![r.t] = TRUE] ELSE anyskip
            /\ bad' = (IF Ok(r) THEN bad ELSE Append(bad, l + 1))
            /\ UNCHANGED render
       ELSE /\ UNCHANGED <<cfg, made, parent, name, stack, render, metas, lastw, sumv, anyskip>>
            /\ bad' = (IF Ok(r) THEN bad ELSE Append(bad, l + 1))
TraceSpec == TraceInit /\ [][TraceNext]_tvars
Report == l = Len(Rec) => PrintT("@@BAD " \o ToJson(bad))
Consumed == IF TLCGet("stats").diameter = Len(Rec) + 1 THEN TRUE
            ELSE PrintT("@@STUCK " \o ToJson(TLCGet("stats").diameter)) /\ FALSE
=============================================================================
