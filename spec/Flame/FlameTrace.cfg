SPECIFICATION TraceSpec
CONSTANTS
  Threads = {1, 2, 3}
  SpanIds = {1, 2, 3, 4, 5, 6}
  Names = {"a", "b", "c"}
  MaxTick = 0
INVARIANT Report
POSTCONDITION Consumed
CHECK_DEADLOCK FALSE
