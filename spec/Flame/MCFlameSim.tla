----------------------------- MODULE MCFlameSim -----------------------------
(* random histories for the harness binary `flame` (tlc -simulate); the clock does not tick here - the harness has the real one *)
EXTENDS Flame, Json
CONSTANT MaxSteps
VARIABLES hist, done, render
Enabled == {o \in AllOps : o.op # "tick" /\ Pre(o) /\ (o.op = "enter" => Len(stack[o.t]) < 4)}
SimNext ==
  \/ /\ Len(hist) < MaxSteps /\ ~done /\ Enabled # {}
     /\ \E k \in {RandomElement({o.op : o \in Enabled})} : \E o \in {RandomElement({x \in Enabled : x.op = k})} :
          Effect(o) /\ hist' = Append(hist, o) /\ done' = FALSE /\ UNCHANGED render
  \/ (Len(hist) = MaxSteps \/ Enabled = {}) /\ ~done /\ done' = TRUE /\ UNCHANGED <<fvars, hist, render>>
SimSpec == Init /\ hist = << >> /\ done = FALSE /\ render \in [modp : BOOLEAN, fl : BOOLEAN] /\ [][SimNext]_<<fvars, hist, done, render>>
Emitted == done => PrintT("@@BEH " \o ToJson([src |-> "tlc-simulate", cfg |-> cfg, render |-> render, steps |-> hist]))
=============================================================================
