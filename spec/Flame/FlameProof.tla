----------------------------- MODULE FlameProof -----------------------------
(* Unbounded version of Flame's clock bookkeeping (any set of threads, any run length): with one clock reading per thread  *)
(* that every enter / exit consumes, the samples written for a thread plus the samples swallowed (a root span entered     *)
(* while empty_samples is off) always add up to the time between the layer's construction (clock 0) and the thread's     *)
(* last event, every sample is non-negative, and no thread's reading is ahead of the clock.  `written[t]` is the sum that  *)
(* Flame!SumV(out, t) computes from the output; which stack a sample is attributed to does not matter here, so the span   *)
(* tree is abstracted into the choice `skip`.  Checked by the TLA+ proof system (tlapm), not by TLC.                      *)
EXTENDS Integers, TLAPS

CONSTANT Threads
VARIABLES now, last, written, skipped, minv
vars == <<now, last, written, skipped, minv>>

Init == /\ now = 0 /\ last = [t \in Threads |-> 0] /\ written = [t \in Threads |-> 0]
        /\ skipped = [t \in Threads |-> 0] /\ minv = 0
Tick == /\ now' \in Int /\ now' >= now /\ UNCHANGED <<last, written, skipped, minv>>
\* an enter / exit on thread t: the sample is (now - last[t]); it is written, or (skip) swallowed
Event(t, skip) ==
  LET v == now - last[t] IN
  /\ last' = [last EXCEPT ![t] = now]
  /\ written' = IF skip THEN written ELSE [written EXCEPT ![t] = @ + v]
  /\ skipped' = IF skip THEN [skipped EXCEPT ![t] = @ + v] ELSE skipped
  /\ minv' = IF v < minv THEN v ELSE minv          \* the smallest sample so far (0 if none is negative)
  /\ now' = now
Next == Tick \/ \E t \in Threads : \E skip \in BOOLEAN : Event(t, skip)
Spec == Init /\ [][Next]_vars

Conservation == \A t \in Threads : written[t] + skipped[t] = last[t]
NonNegative == minv = 0

Inv == /\ now \in Int /\ minv \in Int
       /\ last \in [Threads -> Int] /\ written \in [Threads -> Int] /\ skipped \in [Threads -> Int]
       /\ \A t \in Threads : last[t] <= now
       /\ Conservation /\ NonNegative

THEOREM Safe == Spec => [](Conservation /\ NonNegative)
<1>1. Init => Inv
  BY DEF Init, Inv, Conservation, NonNegative
<1>2. Inv /\ [Next]_vars => Inv'
  <2> SUFFICES ASSUME Inv, [Next]_vars PROVE Inv'
    OBVIOUS
  <2>1. CASE Tick
    BY <2>1 DEF Inv, Tick, Conservation, NonNegative
  <2>2. ASSUME NEW t \in Threads, NEW skip \in BOOLEAN, Event(t, skip) PROVE Inv'
    <3>1. CASE skip = TRUE
      BY <2>2, <3>1 DEF Inv, Event, Conservation, NonNegative
    <3>2. CASE skip = FALSE
      BY <2>2, <3>2 DEF Inv, Event, Conservation, NonNegative
    <3>3. QED
      BY <3>1, <3>2
  <2>3. CASE UNCHANGED vars
    BY <2>3 DEF Inv, vars, Conservation, NonNegative
  <2>4. QED
    BY <2>1, <2>2, <2>3 DEF Next
<1>3. Inv => Conservation /\ NonNegative
  BY DEF Inv
<1>4. QED
  BY <1>1, <1>2, <1>3, PTL DEF Spec
=============================================================================
