------------------------------- MODULE Flame --------------------------------
(***************************************************************************)
(* tracing-flame: the folded-stack sample writer (FlameSubscriber), a      *)
(* consumer of the registry's span tree that is not named by any of the    *)
(* listed properties - part of the specification's growth beyond them.     *)
(*                                                                         *)
(* The layer keeps ONE reading of the clock per thread (LAST_EVENT,        *)
(* initially the moment the first FlameSubscriber was built) and writes    *)
(* one line "<thread>;<root>;...;<leaf> <nanoseconds>" per span entry /    *)
(* exit, under a mutex around the writer:                                  *)
(*   enter s : the time since the thread's last event is attributed to     *)
(*             the chain of s's PARENT (explicit or contextual parent as   *)
(*             the registry stored it - not the thread's entered stack);   *)
(*             with empty_samples = FALSE a root span's entry writes       *)
(*             nothing, but the clock reading is still consumed            *)
(*   exit s  : the time since the last event goes to the chain of s        *)
(* What a reader of the flame graph relies on:                             *)
(*   Conservation  per thread, the values written plus the values          *)
(*                 swallowed by skipped samples add up to the time between *)
(*                 the construction of the layer and the thread's last     *)
(*                 event - no time is counted twice or lost;               *)
(*   Attribution   every written stack is a root-to-leaf chain of the      *)
(*                 span tree;                                              *)
(*   WholeLines    a line is written whole (one write under the mutex).    *)
(* `now` is a logical clock; the trace specification replaces it by the    *)
(* harness's own clock readings around each operation.                     *)
(***************************************************************************)
EXTENDS Integers, Sequences, FiniteSets, TLC

CONSTANTS Threads, SpanIds, Names, MaxTick
VARIABLES cfg,       \* [empty |-> BOOLEAN, collapsed |-> BOOLEAN]
          made,      \* spans created so far
          parent,    \* span -> parent span or 0
          name,      \* span -> name
          stack,     \* thread -> sequence of entered spans (for contextual parents)
          last,      \* thread -> the clock reading of its last event
          now,       \* the clock
          out,       \* the lines written: [t, chain, v]
          skipped    \* thread -> time swallowed by samples that were not written
fvars == <<cfg, made, parent, name, stack, last, now, out, skipped>>

\* the registry's current span of a thread: the most recently entered span, not counting a re-entry of a span that is already
\* on the thread's stack (SpanStack marks such an entry as a duplicate and skips it)
Top(q) == LET first == {i \in DOMAIN q : \A j \in 1..(i - 1) : q[j] # q[i]} IN
          IF first = {} THEN 0 ELSE q[CHOOSE i \in first : \A k \in first : k <= i]
RECURSIVE Chain(_, _)
Chain(par, s) == IF s = 0 THEN << >> ELSE Append(Chain(par, par[s]), s)

AllOps ==
  [op : {"new"}, t : Threads, s : SpanIds, pk : {"root", "explicit", "ctx"}, p : SpanIds \cup {0}, nm : Names]
  \cup [op : {"enter", "exit"}, t : Threads, s : SpanIds, pk : {"-"}, p : {0}, nm : {"-"}]
  \cup [op : {"tick"}, t : Threads, s : {0}, pk : {"-"}, p : {0}, nm : {"-"}]

Pre(o) ==
  CASE o.op = "new"   -> /\ o.s \notin made /\ \A x \in SpanIds : x < o.s => x \in made
                         /\ IF o.pk = "explicit" THEN o.p \in made ELSE o.p = 0
    [] o.op = "enter" -> o.s \in made
    [] o.op = "exit"  -> \E i \in DOMAIN stack[o.t] : stack[o.t][i] = o.s
    [] o.op = "tick"  -> now < MaxTick

\* the stacks an operation writes a sample for: none or one
Chains(o) ==
  CASE o.op = "enter" -> IF ~cfg.empty /\ parent[o.s] = 0 THEN << >> ELSE << Chain(parent, parent[o.s]) >>
    [] o.op = "exit"  -> << Chain(parent, o.s) >>
    [] OTHER -> << >>
Written(o) == [i \in DOMAIN Chains(o) |-> [t |-> o.t, chain |-> Chains(o)[i], v |-> now - last[o.t]]]

RemoveLast(q, s) == LET i == CHOOSE i \in DOMAIN q : q[i] = s /\ \A j \in DOMAIN q : q[j] = s => j <= i
                    IN [k \in 1..(Len(q) - 1) |-> IF k < i THEN q[k] ELSE q[k + 1]]

\* the span tree and the threads' entered spans (what the registry keeps)
TreeEffect(o) ==
  /\ cfg' = cfg
  /\ CASE o.op = "new" ->
            /\ made' = made \cup {o.s}
            /\ parent' = [parent EXCEPT ![o.s] = CASE o.pk = "root" -> 0 [] o.pk = "explicit" -> o.p [] OTHER -> Top(stack[o.t])]
            /\ name' = [name EXCEPT ![o.s] = o.nm]
            /\ UNCHANGED stack
       [] o.op \in {"enter", "exit"} ->
            /\ stack' = [stack EXCEPT ![o.t] = IF o.op = "enter" THEN Append(@, o.s) ELSE RemoveLast(@, o.s)]
            /\ UNCHANGED <<made, parent, name>>
       [] OTHER -> UNCHANGED <<made, parent, name, stack>>
\* the clock readings and the output (the layer's own state)
ClockEffect(o) ==
  CASE o.op \in {"enter", "exit"} ->
            /\ out' = out \o Written(o)
            /\ skipped' = [skipped EXCEPT ![o.t] = @ + (IF Written(o) = << >> THEN now - last[o.t] ELSE 0)]
            /\ last' = [last EXCEPT ![o.t] = now]
            /\ now' = now
    [] o.op = "tick" -> now' = now + 1 /\ UNCHANGED <<last, out, skipped>>
    [] OTHER -> UNCHANGED <<last, now, out, skipped>>
Effect(o) == TreeEffect(o) /\ ClockEffect(o)

FInit(c) ==
  /\ cfg = c /\ made = {} /\ parent = [s \in SpanIds |-> 0] /\ name = [s \in SpanIds |-> "-"]
  /\ stack = [t \in Threads |-> << >>] /\ last = [t \in Threads |-> 0] /\ now = 0 /\ out = << >> /\ skipped = [t \in Threads |-> 0]
Init == \E c \in [empty : BOOLEAN, collapsed : BOOLEAN] : FInit(c)
Next == \E o \in AllOps : Pre(o) /\ Effect(o)
Spec == Init /\ [][Next]_fvars

RECURSIVE SumV(_, _)
SumV(q, t) == IF q = << >> THEN 0 ELSE (IF q[Len(q)].t = t THEN q[Len(q)].v ELSE 0) + SumV(SubSeq(q, 1, Len(q) - 1), t)

Conservation == \A t \in Threads : SumV(out, t) + skipped[t] = last[t]
IsChain(c) == \A i \in DOMAIN c : c[i] \in made /\ parent[c[i]] = (IF i = 1 THEN 0 ELSE c[i - 1])
Attribution == \A i \in DOMAIN out : IsChain(out[i].chain) /\ out[i].v >= 0
\* with empty samples switched off nothing is ever attributed to the empty stack by an entry
NoEmptyEntrySample == ~cfg.empty => \A i \in DOMAIN out : out[i].chain # << >>
=============================================================================
