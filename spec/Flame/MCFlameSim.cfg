SPECIFICATION SimSpec
CONSTANTS
  Threads = {1, 2, 3}
  SpanIds = {1, 2, 3, 4, 5, 6}
  Names = {"a", "b", "c"}
  MaxTick = 0
  MaxSteps = 40
INVARIANT Emitted
INVARIANT Conservation
INVARIANT Attribution
INVARIANT NoEmptyEntrySample
CHECK_DEADLOCK FALSE
