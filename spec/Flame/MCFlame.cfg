SPECIFICATION Spec
CONSTANTS
  Threads = {1, 2}
  SpanIds = {1, 2}
  Names = {"a"}
  MaxTick = 2
CONSTRAINT Bound
INVARIANT Conservation
INVARIANT Attribution
INVARIANT NoEmptyEntrySample
CHECK_DEADLOCK FALSE
