----------------------------- MODULE JsonFields -----------------------------
(***************************************************************************)
(* C14 - JSON output: one valid object per line, faithful to the data.     *)
(*                                                                         *)
(* A: every span has a map field-name -> value: the fields given at        *)
(* creation, overridden by later `record` calls (any number of steps, last *)
(* write wins).  The record of an event is ONE line that parses (with an   *)
(* independent parser, duplicate keys rejected) to an object whose event   *)
(* fields are exactly the recorded ones, whose `span` is the leaf of the   *)
(* event's scope with that span's map, and whose `spans` lists the scope   *)
(* root -> leaf with each span's map.  Values are compared as canonical    *)
(* tokens computed by the harness's projection from (a) what was recorded, *)
(* under the documented type mapping, and (b) what the parser returned -   *)
(* per-character escaping validity is decided by that parser, not by TLC.  *)
(* M: the formatter keeps each span's fields as a serialized string and,   *)
(* on `record`, parses it, inserts the new values and re-serializes.       *)
(***************************************************************************)
EXTENDS Naturals, Sequences, FiniteSets, TLC

CONSTANTS Threads, MaxSpans
SpanIds == 1..MaxSpans
VARIABLES opts,   \* [flatten, current_span, span_list]
          n, spar, ent,
          sname,  \* [SpanIds -> name token]
          sf      \* [SpanIds -> Seq([k, v])]  the span's map as a sequence of pairs with distinct keys
jvars == <<opts, n, spar, ent, sname, sf>>

SetOf(q) == {q[i] : i \in DOMAIN q}
Keys(q) == {q[i].k : i \in DOMAIN q}
\* last write wins
Merge(old, new) == SelectSeq(old, LAMBDA p : p.k \notin Keys(new)) \o new
RECURSIVE Anc(_)
Anc(s) == IF s = 0 THEN << >> ELSE Append(Anc(spar[s]), s)
LastOf(q) == q[Len(q)]
Cur(t) == IF ent[t] = << >> THEN 0 ELSE LastOf(ent[t])
Parent(r) == IF r.pk = "root" THEN 0 ELSE IF r.pk = "of" THEN r.p ELSE Cur(r.t)
RemoveLast(q, x) == IF \A i \in DOMAIN q : q[i] # x THEN q ELSE
                    LET i == CHOOSE j \in DOMAIN q : q[j] = x /\ \A k \in DOMAIN q : q[k] = x => k <= j
                    IN SubSeq(q, 1, i - 1) \o SubSeq(q, i + 1, Len(q))

\* an expected pair carries the acceptable renderings of the recorded value (`v` is a sequence of tokens: e.g. a byte
\* slice may appear as an array of numbers or as its hex Debug string); an observed pair carries the one token parsed
Matches(obs, exp) == /\ Len(obs) = Cardinality(SetOf(obs)) /\ Keys(obs) = Keys(exp) /\ Len(obs) = Cardinality(Keys(obs))
                     /\ \A i \in DOMAIN obs : \E j \in DOMAIN exp : exp[j].k = obs[i].k /\ obs[i].v \in SetOf(exp[j].v)
SpanObj(s) == Append(sf[s], [k |-> "name", v |-> <<sname[s]>>])
\* r.exp: the event's own fields as pairs (from the input); r.obs: the parsed line
EventOk(r) ==
  LET scope == Anc(Parent(r)) o == r.obs IN
  /\ o.valid                                                  \* one line, parses, keys unique
  /\ Matches(o.fields, r.exp)                                \* every event field, once, with the recorded value
  /\ (opts.current_span => IF scope = << >> THEN ~o.has_span ELSE o.has_span /\ Matches(o.span, SpanObj(LastOf(scope))))
  /\ (opts.span_list => IF scope = << >> THEN o.spans = << >>
                        ELSE Len(o.spans) = Len(scope) /\ \A i \in DOMAIN scope : Matches(o.spans[i], SpanObj(scope[i])))

Effect(r) ==
  CASE r.op = "new" -> /\ n' = n + 1 /\ spar' = [spar EXCEPT ![n + 1] = Parent(r)]
                       /\ sname' = [sname EXCEPT ![n + 1] = r.nametok] /\ sf' = [sf EXCEPT ![n + 1] = r.exp]
                       /\ UNCHANGED <<opts, ent>>
    [] r.op = "record" -> sf' = [sf EXCEPT ![r.s] = Merge(@, r.exp)] /\ UNCHANGED <<opts, n, spar, ent, sname>>
    [] r.op = "enter" -> ent' = [ent EXCEPT ![r.t] = Append(@, r.s)] /\ UNCHANGED <<opts, n, spar, sname, sf>>
    [] r.op = "exit" -> ent' = [ent EXCEPT ![r.t] = RemoveLast(@, r.s)] /\ UNCHANGED <<opts, n, spar, sname, sf>>
    [] OTHER -> UNCHANGED jvars

(* M: the stored string, abstracted as the sequence of pairs in serialization order (BTreeMap order) *)
MStore(old, new) ==   \* add_fields: parse `old` into a map, let the visitor insert the new values, serialize
  LET m0 == [k \in Keys(old) |-> (CHOOSE p \in SetOf(old) : p.k = k).v]
      m1 == [k \in Keys(old) \cup Keys(new) |-> IF k \in Keys(new) THEN (CHOOSE p \in SetOf(new) : p.k = k).v ELSE m0[k]]
  IN {[k |-> k, v |-> m1[k]] : k \in DOMAIN m1}
=============================================================================
