SPECIFICATION MCSpec
CONSTANTS
  Threads = {1}
  MaxSpans = 1
INVARIANT StoredIsLastWriteWins
CHECK_DEADLOCK FALSE
