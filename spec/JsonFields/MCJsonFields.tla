---------------------------- MODULE MCJsonFields ----------------------------
(* exhaustive: for every history of <= 3 record steps over 3 field names and 2 values, the stored    *)
(* map after the formatter's parse / insert / re-serialize cycle (MStore) is A's last-write-wins map *)
EXTENDS JsonFields
Names == {"a", "b", "c"}
Vals == {1, 2}
Recs == {q \in UNION {[1..k -> [k : Names, v : Vals]] : k \in 0..2} : \A i, j \in DOMAIN q : i # j => q[i].k # q[j].k}
VARIABLES steps, mstored
MCInit == /\ opts = [flatten |-> FALSE, current_span |-> TRUE, span_list |-> TRUE] /\ n = 1 /\ spar = [s \in SpanIds |-> 0]
          /\ ent = [t \in Threads |-> << >>] /\ sname = [s \in SpanIds |-> "x"] /\ sf \in [SpanIds -> Recs]
          /\ steps = 0 /\ mstored = SetOf(sf[1])
MCNext == /\ steps < 3 /\ steps' = steps + 1
          /\ \E r \in Recs : /\ sf' = [sf EXCEPT ![1] = Merge(@, r)]
                             /\ mstored' = MStore(sf[1], r)
          /\ UNCHANGED <<opts, n, spar, ent, sname>>
MCSpec == MCInit /\ [][MCNext]_<<jvars, steps, mstored>>
StoredIsLastWriteWins == mstored = SetOf(sf[1]) /\ \A p, q \in SetOf(sf[1]) : p.k = q.k => p = q
=============================================================================
