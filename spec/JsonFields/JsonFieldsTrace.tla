-------------------------- MODULE JsonFieldsTrace ---------------------------
EXTENDS JsonFields, Json, IOUtils
Rec == ndJsonDeserialize(IOEnv.TRACE)
VARIABLES l, bad
tvars == <<jvars, l, bad>>
Reset(r) == /\ opts' = [flatten |-> r.flatten, current_span |-> r.current_span, span_list |-> r.span_list]
            /\ n' = 0 /\ spar' = [s \in SpanIds |-> 0] /\ ent' = [t \in Threads |-> << >>]
            /\ sname' = [s \in SpanIds |-> ""] /\ sf' = [s \in SpanIds |-> << >>]
TraceInit == /\ opts = [flatten |-> FALSE, current_span |-> TRUE, span_list |-> TRUE] /\ n = 0 /\ spar = [s \in SpanIds |-> 0]
             /\ ent = [t \in Threads |-> << >>] /\ sname = [s \in SpanIds |-> ""] /\ sf = [s \in SpanIds |-> << >>]
             /\ l = 0 /\ bad = << >>
TraceNext ==
  /\ l < Len(Rec)
  /\ l' = l + 1
  /\ LET r == Rec[l + 1] IN
       CASE r.ev = "reset" -> Reset(r) /\ bad' = bad
         [] r.ev = "crash" -> UNCHANGED jvars /\ bad' = Append(bad, l + 1)
         [] r.ev = "op" -> /\ Effect(r)
                           /\ bad' = (IF r.op = "event" /\ ~EventOk(r) THEN Append(bad, l + 1)
                                      ELSE IF r.op # "event" /\ r.nwrites # 0 THEN Append(bad, l + 1) ELSE bad)
TraceSpec == TraceInit /\ [][TraceNext]_tvars
Report == l = Len(Rec) => PrintT("@@BAD " \o ToJson(bad))
Consumed == IF TLCGet("stats").diameter = Len(Rec) + 1 THEN TRUE
            ELSE PrintT("@@STUCK " \o ToJson(TLCGet("stats").diameter)) /\ FALSE
=============================================================================
