---------------------------- MODULE RefCountRace -----------------------------
(***************************************************************************)
(* The last two (or three) references of a registry span are released by    *)
(* different threads at the same time (C05, "closes exactly once", at the    *)
(* granularity of the atomic operations of Registry::try_close):            *)
(*     prev := fetch_sub(ref_count, 1);  if prev == 1 then close            *)
(* The decision is taken from the value the decrement RETURNED.  With        *)
(* NonAtomicDecide the decision is a separate load after the decrement       *)
(* (a seeded design error): two threads can both read 0.                    *)
(***************************************************************************)
EXTENDS Naturals, FiniteSets

CONSTANTS Holders, NonAtomicDecide
VARIABLES refs, pc, prev, closers
rvars == <<refs, pc, prev, closers>>

Init == /\ refs = Cardinality(Holders) /\ pc = [h \in Holders |-> "dec"]
        /\ prev = [h \in Holders |-> 0] /\ closers = {}
Dec(h) == /\ pc[h] = "dec"
          /\ prev' = [prev EXCEPT ![h] = refs]
          /\ refs' = refs - 1
          /\ pc' = [pc EXCEPT ![h] = "decide"]
          /\ UNCHANGED closers
Decide(h) == /\ pc[h] = "decide"
             /\ closers' = IF (IF NonAtomicDecide THEN refs = 0 ELSE prev[h] = 1) THEN closers \cup {h} ELSE closers
             /\ pc' = [pc EXCEPT ![h] = "done"]
             /\ UNCHANGED <<refs, prev>>
Next == \E h \in Holders : Dec(h) \/ Decide(h)
Spec == Init /\ [][Next]_rvars /\ WF_rvars(Next)

AtMostOnce == Cardinality(closers) <= 1
ExactlyOnceAtEnd == (\A h \in Holders : pc[h] = "done") => Cardinality(closers) = 1
=============================================================================
