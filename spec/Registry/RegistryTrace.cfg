SPECIFICATION TraceSpec
CONSTANTS
  ViaDefault = FALSE
  Threads = {1, 2, 3}
  Regs = {1, 2}
  MaxSpans = 60
  TS = {1, 2, 3}
INVARIANT Report
POSTCONDITION Consumed
CHECK_DEADLOCK FALSE
