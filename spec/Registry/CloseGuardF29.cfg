SPECIFICATION Spec
CONSTANTS
  Threads = {1}
  L = 2
  Rounds = 2
  Mode = "count"
  Nesting = TRUE
INVARIANTS ReadableDuringClose ClearedAfterClose
CHECK_DEADLOCK FALSE
