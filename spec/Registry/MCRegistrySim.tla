---------------------------- MODULE MCRegistrySim ---------------------------
EXTENDS Registry, Json
CONSTANTS MaxSteps, Foreign     \* Foreign: allow operations under a default that is not the span's registry
VARIABLES hist, done
OwnDefault(op) == ~Hazard(op) /\ (op.op = "switch" => op.r = 1 \/ (Foreign /\ TRUE))
Enabled == {op \in Ops : Pre(op) /\ Canon(op) /\ (Foreign \/ OwnDefault(op))}
SimNext ==
  \/ /\ Len(hist) < MaxSteps /\ ~done
     /\ LET W == IF \A t \in Threads : cur[t] = 0 THEN {op \in Enabled : op.op = "switch"} ELSE Enabled IN
        \E k \in {RandomElement({op.op : op \in W})} :
        \E op \in {RandomElement({o \in W : o.op = k})} :
           /\ Do(op, MObs(op), MLive(op))
           /\ hist' = Append(hist, IF op.op = "capture" THEN [op EXCEPT !.op = "capture"] @@ [kind |-> RandomElement({"span", "trace"})] ELSE op)
           /\ done' = FALSE
  \/ Len(hist) = MaxSteps /\ ~done /\ done' = TRUE /\ UNCHANGED <<vars, hist>>
SimSpec == Init /\ hist = << >> /\ done = FALSE /\ [][SimNext]_<<vars, hist, done>>
Emitted == done => PrintT("@@BEH " \o ToJson([src |-> "tlc-simulate", steps |-> hist]))
=============================================================================
