SPECIFICATION SimSpec
CONSTANTS
  ViaDefault = FALSE
  Threads = {1, 2, 3}
  Regs = {1, 2}
  MaxSpans = 12
  TS = {1, 2}
  MaxSteps = 60
  Foreign = TRUE
INVARIANT Emitted
INVARIANT Good
INVARIANT RefIsCounts
CHECK_DEADLOCK FALSE
