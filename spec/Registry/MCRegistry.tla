----------------------------- MODULE MCRegistry -----------------------------
EXTENDS Registry
CONSTANT MaxSteps
VARIABLE steps
MCInit == Init /\ steps = 0
MCNext == steps < MaxSteps /\ Next /\ steps' = steps + 1
MCSpec == MCInit /\ [][MCNext]_<<vars, steps>>
View == <<cur, avars, mvars, good, tainted>>
=============================================================================
