------------------------- MODULE RefCountRaceProof --------------------------
(* Unbounded version of Registry/RefCountRace (any set of holders, any start count): the close decision taken from the    *)
(* value RETURNED by the decrement is made by at most one holder.  Checked by the TLA+ proof system (tlapm), not by TLC.  *)
EXTENDS Integers, TLAPS

CONSTANT Holders
VARIABLES refs, pc, prev, closers
vars == <<refs, pc, prev, closers>>

Init == /\ refs \in Int /\ pc = [h \in Holders |-> "dec"]
        /\ prev = [h \in Holders |-> 0] /\ closers = {}
Dec(h) == /\ pc[h] = "dec"
          /\ prev' = [prev EXCEPT ![h] = refs]
          /\ refs' = refs - 1
          /\ pc' = [pc EXCEPT ![h] = "decide"]
          /\ UNCHANGED closers
Decide(h) == /\ pc[h] = "decide"
             /\ closers' = IF prev[h] = 1 THEN closers \cup {h} ELSE closers
             /\ pc' = [pc EXCEPT ![h] = "done"]
             /\ UNCHANGED <<refs, prev>>
Next == \E h \in Holders : Dec(h) \/ Decide(h)
Spec == Init /\ [][Next]_vars

AtMostOnce == \A a, b \in closers : a = b

Inv == /\ refs \in Int
       /\ pc \in [Holders -> {"dec", "decide", "done"}]
       /\ prev \in [Holders -> Int]
       /\ closers \subseteq Holders
       /\ \A h \in Holders : pc[h] # "dec" => prev[h] > refs                      \* every returned value is above the current count
       /\ \A a, b \in Holders : (pc[a] # "dec" /\ pc[b] # "dec" /\ a # b) => prev[a] # prev[b]   \* ... and they are pairwise distinct
       /\ \A h \in closers : pc[h] = "done" /\ prev[h] = 1

THEOREM Safe == Spec => []AtMostOnce
<1>1. Init => Inv
  BY DEF Init, Inv
<1>2. Inv /\ [Next]_vars => Inv'
  <2> SUFFICES ASSUME Inv, [Next]_vars PROVE Inv'
    OBVIOUS
  <2>1. ASSUME NEW h \in Holders, Dec(h) PROVE Inv'
    BY <2>1 DEF Inv, Dec
  <2>2. ASSUME NEW h \in Holders, Decide(h) PROVE Inv'
    BY <2>2 DEF Inv, Decide
  <2>3. CASE UNCHANGED vars
    BY <2>3 DEF Inv, vars
  <2>4. QED
    BY <2>1, <2>2, <2>3 DEF Next
<1>3. Inv => AtMostOnce
  BY DEF Inv, AtMostOnce
<1>4. QED
  BY <1>1, <1>2, <1>3, PTL DEF Spec
=============================================================================
