SPECIFICATION Spec
CONSTANTS
  Threads = {1, 2}
  L = 3
  Rounds = 3
  Mode = "byid"
  Nesting = TRUE
INVARIANTS ReadableDuringClose ClearedAfterClose
CHECK_DEADLOCK FALSE
