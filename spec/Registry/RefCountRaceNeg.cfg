SPECIFICATION Spec
CONSTANTS
  Holders = {1, 2, 3}
  NonAtomicDecide = TRUE
INVARIANTS AtMostOnce ExactlyOnceAtEnd
CHECK_DEADLOCK FALSE
