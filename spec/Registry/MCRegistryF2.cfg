SPECIFICATION MCSpec
CONSTANTS
  ViaDefault = TRUE
  Threads = {1, 2}
  Regs = {1, 2}
  MaxSpans = 3
  TS = {1}
  MaxSteps = 8
VIEW View
INVARIANT GoodEvenIfTainted
CHECK_DEADLOCK FALSE
