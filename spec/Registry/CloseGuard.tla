----------------------------- MODULE CloseGuard -----------------------------
(***************************************************************************)
(* C05, mechanism: the CloseGuard protocol of registry/sharded.rs at the   *)
(* granularity of Layered::try_close frames.                               *)
(*                                                                         *)
(* A stack of L layers is L nested Layered frames.  Closing a span walks   *)
(* down (each frame: Registry::start_close), the registry's try_close      *)
(* answers true, and on the way up each frame tells its layer              *)
(* (Subscribe::on_close - arbitrary user code) and drops its guard; the    *)
(* OUTERMOST frame of that close clears the slot.  Several threads close   *)
(* different spans of the same registry at the same time; a thread closes  *)
(* its spans one after another (a cascade to the parent is such a second   *)
(* close, begun from the clear) - or NESTED: user code inside on_close     *)
(* drops the last handle of another span, whose whole close then runs      *)
(* inside the outer one.                                                   *)
(*                                                                         *)
(* How a guard knows that it is the outermost frame of its close:          *)
(*   Mode = "byid"    the thread keeps the ids being closed; the frame     *)
(*                    that registered the id is the outermost (the code    *)
(*                    after the repair of finding F29)                     *)
(*   Mode = "count"   a per-thread frame counter; the frame that takes it  *)
(*                    from 1 to 0 clears ITS span (the code before the     *)
(*                    repair: right without nesting, leaks the nested      *)
(*                    span - F29)                                          *)
(*   Mode = "shared"  one counter for the registry (negative control for   *)
(*                    closes overlapping across threads)                   *)
(***************************************************************************)
EXTENDS Naturals, FiniteSets, Sequences
CONSTANTS Threads, L, Rounds, Mode, Nesting
VARIABLES stk, next, cnt, notified, removed
vars == <<stk, next, cnt, notified, removed>>
\* stk[t]: the closes in progress on t, outermost first: [r: span, d: frames entered, ph: "down" | "notify" | "guard"]

Key(t) == IF Mode = "shared" THEN 0 ELSE t
Top(t) == stk[t][Len(stk[t])]
SetTop(t, e) == [stk EXCEPT ![t] = [@ EXCEPT ![Len(@)] = e]]
Pop(t) == [stk EXCEPT ![t] = SubSeq(@, 1, Len(@) - 1)]

Init == /\ stk = [t \in Threads |-> << >>] /\ next = [t \in Threads |-> 1]
        /\ cnt = [k \in Threads \cup {0} |-> 0]
        /\ notified = [t \in Threads |-> [r \in 1..Rounds |-> 0]]
        /\ removed = [t \in Threads |-> [r \in 1..Rounds |-> FALSE]]

\* the last handle of the thread's next span is dropped: at top level, or (Nesting) by user code inside an on_close
Begin(t) == /\ next[t] <= Rounds
            /\ stk[t] = << >> \/ (Nesting /\ stk[t] # << >> /\ Top(t).ph = "notify")
            /\ stk' = [stk EXCEPT ![t] = Append(@, [r |-> next[t], d |-> 0, ph |-> "down"])]
            /\ next' = [next EXCEPT ![t] = @ + 1]
            /\ UNCHANGED <<cnt, notified, removed>>
\* Layered::try_close, on the way in: start_close
Down(t) == /\ stk[t] # << >> /\ Top(t).ph = "down" /\ Top(t).d < L
           /\ cnt' = [cnt EXCEPT ![Key(t)] = @ + 1]
           /\ stk' = SetTop(t, [Top(t) EXCEPT !.d = @ + 1, !.ph = IF Top(t).d + 1 = L THEN "notify" ELSE "down"])   \* innermost: the registry answers `true`
           /\ UNCHANGED <<next, notified, removed>>
\* ... on the way out: guard.set_closing(); subscriber.on_close(id, ctx)
Notify(t) == /\ stk[t] # << >> /\ Top(t).ph = "notify"
             /\ notified' = [notified EXCEPT ![t][Top(t).r] = @ + 1]
             /\ stk' = SetTop(t, [Top(t) EXCEPT !.ph = "guard"])
             /\ UNCHANGED <<next, cnt, removed>>
\* ... Drop for CloseGuard
GuardDrop(t) ==
  /\ stk[t] # << >> /\ Top(t).ph = "guard"
  /\ LET c == cnt[Key(t)] e == Top(t)
         outermost == IF Mode = "byid" THEN e.d = 1 ELSE c = 1 IN
       /\ cnt' = [cnt EXCEPT ![Key(t)] = c - 1]
       /\ removed' = IF outermost THEN [removed EXCEPT ![t][e.r] = TRUE] ELSE removed
       /\ stk' = IF e.d = 1 THEN Pop(t) ELSE SetTop(t, [e EXCEPT !.d = @ - 1, !.ph = "notify"])
  /\ UNCHANGED <<next, notified>>

Next == \E t \in Threads : Begin(t) \/ Down(t) \/ Notify(t) \/ GuardDrop(t)
Spec == Init /\ [][Next]_vars

InProgress(t, r) == \E i \in DOMAIN stk[t] : stk[t][i].r = r
\* the slot is cleared only after every layer has been told (the data is readable during each on_close) ...
ReadableDuringClose == \A t \in Threads, r \in 1..Rounds : removed[t][r] => notified[t][r] = L
\* ... and it IS cleared once the outermost frame of that close has returned
ClearedAfterClose == \A t \in Threads, r \in 1..Rounds : (r < next[t] /\ ~InProgress(t, r)) => removed[t][r]
=============================================================================
