----------------------------- MODULE CloseGuard -----------------------------
(***************************************************************************)
(* C05, mechanism: the CloseGuard protocol of registry/sharded.rs at the   *)
(* granularity of Layered::try_close frames.                               *)
(*                                                                         *)
(* A stack of L layers is L nested Layered frames.  Closing a span walks   *)
(* down (each frame: Registry::start_close, counter + 1), the registry's   *)
(* try_close answers true, and on the way up each frame tells its layer    *)
(* (Subscribe::on_close - arbitrary user code, a yield point) and drops    *)
(* its guard: counter - 1, and the frame that takes the counter from 1 to  *)
(* 0 clears the slot.  Several threads close different spans of the same   *)
(* registry at the same time; a thread closes its spans one after another  *)
(* (a cascade to the parent is such a second close, begun from the clear). *)
(*                                                                         *)
(* The counter is a thread-local (CLOSE_COUNT).  Shared = TRUE is the      *)
(* negative control: one counter for the registry.                        *)
(***************************************************************************)
EXTENDS Naturals, FiniteSets
CONSTANTS Threads, L, Rounds, Shared
VARIABLES pc, d, round, cnt, notified, removed
vars == <<pc, d, round, cnt, notified, removed>>

Key(t) == IF Shared THEN 0 ELSE t
Init == /\ pc = [t \in Threads |-> "down"] /\ d = [t \in Threads |-> 0] /\ round = [t \in Threads |-> 1]
        /\ cnt = [k \in Threads \cup {0} |-> 0]
        /\ notified = [t \in Threads |-> [r \in 1..Rounds |-> 0]]
        /\ removed = [t \in Threads |-> [r \in 1..Rounds |-> FALSE]]

\* Layered::try_close, on the way in: start_close
Down(t) == /\ pc[t] = "down" /\ d[t] < L
           /\ cnt' = [cnt EXCEPT ![Key(t)] = @ + 1] /\ d' = [d EXCEPT ![t] = @ + 1]
           /\ pc' = [pc EXCEPT ![t] = IF d[t] + 1 = L THEN "notify" ELSE "down"]     \* innermost: the registry answers `true`
           /\ UNCHANGED <<round, notified, removed>>
\* ... on the way out: guard.set_closing(); subscriber.on_close(id, ctx)
Notify(t) == /\ pc[t] = "notify"
             /\ notified' = [notified EXCEPT ![t][round[t]] = @ + 1]
             /\ pc' = [pc EXCEPT ![t] = "guard"]
             /\ UNCHANGED <<d, round, cnt, removed>>
\* ... Drop for CloseGuard
GuardDrop(t) ==
  /\ pc[t] = "guard"
  /\ LET c == cnt[Key(t)] IN
       /\ cnt' = [cnt EXCEPT ![Key(t)] = c - 1]
       /\ removed' = IF c = 1 THEN [removed EXCEPT ![t][round[t]] = TRUE] ELSE removed
  /\ d' = [d EXCEPT ![t] = @ - 1]
  /\ IF d[t] = 1 THEN IF round[t] < Rounds THEN round' = [round EXCEPT ![t] = @ + 1] /\ pc' = [pc EXCEPT ![t] = "down"]
                      ELSE pc' = [pc EXCEPT ![t] = "done"] /\ UNCHANGED round
     ELSE pc' = [pc EXCEPT ![t] = "notify"] /\ UNCHANGED round
  /\ UNCHANGED notified

Next == \E t \in Threads : Down(t) \/ Notify(t) \/ GuardDrop(t)
Spec == Init /\ [][Next]_vars

\* the slot is cleared only after every layer has been told (the data is readable during each on_close) ...
ReadableDuringClose == \A t \in Threads, r \in 1..Rounds : removed[t][r] => notified[t][r] = L
\* ... and it IS cleared once the outermost frame of that close has returned
ClearedAfterClose == \A t \in Threads, r \in 1..Rounds : (round[t] > r \/ pc[t] = "done") => removed[t][r]
=============================================================================
