SPECIFICATION Spec
CONSTANTS
  Holders = {1, 2, 3}
  NonAtomicDecide = FALSE
INVARIANTS AtMostOnce ExactlyOnceAtEnd
CHECK_DEADLOCK FALSE
