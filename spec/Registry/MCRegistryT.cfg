SPECIFICATION MCSpec
CONSTANTS
  ViaDefault = FALSE
  Threads = {1, 2}
  Regs = {1, 2}
  MaxSpans = 3
  TS = {1}
  MaxSteps = 10
VIEW View
INVARIANT Good
INVARIANT RefIsCounts
CHECK_DEADLOCK FALSE
