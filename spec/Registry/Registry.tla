------------------------------ MODULE Registry ------------------------------
(***************************************************************************)
(* C05 + C06 - the span registry: when a span closes, what `current`,      *)
(* parents and scopes are.                                                 *)
(*                                                                         *)
(* A history is a sequence of operations on 1..3 threads over one or two   *)
(* registries (each under two recording layers): create a span (contextual *)
(* / root / explicit parent), clone or drop a handle, enter / exit in any  *)
(* order (also the same span several times and on several threads),        *)
(* capture Span::current() or a SpanTrace, walk and drop it, emit an event *)
(* (contextual / root / explicit parent), switch the thread's default.     *)
(* Every operation yields an observation `obs` (what the layers saw and    *)
(* what lookups answer afterwards).                                        *)
(*                                                                         *)
(* A: user-level state only - per span its parent, whether it is open, how *)
(*    many handles the program holds (hc), and per thread the enter/exit   *)
(*    history (ent).  A span must be reported closed exactly when hc = 0,  *)
(*    it occurs in no thread's ent, and all children are closed; children  *)
(*    first; readable during the close; gone afterwards.  Current(t) is    *)
(*    the last entry of ent[t]; parents and scopes follow `par`.           *)
(* M: tracing-subscriber/src/registry/{sharded,stack}.rs - ref_count =     *)
(*    handles + non-duplicate stack entries + open children, the per-      *)
(*    thread stack with duplicate markers; exit and the removal of a span  *)
(*    close the span / release its parent through the dispatcher the       *)
(*    registry noted in on_register_dispatch (its own stack).  ViaDefault  *)
(*    = TRUE is the design before findings F2 / F32 were repaired: both    *)
(*    went through the thread's *current default* (MCRegistryF2.cfg keeps  *)
(*    that design as a negative control).                                  *)
(* TLC checks that the observation M predicts satisfies A's checks (Good)  *)
(* for every history within the bounds.                                    *)
(***************************************************************************)
EXTENDS Naturals, Sequences, FiniteSets, TLC

CONSTANTS Threads, Regs, MaxSpans, TS,   \* TS: slots for captured traces / current handles
          ViaDefault                   \* TRUE: the design before finding F2 was repaired (closes routed through the thread's current default)

NoS == 0
SpanIds == 1..MaxSpans

VARIABLES
  cur,     \* [Threads -> Regs \cup {0}]  thread's default collector (a registry stack) or none
  (* A *)
  n,       \* spans created so far; span k is the k-th created
  par,     \* [SpanIds -> SpanIds \cup {0}]
  own,     \* [SpanIds -> Regs \cup {0}]
  open,    \* [SpanIds -> BOOLEAN]
  hc,      \* [SpanIds -> Nat]   handles held by the program (Span values, captured current spans, span traces)
  ent,     \* [Threads -> Seq(SpanIds)]  entered and not yet exited, in order of entry
  tr,      \* [TS -> SpanIds \cup {0}]  captured traces / current-span handles (0 = free, or captured nothing)
  trst,    \* [TS -> {"free","held"}]
  (* M *)
  ref,     \* [SpanIds -> Nat]
  stk,     \* [Threads -> Seq([s, dup])]
  mopen,   \* [SpanIds -> BOOLEAN]  slot occupied
  (* verdict *)
  good, tainted, lastop

avars == <<n, par, own, open, hc, ent, tr, trst>>
mvars == <<ref, stk, mopen>>
vars == <<cur, avars, mvars, good, tainted, lastop>>

Range(s) == {s[i] : i \in DOMAIN s}
Last(s) == s[Len(s)]
Created == 1..n

(* ------------------------------- A ------------------------------------ *)
Children(s) == {c \in Created : par[c] = s}
EnteredAnywhere(s) == \E t \in Threads : s \in Range(ent[t])
\* chain of closes triggered when span s may have lost its last reference; `o`, `h`, `e` are the
\* open / handle-count / entered state in effect
RECURSIVE Chain(_, _, _, _)
Chain(s, o, h, e) ==
  IF s = NoS \/ ~o[s] THEN << >>
  ELSE IF h[s] = 0 /\ (\A t \in Threads : s \notin Range(e[t])) /\ (\A c \in Children(s) : ~o[c])
       THEN <<s>> \o Chain(par[s], [o EXCEPT ![s] = FALSE], h, e)
       ELSE << >>
RECURSIVE Ancestors(_)
Ancestors(s) == IF s = NoS THEN << >> ELSE <<s>> \o Ancestors(par[s])      \* leaf -> root
NoDup(q) == \A i, j \in DOMAIN q : i # j => q[i] # q[j]
\* the spans of registry r entered on t (a thread may be inside spans of both registries)
EntOf(t, r) == SelectSeq(ent[t], LAMBDA s : own[s] = r)
ACurrent(t) == IF cur[t] = 0 \/ EntOf(t, cur[t]) = << >> THEN NoS ELSE Last(EntOf(t, cur[t]))
RemoveLast(q, x) == LET i == CHOOSE j \in DOMAIN q : q[j] = x /\ \A k \in DOMAIN q : q[k] = x => k <= j
                    IN SubSeq(q, 1, i - 1) \o SubSeq(q, i + 1, Len(q))

(* ------------------------------- M ------------------------------------ *)
MCurrent(t) == IF cur[t] = 0 THEN NoS
               ELSE LET q == SelectSeq(stk[t], LAMBDA x : ~x.dup /\ own[x.s] = cur[t])
                    IN IF q = << >> THEN NoS ELSE Last(q).s
\* try_close of span s issued through registry stack r (r = 0: the no-op collector): returns the
\* resulting <<ref, mopen, closes>>; a close releases the parent through `dflt` again
\* the registry stack a close of span s is routed through when the thread's default is d
Route(s, d) == IF ViaDefault THEN d ELSE own[s]
RECURSIVE MClose(_, _, _, _, _)
MClose(s, via, dflt, rf, mo) ==
  IF s = NoS \/ via = 0 \/ via # own[s] \/ ~mo[s] THEN [ref |-> rf, mopen |-> mo, closes |-> << >>]
  ELSE IF rf[s] > 1 THEN [ref |-> [rf EXCEPT ![s] = @ - 1], mopen |-> mo, closes |-> << >>]
  ELSE LET r2 == MClose(par[s], Route(s, dflt), dflt, [rf EXCEPT ![s] = 0], [mo EXCEPT ![s] = FALSE])
       IN [ref |-> r2.ref, mopen |-> r2.mopen, closes |-> <<s>> \o r2.closes]

(* ---------------------------- operations ------------------------------ *)
\* obs: what an operation lets the outside see
\*   closes : spans reported closed by the layers, in order (both layers must agree)
\*   rd     : every close found the span, its stored token and its ancestors readable
\*   par    : (new) parent as the layers see it     clean : (new) no data of an earlier span visible
\*   cur    : current span of the executing thread after the operation (as the default registry reports it)
\*   got    : (capture / strace) the span captured     chain : (event / walk) spans leaf -> root
\*   live   : created spans that can still be looked up (with their own data) afterwards
MObs(op) ==
  LET t == op.t IN
  CASE op.op = "new" ->
         LET p == IF op.pk = "root" THEN NoS ELSE IF op.pk = "ctx" THEN MCurrent(t) ELSE op.p
         IN [closes |-> << >>, rd |-> TRUE, par |-> p, clean |-> TRUE, got |-> NoS, chain |-> << >>]
    [] op.op = "drop" ->
         [closes |-> MClose(op.s, own[op.s], cur[t], ref, mopen).closes, rd |-> TRUE, par |-> NoS, clean |-> TRUE, got |-> NoS, chain |-> << >>]
    [] op.op = "drop2" ->     \* (the mechanism model does not order the nested close; only its final state is used)
         [closes |-> << >>, rd |-> TRUE, par |-> NoS, clean |-> TRUE, got |-> NoS, chain |-> << >>]
    [] op.op = "exit" ->
         LET i == CHOOSE j \in DOMAIN stk[t] : stk[t][j].s = op.s /\ \A k \in DOMAIN stk[t] : stk[t][k].s = op.s => k <= j
         IN [closes |-> IF stk[t][i].dup THEN << >> ELSE MClose(op.s, Route(op.s, cur[t]), cur[t], ref, mopen).closes,
             rd |-> TRUE, par |-> NoS, clean |-> TRUE, got |-> NoS, chain |-> << >>]
    [] op.op = "tdrop" ->
         [closes |-> IF tr[op.k] = NoS THEN << >> ELSE MClose(tr[op.k], own[tr[op.k]], cur[t], ref, mopen).closes,
          rd |-> TRUE, par |-> NoS, clean |-> TRUE, got |-> NoS, chain |-> << >>]
    [] op.op = "capture" ->
         [closes |-> << >>, rd |-> TRUE, par |-> NoS, clean |-> TRUE, got |-> MCurrent(t), chain |-> << >>]
    [] op.op = "event" ->
         LET p == IF op.pk = "root" THEN NoS ELSE IF op.pk = "ctx" THEN MCurrent(t) ELSE op.p
         IN [closes |-> << >>, rd |-> TRUE, par |-> NoS, clean |-> TRUE, got |-> NoS, chain |-> Ancestors(p)]
    [] op.op = "walk" ->
         [closes |-> << >>, rd |-> TRUE, par |-> NoS, clean |-> TRUE, got |-> NoS, chain |-> Ancestors(tr[op.k])]
    [] OTHER -> [closes |-> << >>, rd |-> TRUE, par |-> NoS, clean |-> TRUE, got |-> NoS, chain |-> << >>]

\* handles the program holds as plain Span values (not inside a captured current-span / SpanTrace)
PH(s) == hc[s] - Cardinality({k \in TS : trst[k] = "held" /\ tr[k] = s})
Pre(op) ==
  LET t == op.t IN
  CASE op.op = "new" -> cur[t] # 0 /\ n < MaxSpans /\ (op.pk = "of" => op.p \in Created /\ open[op.p] /\ own[op.p] = cur[t] /\ PH(op.p) > 0)
    [] op.op \in {"clone", "drop"} -> op.s \in Created /\ PH(op.s) > 0 /\ open[op.s]
    \* drop2: the drop of s closes s, and user code inside a layer's on_close(s) drops a handle of y
    [] op.op = "drop2" -> /\ op.s \in Created /\ op.y \in Created /\ op.s # op.y
                          /\ PH(op.s) > 0 /\ PH(op.y) > 0 /\ open[op.s] /\ open[op.y]
                          /\ Chain(op.s, open, [hc EXCEPT ![op.s] = @ - 1], ent) # << >>
    [] op.op = "enter" -> op.s \in Created /\ PH(op.s) > 0 /\ open[op.s]
    [] op.op = "exit" -> op.s \in Range(ent[t])
    [] op.op = "capture" -> trst[op.k] = "free"
    [] op.op \in {"walk", "tdrop"} -> trst[op.k] = "held"
    [] op.op = "event" -> cur[t] # 0 /\ (op.pk = "of" => op.p \in Created /\ open[op.p] /\ own[op.p] = cur[t] /\ PH(op.p) > 0)
    [] op.op = "switch" -> op.r # cur[t]

\* hazard (finding F2): an operation whose close path runs through the thread's current default while
\* that default is not the registry owning the span
Hazard(op) ==
  LET t == op.t IN
  IF ~ViaDefault THEN FALSE ELSE
  CASE op.op = "exit" -> cur[t] # own[op.s]
    [] op.op = "drop" -> cur[t] # own[op.s] /\ par[op.s] # NoS
    [] op.op = "drop2" -> (cur[t] # own[op.s] /\ par[op.s] # NoS) \/ (cur[t] # own[op.y] /\ par[op.y] # NoS)
    [] op.op = "tdrop" -> tr[op.k] # NoS /\ cur[t] # own[tr[op.k]] /\ par[tr[op.k]] # NoS
    [] OTHER -> FALSE

\* A's verdict on an observation, computed from A's state before (unprimed) and after (primed)
Expected(op) ==
  LET t == op.t IN
  CASE op.op = "drop" -> Chain(op.s, open, [hc EXCEPT ![op.s] = @ - 1], ent)
    \* s is reported closed, then y's whole close (and cascade) runs nested, then s is removed and its parents cascade
    [] op.op = "drop2" ->
         LET h1 == [hc EXCEPT ![op.s] = @ - 1, ![op.y] = @ - 1]
             o1 == [open EXCEPT ![op.s] = FALSE]
             Y == Chain(op.y, o1, h1, ent)
             o2 == [x \in SpanIds |-> o1[x] /\ x \notin Range(Y)]
         IN <<op.s>> \o Y \o Chain(par[op.s], o2, h1, ent)
    [] op.op = "exit" -> Chain(op.s, open, hc, [ent EXCEPT ![t] = RemoveLast(@, op.s)])
    [] op.op = "tdrop" -> IF tr[op.k] = NoS THEN << >> ELSE Chain(tr[op.k], open, [hc EXCEPT ![tr[op.k]] = @ - 1], ent)
    [] OTHER -> << >>

\* C05: closes exactly once, at that moment, children first; readable during the close; no stale data
AOk5(op, obs) ==
  /\ obs.closes = Expected(op)
  /\ obs.rd
  /\ (op.op = "new" => obs.clean)
\* C06: parent, current, scope
AOk6(op, obs) ==
  LET t == op.t IN
  /\ (op.op = "new" => /\ (op.pk = "root" => obs.par = NoS)
                       /\ (op.pk = "of" => obs.par = op.p)
                       /\ (op.pk = "ctx" /\ NoDup(ent[t]) => obs.par = ACurrent(t)))
  /\ (op.op = "capture" /\ NoDup(ent[t]) => obs.got = ACurrent(t))
  /\ (op.op = "event" => /\ (op.pk = "root" => obs.chain = << >>)
                         /\ (op.pk = "of" => obs.chain = Ancestors(op.p))
                         /\ (op.pk = "ctx" /\ NoDup(ent[t]) => obs.chain = Ancestors(ACurrent(t))))
  /\ (op.op = "walk" => obs.chain = Ancestors(tr[op.k]))
AOk(op, obs) == AOk5(op, obs) /\ AOk6(op, obs)

AEffect(op, obs) ==
  LET t == op.t IN
  CASE op.op = "new" ->
         /\ n' = n + 1
         /\ par' = [par EXCEPT ![n + 1] = obs.par]
         /\ own' = [own EXCEPT ![n + 1] = cur[t]]
         /\ open' = [open EXCEPT ![n + 1] = TRUE]
         /\ hc' = [hc EXCEPT ![n + 1] = 1]
         /\ UNCHANGED <<ent, tr, trst, cur>>
    [] op.op = "clone" -> hc' = [hc EXCEPT ![op.s] = @ + 1] /\ UNCHANGED <<n, par, own, open, ent, tr, trst, cur>>
    [] op.op = "drop" -> /\ hc' = [hc EXCEPT ![op.s] = @ - 1]
                         /\ open' = [s \in SpanIds |-> open[s] /\ s \notin Range(obs.closes)]
                         /\ UNCHANGED <<n, par, own, ent, tr, trst, cur>>
    [] op.op = "drop2" -> /\ hc' = [hc EXCEPT ![op.s] = @ - 1, ![op.y] = @ - 1]
                          /\ open' = [s \in SpanIds |-> open[s] /\ s \notin Range(obs.closes)]
                          /\ UNCHANGED <<n, par, own, ent, tr, trst, cur>>
    [] op.op = "enter" -> ent' = [ent EXCEPT ![t] = Append(@, op.s)] /\ UNCHANGED <<n, par, own, open, hc, tr, trst, cur>>
    [] op.op = "exit" -> /\ ent' = [ent EXCEPT ![t] = RemoveLast(@, op.s)]
                         /\ open' = [s \in SpanIds |-> open[s] /\ s \notin Range(obs.closes)]
                         /\ UNCHANGED <<n, par, own, hc, tr, trst, cur>>
    [] op.op = "capture" -> /\ tr' = [tr EXCEPT ![op.k] = obs.got]
                            /\ trst' = [trst EXCEPT ![op.k] = "held"]
                            /\ hc' = IF obs.got = NoS THEN hc ELSE [hc EXCEPT ![obs.got] = @ + 1]
                            /\ UNCHANGED <<n, par, own, open, ent, cur>>
    [] op.op = "tdrop" -> /\ trst' = [trst EXCEPT ![op.k] = "free"]
                          /\ tr' = [tr EXCEPT ![op.k] = NoS]
                          /\ hc' = IF tr[op.k] = NoS THEN hc ELSE [hc EXCEPT ![tr[op.k]] = @ - 1]
                          /\ open' = [s \in SpanIds |-> open[s] /\ s \notin Range(obs.closes)]
                          /\ UNCHANGED <<n, par, own, ent, cur>>
    [] op.op \in {"event", "walk"} -> UNCHANGED <<avars, cur>>
    [] op.op = "switch" -> cur' = [cur EXCEPT ![t] = op.r] /\ UNCHANGED avars

MEffect(op) ==
  LET t == op.t IN
  CASE op.op = "new" ->
         LET p == MObs(op).par IN
         /\ ref' = IF p = NoS THEN [ref EXCEPT ![n + 1] = 1] ELSE [ref EXCEPT ![n + 1] = 1, ![p] = @ + 1]
         /\ mopen' = [mopen EXCEPT ![n + 1] = TRUE]
         /\ stk' = stk
    [] op.op = "clone" -> ref' = [ref EXCEPT ![op.s] = @ + 1] /\ UNCHANGED <<stk, mopen>>
    [] op.op = "drop" -> LET r == MClose(op.s, own[op.s], cur[t], ref, mopen) IN ref' = r.ref /\ mopen' = r.mopen /\ stk' = stk
    [] op.op = "drop2" -> LET r1 == MClose(op.s, own[op.s], cur[t], ref, mopen)
                              r2 == MClose(op.y, own[op.y], cur[t], r1.ref, r1.mopen)
                          IN ref' = r2.ref /\ mopen' = r2.mopen /\ stk' = stk
    [] op.op = "enter" -> LET dup == \E i \in DOMAIN stk[t] : stk[t][i].s = op.s IN
                          /\ stk' = [stk EXCEPT ![t] = Append(@, [s |-> op.s, dup |-> dup])]
                          /\ ref' = IF dup THEN ref ELSE [ref EXCEPT ![op.s] = @ + 1]
                          /\ mopen' = mopen
    [] op.op = "exit" -> LET i == CHOOSE j \in DOMAIN stk[t] : stk[t][j].s = op.s /\ \A k \in DOMAIN stk[t] : stk[t][k].s = op.s => k <= j
                             r == IF stk[t][i].dup THEN [ref |-> ref, mopen |-> mopen] ELSE MClose(op.s, Route(op.s, cur[t]), cur[t], ref, mopen)
                         IN /\ stk' = [stk EXCEPT ![t] = SubSeq(@, 1, i - 1) \o SubSeq(@, i + 1, Len(@))]
                            /\ ref' = r.ref /\ mopen' = r.mopen
    [] op.op = "capture" -> LET c == MCurrent(t) IN ref' = (IF c = NoS THEN ref ELSE [ref EXCEPT ![c] = @ + 1]) /\ UNCHANGED <<stk, mopen>>
    [] op.op = "tdrop" -> LET r == IF tr[op.k] = NoS THEN [ref |-> ref, mopen |-> mopen] ELSE MClose(tr[op.k], own[tr[op.k]], cur[t], ref, mopen)
                          IN ref' = r.ref /\ mopen' = r.mopen /\ stk' = stk
    [] OTHER -> UNCHANGED mvars

\* after every operation: what lookups must answer (A) - a span is found iff it is open
LiveOk(live) == live = {s \in Created : open[s]}

Do(op, obs, live) ==
  /\ Pre(op)
  /\ AEffect(op, obs)
  /\ MEffect(op)
  /\ tainted' = (tainted \/ Hazard(op))
  /\ good' = (good /\ AOk(op, obs) /\ (live = {s \in 1..n' : open'[s]}))
  /\ lastop' = op

(* ------------------------------ model --------------------------------- *)
Ops ==
  {[op |-> "new", t |-> t, pk |-> pk, p |-> p] : t \in Threads, pk \in {"ctx", "root", "of"}, p \in SpanIds}
  \cup {[op |-> o, t |-> t, s |-> s] : o \in {"clone", "drop", "enter", "exit"}, t \in Threads, s \in SpanIds}
  \cup {[op |-> o, t |-> t, k |-> k] : o \in {"capture", "walk", "tdrop"}, t \in Threads, k \in TS}
  \cup {[op |-> "event", t |-> t, pk |-> pk, p |-> p] : t \in Threads, pk \in {"ctx", "root", "of"}, p \in SpanIds}
  \cup {[op |-> "switch", t |-> t, r |-> r] : t \in Threads, r \in Regs \cup {0}}
Canon(op) == (op.op \in {"new", "event"} /\ op.pk # "of" => op.p = 1)
             /\ (op.op = "capture" /\ {k \in TS : trst[k] = "free"} # {} => op.k = CHOOSE x \in {k \in TS : trst[k] = "free"} : \A y \in {k \in TS : trst[k] = "free"} : x <= y)

Init ==
  /\ cur = [t \in Threads |-> 0]
  /\ n = 0
  /\ par = [s \in SpanIds |-> NoS] /\ own = [s \in SpanIds |-> 0] /\ open = [s \in SpanIds |-> FALSE]
  /\ hc = [s \in SpanIds |-> 0]
  /\ ent = [t \in Threads |-> << >>]
  /\ tr = [k \in TS |-> NoS] /\ trst = [k \in TS |-> "free"]
  /\ ref = [s \in SpanIds |-> 0] /\ stk = [t \in Threads |-> << >>] /\ mopen = [s \in SpanIds |-> FALSE]
  /\ good = TRUE /\ tainted = FALSE /\ lastop = [op |-> "init"]

MLive(op) == LET r == mopen' IN {s \in 1..n' : r[s]}
Next == \E op \in Ops : Pre(op) /\ Canon(op) /\ Do(op, MObs(op), MLive(op))
Spec == Init /\ [][Next]_vars

\* the property, outside the history class of finding F2
Good == tainted \/ good
\* M's reference count is what A's state implies (outside F2 histories)
RefIsCounts == tainted \/ \A s \in Created : open[s] =>
                 ref[s] = hc[s] + Cardinality({t \in Threads : s \in Range(ent[t])}) + Cardinality({c \in Children(s) : open[c]})
\* with hazards allowed TLC must still find F2 (checked by a separate config expecting a violation)
GoodEvenIfTainted == good
=============================================================================
