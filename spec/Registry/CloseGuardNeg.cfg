SPECIFICATION Spec
CONSTANTS
  Threads = {1, 2, 3}
  L = 3
  Rounds = 2
  Mode = "shared"
  Nesting = FALSE
INVARIANTS ReadableDuringClose ClearedAfterClose
CHECK_DEADLOCK FALSE
