---------------------------- MODULE RegistryTrace ---------------------------
(* Trace validation for C05 / C06: every logged operation is replayed through Do(op, obs, live)   *)
(* with the observation the recording layers and lookups produced.  `bad`: lines where A's verdict *)
(* turns false in an untainted history; `f2`: lines where it turns false in a history that already *)
(* contains a hazard of finding F2; `drift`: lines where the observation differs from M's          *)
(* prediction.                                                                                     *)
EXTENDS Registry, Json, IOUtils

Rec == ndJsonDeserialize(IOEnv.TRACE)
VARIABLES l, bad5, bad6, f2, drift, sid
tvars == <<vars, l, bad5, bad6, f2, drift, sid>>

SetOf(q) == {q[i] : i \in DOMAIN q}
ObsOf(r) ==
  [closes |-> r.closes,
   rd |-> r.rd /\ Len(r.cscopes) = Len(r.closes)
              /\ (\A i \in DOMAIN r.closes : r.closes[i] \in 1..n /\ r.cscopes[i] = Ancestors(r.closes[i]))
              /\ ~("panic" \in DOMAIN r),
   par |-> IF r.op = "new" THEN r.par ELSE NoS,
   clean |-> IF r.op = "new" THEN r.clean ELSE TRUE,
   got |-> IF r.op = "capture" THEN r.got ELSE NoS,
   chain |-> IF r.op \in {"event", "walk"} THEN r.chain ELSE << >>]
\* observations must stay inside the model's value space for the effect functions (a wild value is a violation)
Sane(r) == /\ SetOf(r.closes) \subseteq 1..n
           /\ (r.op = "new" => r.par \in 0..n)
           /\ (r.op = "capture" => r.got \in 0..n)

Reset ==
  /\ cur' = [t \in Threads |-> 0]
  /\ n' = 0
  /\ par' = [s \in SpanIds |-> NoS] /\ own' = [s \in SpanIds |-> 0] /\ open' = [s \in SpanIds |-> FALSE]
  /\ hc' = [s \in SpanIds |-> 0]
  /\ ent' = [t \in Threads |-> << >>]
  /\ tr' = [k \in TS |-> NoS] /\ trst' = [k \in TS |-> "free"]
  /\ ref' = [s \in SpanIds |-> 0] /\ stk' = [t \in Threads |-> << >>] /\ mopen' = [s \in SpanIds |-> FALSE]
  /\ good' = TRUE /\ tainted' = FALSE /\ lastop' = [op |-> "init"]
  /\ sid' = [s \in SpanIds |-> 0]

\* C06: the registry's current span of the executing thread after the operation; C05: ids of live spans distinct
CurOk(r) ==
  (r.op # "switch" /\ NoDup(ent'[r.t]) =>
        r.cur = (IF cur'[r.t] = 0 \/ SelectSeq(ent'[r.t], LAMBDA s : own'[s] = cur'[r.t]) = << >> THEN NoS
                 ELSE Last(SelectSeq(ent'[r.t], LAMBDA s : own'[s] = cur'[r.t]))))
IdOk(r) == (r.op = "new" => r.serial = n' /\ r.id # 0 /\ \A s \in 1..n : (open[s] /\ own[s] = cur[r.t]) => sid[s] # r.id)

\* Do, with the trace-only checks (current span, id uniqueness) folded into `good`
DoT(r) ==
  /\ Pre(r)
  /\ AEffect(r, ObsOf(r))
  /\ MEffect(r)
  /\ tainted' = (tainted \/ Hazard(r))
  /\ good' = (good /\ AOk(r, ObsOf(r)) /\ (SetOf(r.live) = {s \in 1..n' : open'[s]}) /\ CurOk(r) /\ IdOk(r))
  /\ lastop' = r

TraceInit == Init /\ l = 0 /\ bad5 = << >> /\ bad6 = << >> /\ f2 = << >> /\ drift = << >> /\ sid = [s \in SpanIds |-> 0]
TraceNext ==
  /\ l < Len(Rec)
  /\ l' = l + 1
  /\ LET r == Rec[l + 1] IN
       CASE r.ev = "reset" -> Reset /\ UNCHANGED <<bad5, bad6, f2, drift>>
         \* the last references of a span released by several threads at once (RefCountRace): closed exactly once, each round
         [] r.ev = "racedrop" ->
              /\ UNCHANGED <<vars, sid, bad6, f2, drift>>
              /\ bad5' = (IF r.closes = r.rounds /\ r.dup = 0 /\ r.missing = 0 /\ r.panics = 0 /\ ~("panic" \in DOMAIN r) THEN bad5 ELSE Append(bad5, l + 1))
         [] r.ev = "crash" -> UNCHANGED <<vars, sid>> /\ bad5' = Append(bad5, l + 1) /\ bad6' = Append(bad6, l + 1) /\ UNCHANGED <<f2, drift>>
         \* after an F2 hazard the real registries may be corrupted, and after a first disagreement the
         \* model no longer tracks the implementation: the rest of that history is not judged
         [] r.ev = "op" /\ (tainted \/ ~good) ->
              UNCHANGED <<vars, sid, bad5, bad6, f2, drift>>
         [] r.ev = "op" /\ ~(tainted \/ ~good) ->
              IF ~Sane(r) THEN UNCHANGED <<cur, avars, mvars, tainted, lastop, sid, f2, drift>> /\ good' = FALSE
                               /\ bad5' = Append(bad5, l + 1) /\ bad6' = Append(bad6, l + 1)
              ELSE
              /\ DoT(r)
              /\ sid' = IF r.op = "new" THEN [sid EXCEPT ![n + 1] = r.id] ELSE sid
              /\ LET ok5 == AOk5(r, ObsOf(r)) /\ SetOf(r.live) = {s \in 1..n' : open'[s]} /\ IdOk(r)
                     ok6 == AOk6(r, ObsOf(r)) /\ CurOk(r)
                 IN
                   \* only the first failing operation of a behaviour is reported (later ones may be consequences)
                   /\ bad5' = (IF ok5 \/ ~good \/ tainted' THEN bad5 ELSE Append(bad5, l + 1))
                   /\ bad6' = (IF ok6 \/ ~good \/ tainted' THEN bad6 ELSE Append(bad6, l + 1))
                   /\ f2' = (IF (ok5 /\ ok6) \/ ~good \/ ~tainted' THEN f2 ELSE Append(f2, l + 1))
              /\ drift' = (IF tainted' \/ (ObsOf(r).closes = MObs(r).closes /\ ObsOf(r).par = MObs(r).par
                                         /\ ObsOf(r).got = MObs(r).got /\ ObsOf(r).chain = MObs(r).chain)
                           THEN drift ELSE Append(drift, l + 1))
TraceSpec == TraceInit /\ [][TraceNext]_tvars

Report == l = Len(Rec) => PrintT("@@BAD5 " \o ToJson(bad5)) /\ PrintT("@@BAD6 " \o ToJson(bad6)) /\ PrintT("@@F2 " \o ToJson(f2)) /\ PrintT("@@DRIFT " \o ToJson(drift))
Consumed == IF TLCGet("stats").diameter = Len(Rec) + 1 THEN TRUE
            ELSE PrintT("@@STUCK " \o ToJson(TLCGet("stats").diameter)) /\ FALSE
=============================================================================
