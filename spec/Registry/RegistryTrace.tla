---------------------------- MODULE RegistryTrace ---------------------------
(* Trace validation for C05 / C06: every logged operation is replayed through Do(op, obs, live)   *)
(* with the observation the recording layers and lookups produced.  `bad`: lines where A's verdict *)
(* turns false in an untainted history; `f2`: lines where it turns false in a history that already *)
(* contains a hazard of finding F2; `drift`: lines where the observation differs from M's          *)
(* prediction.                                                                                     *)
EXTENDS Registry, Json, IOUtils

Rec == ndJsonDeserialize(IOEnv.TRACE)
VARIABLES l, bad5, bad6, f2, f32, drift, sid, hid
tvars == <<vars, l, bad5, bad6, f2, f32, drift, sid, hid>>

SetOf(q) == {q[i] : i \in DOMAIN q}
ObsOf(r) ==
  [closes |-> r.closes,
   rd |-> r.rd /\ Len(r.cscopes) = Len(r.closes)
              /\ (\A i \in DOMAIN r.closes : r.closes[i] \in 1..n /\ r.cscopes[i] = Ancestors(r.closes[i]))
              /\ ~("panic" \in DOMAIN r),
   par |-> IF r.op = "new" THEN r.par ELSE NoS,
   clean |-> IF r.op = "new" THEN r.clean ELSE TRUE,
   got |-> IF r.op = "capture" THEN r.got ELSE NoS,
   chain |-> IF r.op \in {"event", "walk"} THEN r.chain ELSE << >>]
\* observations must stay inside the model's value space for the effect functions (a wild value is a violation)
Sane(r) == /\ SetOf(r.closes) \subseteq 1..n
           /\ (r.op = "new" => "par" \in DOMAIN r /\ "clean" \in DOMAIN r /\ r.par \in 0..n)
           /\ (r.op = "capture" => "got" \in DOMAIN r /\ r.got \in 0..n)        \* (an operation that panicked lacks its result)
           /\ (r.op \in {"event", "walk"} => "chain" \in DOMAIN r)

Reset ==
  /\ cur' = [t \in Threads |-> 0]
  /\ n' = 0
  /\ par' = [s \in SpanIds |-> NoS] /\ own' = [s \in SpanIds |-> 0] /\ open' = [s \in SpanIds |-> FALSE]
  /\ hc' = [s \in SpanIds |-> 0]
  /\ ent' = [t \in Threads |-> << >>]
  /\ tr' = [k \in TS |-> NoS] /\ trst' = [k \in TS |-> "free"]
  /\ ref' = [s \in SpanIds |-> 0] /\ stk' = [t \in Threads |-> << >>] /\ mopen' = [s \in SpanIds |-> FALSE]
  /\ good' = TRUE /\ tainted' = FALSE /\ lastop' = [op |-> "init"]
  /\ sid' = [s \in SpanIds |-> 0] /\ hid' = [s \in SpanIds |-> FALSE]

\* C06: the registry's current span of the executing thread after the operation; C05: ids of live spans distinct
CurOk(r) ==
  (r.op # "switch" /\ NoDup(ent'[r.t]) =>
        r.cur = (IF cur'[r.t] = 0 \/ SelectSeq(ent'[r.t], LAMBDA s : own'[s] = cur'[r.t]) = << >> THEN NoS
                 ELSE Last(SelectSeq(ent'[r.t], LAMBDA s : own'[s] = cur'[r.t]))))
\* C06: the current span as every layer sees it from inside on_enter / on_exit is the registry's current span of the
\* span's own registry after the operation
CbOk(r) ==
  (r.op \in {"enter", "exit"} /\ NoDup(ent'[r.t]) =>
        r.cbcur = (LET q == SelectSeq(ent'[r.t], LAMBDA s : own'[s] = own[r.s]) IN IF q = << >> THEN NoS ELSE Last(q)))
\* C06: ... and from inside on_close, for the closes an exit or a plain drop performs on the executing thread
ClOk(r) ==
  (r.op \in {"exit", "drop"} /\ "clcur" \in DOMAIN r /\ NoDup(ent'[r.t]) =>
        \A i \in DOMAIN r.clcur :
           r.clcur[i].cur = (LET q == SelectSeq(ent'[r.t], LAMBDA s : own'[s] = r.clcur[i].reg) IN IF q = << >> THEN NoS ELSE Last(q)))
\* C06 under a per-layer filter: layer 3 is not shown the spans marked `hide`; its parents, scopes (by scope() and by
\* repeated parent()) and closes are the registry's with the hidden spans left out; its current span is the most recently
\* entered span it can see.  Named deviation
\* HiddenParentHidesScope: an event whose direct parent is hidden may be shown an empty scope (Context::event_span
\* looks the parent up through the filter and does not walk on) - either answer is accepted.
VisH(q, h) == SelectSeq(q, LAMBDA s : s \in SpanIds /\ ~h[s])
HidAfter(r) == IF r.op = "new" THEN [hid EXCEPT ![n + 1] = r.hide] ELSE hid
V3Ok(r) ==
  ~r.plf \/
  LET h == HidAfter(r) v == r.v3 IN
  /\ v.ok
  /\ IF r.op = "new" /\ ~r.hide
       THEN /\ v.news = 1
            /\ v.scope = <<n + 1>> \o VisH(Ancestors(r.par), h)
            /\ v.par = (IF VisH(Ancestors(r.par), h) = << >> THEN NoS ELSE Head(VisH(Ancestors(r.par), h)))
       ELSE v.news = 0
  /\ v.closes = VisH(r.closes, h) /\ Len(v.cscopes) = Len(v.closes)
  /\ \A i \in DOMAIN v.closes : v.cscopes[i] = VisH(Ancestors(v.closes[i]), h)
  /\ IF r.op = "event"
       THEN /\ v.events = 1
            /\ CASE r.pk = "root" -> v.chain = << >>
                 [] r.pk = "of" -> v.chain = VisH(r.chain, h) \/ (r.chain # << >> /\ Head(r.chain) \in SpanIds /\ h[Head(r.chain)] /\ v.chain = << >>)
                 \* contextual: a filtered layer's current span is the most recently entered span IT can see (which
                 \* need not be an ancestor of the thread's current span) - Context::lookup_current_filtered
                 [] OTHER -> NoDup(ent[r.t]) =>
                               LET q == SelectSeq(EntOf(r.t, cur[r.t]), LAMBDA s : ~h[s]) IN
                               v.chain = (IF q = << >> THEN << >> ELSE VisH(Ancestors(Last(q)), h))
       \* (a handle given up inside a layer's on_event rides on a carrier event of the harness, which layer 3 may see)
       ELSE IF r.op = "drop" /\ "inside" \in DOMAIN r /\ r.inside = "event" THEN v.events <= 1
       ELSE v.events = 0
IdOk(r) == (r.op = "new" => r.serial = n' /\ r.id # 0 /\ \A s \in 1..n : (open[s] /\ own[s] = cur[r.t]) => sid[s] # r.id)

\* hazard (finding F32): the last handle of a span with a parent given up by user code INSIDE a collector callback (a layer's
\* on_event) under a scoped default: the parent's reference is released through get_default, which is re-entered there and
\* hands out no collector - the parent never closes (the same call site as F2; only the trace knows where a drop happens)
Hazard32(r) == ViaDefault /\ r.op = "drop" /\ "inside" \in DOMAIN r /\ r.inside = "event" /\ par[r.s] # NoS
\* Do, with the trace-only checks (current span, id uniqueness) folded into `good`
DoT(r) ==
  /\ Pre(r)
  /\ AEffect(r, ObsOf(r))
  /\ MEffect(r)
  /\ tainted' = (tainted \/ Hazard(r) \/ Hazard32(r))
  /\ good' = (good /\ AOk(r, ObsOf(r)) /\ (SetOf(r.live) = {s \in 1..n' : open'[s]}) /\ CurOk(r) /\ CbOk(r) /\ ClOk(r) /\ V3Ok(r) /\ IdOk(r))
  /\ lastop' = r

TraceInit == Init /\ l = 0 /\ bad5 = << >> /\ bad6 = << >> /\ f2 = << >> /\ f32 = << >> /\ drift = << >> /\ sid = [s \in SpanIds |-> 0]
             /\ hid = [s \in SpanIds |-> FALSE]
TraceNext ==
  /\ l < Len(Rec)
  /\ l' = l + 1
  /\ LET r == Rec[l + 1] IN
       CASE r.ev = "reset" -> Reset /\ UNCHANGED <<bad5, bad6, f2, f32, drift>>
         \* the last references of a span released by several threads at once (RefCountRace): closed exactly once, each round
         [] r.ev = "racedrop" ->
              /\ UNCHANGED <<vars, sid, hid, bad6, f2, f32, drift>>
              /\ bad5' = (IF r.closes = r.rounds /\ r.dup = 0 /\ r.missing = 0 /\ r.panics = 0 /\ ~("panic" \in DOMAIN r) THEN bad5 ELSE Append(bad5, l + 1))
         \* user code panicked (caught) while it held a span's extensions; the span closed and later spans reused its slot:
         \* nothing of it - stale data, a poisoned lock - may be visible to them
         [] r.ev = "poison" ->
              /\ UNCHANGED <<vars, sid, hid, bad6, f2, f32, drift>>
              /\ bad5' = (IF r.poisoned = r.rounds /\ r.panics = 0 /\ r.stale = 0 THEN bad5 ELSE Append(bad5, l + 1))
         [] r.ev = "crash" -> UNCHANGED <<vars, sid, hid>> /\ bad5' = Append(bad5, l + 1) /\ bad6' = Append(bad6, l + 1) /\ UNCHANGED <<f2, f32, drift>>
         \* after an F2 hazard the real registries may be corrupted, and after a first disagreement the
         \* model no longer tracks the implementation: the rest of that history is not judged
         [] r.ev = "op" /\ (tainted \/ ~good) ->
              UNCHANGED <<vars, sid, hid, bad5, bad6, f2, f32, drift>>
         [] r.ev = "op" /\ ~(tainted \/ ~good) ->
              IF ~Sane(r) THEN UNCHANGED <<cur, avars, mvars, tainted, lastop, sid, hid, f2, f32, drift>> /\ good' = FALSE
                               /\ bad5' = Append(bad5, l + 1) /\ bad6' = Append(bad6, l + 1)
              ELSE
              /\ DoT(r)
              /\ sid' = IF r.op = "new" THEN [sid EXCEPT ![n + 1] = r.id] ELSE sid
              /\ hid' = HidAfter(r)
              /\ LET ok5 == AOk5(r, ObsOf(r)) /\ SetOf(r.live) = {s \in 1..n' : open'[s]} /\ IdOk(r)
                     ok6 == AOk6(r, ObsOf(r)) /\ CurOk(r) /\ CbOk(r) /\ ClOk(r) /\ V3Ok(r)
                 IN
                   \* only the first failing operation of a behaviour is reported (later ones may be consequences)
                   /\ bad5' = (IF ok5 \/ ~good \/ tainted' THEN bad5 ELSE Append(bad5, l + 1))
                   /\ bad6' = (IF ok6 \/ ~good \/ tainted' THEN bad6 ELSE Append(bad6, l + 1))
                   /\ f2' = (IF (ok5 /\ ok6) \/ ~good \/ ~tainted' \/ (Hazard32(r) /\ ~Hazard(r)) THEN f2 ELSE Append(f2, l + 1))
                   /\ f32' = (IF (ok5 /\ ok6) \/ ~good \/ ~(Hazard32(r) /\ ~Hazard(r)) THEN f32 ELSE Append(f32, l + 1))
              /\ drift' = (IF tainted' \/ r.op = "drop2" \/ (ObsOf(r).closes = MObs(r).closes /\ ObsOf(r).par = MObs(r).par
                                         /\ ObsOf(r).got = MObs(r).got /\ ObsOf(r).chain = MObs(r).chain)
                           THEN drift ELSE Append(drift, l + 1))
TraceSpec == TraceInit /\ [][TraceNext]_tvars

Report == l = Len(Rec) => PrintT("@@BAD5 " \o ToJson(bad5)) /\ PrintT("@@BAD6 " \o ToJson(bad6)) /\ PrintT("@@F2 " \o ToJson(f2)) /\ PrintT("@@F32 " \o ToJson(f32)) /\ PrintT("@@DRIFT " \o ToJson(drift))
Consumed == IF TLCGet("stats").diameter = Len(Rec) + 1 THEN TRUE
            ELSE PrintT("@@STUCK " \o ToJson(TLCGet("stats").diameter)) /\ FALSE
=============================================================================
