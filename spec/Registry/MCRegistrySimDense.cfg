SPECIFICATION SimSpec
CONSTANTS
  ViaDefault = FALSE
  Threads = {1, 2}
  Regs = {1, 2}
  MaxSpans = 4
  TS = {1}
  MaxSteps = 60
  Foreign = FALSE
INVARIANT Emitted
INVARIANT Good
INVARIANT RefIsCounts
CHECK_DEADLOCK FALSE
