--------------------------- MODULE FmtRecordTrace ---------------------------
EXTENDS FmtRecord, Json, IOUtils
Rec == ndJsonDeserialize(IOEnv.TRACE)
VARIABLES l, bad
tvars == <<fvars, l, bad>>
SetOf(q) == {q[i] : i \in DOMAIN q}

Reset(r) == /\ cfg' = [format |-> r.format, level |-> r.level, se |-> SetOf(r.se), writer |-> r.tree, global |-> r.global]
            /\ n' = 0 /\ spar' = [s \in SpanIds |-> 0] /\ ent' = [t \in Threads |-> << >>]
\* a burst: k threads emit at once; every write carries exactly one event, each event once per selected sink
BurstOk(r) ==
  LET m == [lvl |-> r.lvl, tgt |-> IF r.tgt = "a" THEN "a" ELSE "b\"q"]
      sinks == Route(cfg.writer, m) IN
  /\ \A i \in DOMAIN r.writes : r.writes[i].nl /\ (cfg.format # "pretty" => r.writes[i].oneline) /\ Len(r.writes[i].toks) = 1 /\ r.writes[i].sink \in sinks
  /\ \A s \in sinks : \A tk \in SetOf(r.expect) : Cardinality({i \in DOMAIN r.writes : r.writes[i].sink = s /\ r.writes[i].toks = <<tk>>}) = 1
  /\ Len(r.writes) = Cardinality(sinks) * Len(r.expect)
  /\ r.nometa = 0
TraceInit == cfg = [format |-> "full", level |-> TRUE, se |-> {}, writer |-> [k |-> "sink", id |-> 1], global |-> FALSE] /\ n = 0
             /\ spar = [s \in SpanIds |-> 0] /\ ent = [t \in Threads |-> << >>] /\ l = 0 /\ bad = << >>
TraceNext ==
  /\ l < Len(Rec)
  /\ l' = l + 1
  /\ LET r == Rec[l + 1] IN
       CASE r.ev = "reset" -> Reset(r) /\ bad' = bad
         [] r.ev = "crash" -> UNCHANGED fvars /\ bad' = Append(bad, l + 1)
         [] r.ev = "op" /\ r.op = "burst" -> UNCHANGED fvars /\ bad' = (IF BurstOk(r) THEN bad ELSE Append(bad, l + 1))
         [] r.ev = "op" /\ r.op # "burst" -> Effect(r) /\ bad' = (IF RecordOk(r) THEN bad ELSE Append(bad, l + 1))
TraceSpec == TraceInit /\ [][TraceNext]_tvars
Report == l = Len(Rec) => PrintT("@@BAD " \o ToJson(bad))
Consumed == IF TLCGet("stats").diameter = Len(Rec) + 1 THEN TRUE
            ELSE PrintT("@@STUCK " \o ToJson(TLCGet("stats").diameter)) /\ FALSE
=============================================================================
