SPECIFICATION TraceSpec
CONSTANTS
  Threads = {1, 2, 3}
  MaxSpans = 30
INVARIANT Report
POSTCONDITION Consumed
CHECK_DEADLOCK FALSE
