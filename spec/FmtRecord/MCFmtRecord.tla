---------------------------- MODULE MCFmtRecord -----------------------------
(* exhaustive: the operational combinators (MakeFor) denote Route for every writer expression to   *)
(* depth 3 over 3 sinks, 5 levels x 2 targets *)
EXTENDS FmtRecord
Sinks == {[k |-> "sink", id |-> i] : i \in 1..3}
Un(S) == {[k |-> o, l |-> l, a |-> a] : o \in {"max", "min"}, l \in {1, 3, 4}, a \in S} \cup {[k |-> "filt", t |-> "a", a |-> a] : a \in S}
Bin(S, T) == {[k |-> o, a |-> a, b |-> b] : o \in {"and", "orelse"}, a \in S, b \in T}
D1 == Sinks
D2 == D1 \cup Un(D1) \cup Bin(D1, D1)
D3 == D2 \cup Un(D2) \cup Bin(D2, D1) \cup Bin(Un(D1), D2)
Metas == [lvl : 1..5, tgt : {"a", "b"}]
VARIABLE e
MCInit == e \in D3 /\ cfg = [format |-> "full"] /\ n = 0 /\ spar = [s \in SpanIds |-> 0] /\ ent = [t \in Threads |-> << >>]
MCNext == UNCHANGED <<e, fvars>>
MCSpec == MCInit /\ [][MCNext]_<<e, fvars>>
CombinatorsDenoteRoute == \A m \in Metas : MakeFor(e, m).sinks = Route(e, m) /\ (MakeFor(e, m).some = Opt(e, m) \/ e.k = "orelse")
=============================================================================
