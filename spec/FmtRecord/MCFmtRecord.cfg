SPECIFICATION MCSpec
CONSTANTS
  Threads = {1}
  MaxSpans = 1
INVARIANT CombinatorsDenoteRoute
CHECK_DEADLOCK FALSE
