----------------------------- MODULE FmtRecord ------------------------------
(***************************************************************************)
(* C13 - fmt writes one complete record per event, to exactly the selected *)
(* writers.                                                                *)
(*                                                                         *)
(* A: a writer expression over recording sinks denotes, for the metadata   *)
(* of an event, a set of sinks (Route).  For every event reaching the      *)
(* layer, and for every configured span lifecycle point, each sink in      *)
(* Route is asked for a writer once with that event's metadata and is      *)
(* handed the whole newline-terminated record in ONE write (one line for   *)
(* full / compact / json); no other sink is written.  The record names the *)
(* level, the spans of the event's scope in nesting order (with their      *)
(* fields), the event's message and fields - and nothing of any other      *)
(* event (so records of concurrent threads, or of an earlier event whose   *)
(* formatting was aborted, never mix).                                     *)
(* The operational reading of the combinators (OptionalWriter / Tee /      *)
(* OrElse, M) is MakeFor; TLC checks MakeFor = Route for all expressions   *)
(* to depth 3 (MCFmtRecord) and validates implementation traces against    *)
(* Route.                                                                  *)
(***************************************************************************)
EXTENDS Naturals, Sequences, FiniteSets, TLC

(* ------------------------- writer expressions -------------------------- *)
\* [k |-> "sink", id] | [k |-> "max"|"min", l, a] | [k |-> "filt", t, a] | [k |-> "and"|"orelse", a, b]
RECURSIVE Route(_, _), Opt(_, _)
\* does make_writer_for return a real writer (OptionalWriter::some) ?
Opt(e, m) == CASE e.k = "sink"   -> TRUE
               [] e.k = "max"    -> m.lvl <= e.l
               [] e.k = "min"    -> m.lvl >= e.l
               [] e.k = "filt"   -> m.tgt = e.t
               [] e.k = "and"    -> TRUE
               [] e.k = "orelse" -> Opt(e.a, m) \/ Opt(e.b, m)
Route(e, m) == CASE e.k = "sink"   -> {e.id}
                 [] e.k \in {"max", "min", "filt"} -> IF Opt(e, m) THEN Route(e.a, m) ELSE {}
                 [] e.k = "and"    -> Route(e.a, m) \cup Route(e.b, m)
                 [] e.k = "orelse" -> IF Opt(e.a, m) THEN Route(e.a, m) ELSE Route(e.b, m)

\* M: what the code's combinators do - a writer value is "none" or the set of sinks a write reaches
RECURSIVE MakeFor(_, _)
MakeFor(e, m) ==
  CASE e.k = "sink" -> [some |-> TRUE, sinks |-> {e.id}]
    [] e.k = "max"  -> IF m.lvl <= e.l THEN [some |-> TRUE, sinks |-> MakeFor(e.a, m).sinks] ELSE [some |-> FALSE, sinks |-> {}]
    [] e.k = "min"  -> IF m.lvl >= e.l THEN [some |-> TRUE, sinks |-> MakeFor(e.a, m).sinks] ELSE [some |-> FALSE, sinks |-> {}]
    [] e.k = "filt" -> IF m.tgt = e.t THEN [some |-> TRUE, sinks |-> MakeFor(e.a, m).sinks] ELSE [some |-> FALSE, sinks |-> {}]
    [] e.k = "and"  -> [some |-> TRUE, sinks |-> MakeFor(e.a, m).sinks \cup MakeFor(e.b, m).sinks]      \* Tee writes to both
    [] e.k = "orelse" -> LET a == MakeFor(e.a, m) IN IF a.some THEN a ELSE MakeFor(e.b, m)              \* EitherWriter::A / ::B

(* ------------------------------ histories ------------------------------ *)
CONSTANTS Threads, MaxSpans
SpanIds == 1..MaxSpans
VARIABLES cfg,      \* [format, se (set of lifecycle points), writer]
          n,        \* spans created
          spar,     \* [SpanIds -> SpanIds \cup {0}]
          ent       \* [Threads -> Seq(SpanIds)]
fvars == <<cfg, n, spar, ent>>

RECURSIVE Anc(_)
Anc(s) == IF s = 0 THEN << >> ELSE Append(Anc(spar[s]), s)        \* root -> leaf
LastOf(q) == q[Len(q)]
Cur(t) == IF ent[t] = << >> THEN 0 ELSE LastOf(ent[t])
RemoveLast(q, x) == IF \A i \in DOMAIN q : q[i] # x THEN q ELSE
                    LET i == CHOOSE j \in DOMAIN q : q[j] = x /\ \A k \in DOMAIN q : q[k] = x => k <= j
                    IN SubSeq(q, 1, i - 1) \o SubSeq(q, i + 1, Len(q))
SpanMeta(name) == [lvl |-> IF name = "spC" THEN 2 ELSE 3, tgt |-> "a"]

\* the record an operation must produce: [m, scope, tok] or none ([tok |-> 0])
None == [tok |-> 0]
Parent(r) == IF r.pk = "root" THEN 0 ELSE IF r.pk = "of" THEN r.p ELSE Cur(r.t)
ExpectedRecord(r) ==
  CASE r.op = "event" -> [m |-> [lvl |-> r.lvl, tgt |-> IF r.tgt = "a" THEN "a" ELSE "b\"q"], scope |-> Anc(Parent(r)), tok |-> r.n + 1000, kind |-> "event"]
    [] r.op = "new" /\ "new" \in cfg.se -> [m |-> SpanMeta(r.name), scope |-> Append(Anc(Parent(r)), n + 1), tok |-> 1, kind |-> "new"]
    [] r.op = "enter" /\ "enter" \in cfg.se -> [m |-> SpanMeta(r.name), scope |-> Anc(r.s), tok |-> 2, kind |-> "enter"]
    [] r.op = "exit" /\ "exit" \in cfg.se -> [m |-> SpanMeta(r.name), scope |-> Anc(r.s), tok |-> 3, kind |-> "exit"]
    [] r.op = "drop" /\ "entered" \in DOMAIN r /\ r.entered -> None       \* the span is still entered: nothing closes yet
    [] r.op = "drop" /\ "close" \in cfg.se -> [m |-> SpanMeta(r.name), scope |-> Anc(r.s), tok |-> 4, kind |-> "close"]
    [] OTHER -> None

\* r.writes: per write call [sink, oneline, nl, level, spans (serials in textual order), toks (message tokens), fields_ok]
\* r.mw: make_writer_for calls [sink, lvl, tgt];  r.nometa: make_writer() calls without metadata
Rev(q) == [i \in 1..Len(q) |-> q[Len(q) + 1 - i]]
\* one expected record `e` written to sink-wise exactly once, as the writes `ws` (one per routed sink)
OneRecord(ws, e) ==
  LET sinks == Route(cfg.writer, e.m) IN
  /\ {ws[i].sink : i \in DOMAIN ws} = sinks                                           \* exactly the selected writers
  /\ Len(ws) = Cardinality(sinks)                                                     \* ... each in a single write
  /\ \A i \in DOMAIN ws :
       LET w == ws[i] IN
       /\ w.nl /\ (cfg.format # "pretty" => w.oneline)                                \* one complete newline-terminated record
       /\ w.toks = <<e.tok>>                                                          \* this event, and nothing of any other
       /\ w.level = (IF cfg.level THEN e.m.lvl ELSE 0)
       /\ w.spans = (IF cfg.format = "pretty" THEN Rev(e.scope) ELSE e.scope)         \* the scope, in nesting order
       /\ w.fields_ok
\* r.nested: one of the event's fields has a Debug impl that itself emits an event (INFO, target a, message token n + 6000,
\* contextual parent).  Where the collector is the process-wide default and no scoped default exists, that nested event is a
\* record of its own, complete, BEFORE the outer one; under a scoped default the nested lookup is handed the no-op collector
\* (the dispatcher's re-entrancy guard) and only the outer record appears.
NestedRecord(r) == [m |-> [lvl |-> 3, tgt |-> "a"], scope |-> Anc(Cur(r.t)), tok |-> r.n + 6000, kind |-> "event"]
\* an exit that closes the span (its last handle went while it was entered): the configured lifecycle points `exit` and
\* `close` of that span, each a complete record, in this order
ClosingExit(r) == r.op = "exit" /\ "closing" \in DOMAIN r /\ r.closing
ClosingExitOk(r) ==
  LET ex == [m |-> SpanMeta(r.name), scope |-> Anc(r.s), tok |-> 3, kind |-> "exit"]
      cl == [m |-> SpanMeta(r.name), scope |-> Anc(r.s), tok |-> 4, kind |-> "close"]
      w3 == SelectSeq(r.writes, LAMBDA w : w.toks = <<3>>)
      w4 == SelectSeq(r.writes, LAMBDA w : w.toks # <<3>>) IN
  /\ ~("panicked" \in DOMAIN r /\ r.panicked # "")
  /\ IF "exit" \in cfg.se THEN OneRecord(w3, ex) ELSE w3 = << >>
  /\ IF "close" \in cfg.se THEN OneRecord(w4, cl) ELSE w4 = << >>
  /\ r.writes = w3 \o w4
  /\ r.nometa = 0
\* no operation panics in the application - except an event whose own field value panics while it is formatted (aborted)
NoPanic(r) == ("panicked" \in DOMAIN r /\ r.panicked # "") => ("aborted" \in DOMAIN r /\ r.aborted)
RecordOk(r) ==
  LET e == ExpectedRecord(r) IN
  IF ~NoPanic(r) THEN FALSE
  ELSE IF ClosingExit(r) THEN ClosingExitOk(r)
  ELSE IF e.tok = 0 \/ ("aborted" \in DOMAIN r /\ r.aborted) THEN r.writes = << >>          \* nothing to write (an aborted format writes nothing)
  ELSE IF "nested" \in DOMAIN r /\ r.nested /\ cfg.global THEN
    LET ne == NestedRecord(r)
        inner == SelectSeq(r.writes, LAMBDA w : w.toks = <<ne.tok>>)
        outer == SelectSeq(r.writes, LAMBDA w : w.toks # <<ne.tok>>) IN
    /\ OneRecord(inner, ne) /\ OneRecord(outer, e)
    /\ r.writes = inner \o outer                                                       \* the nested record is complete before the outer one starts
    /\ r.nometa = 0
  ELSE
  LET sinks == Route(cfg.writer, e.m) IN
  /\ OneRecord(r.writes, e)
  /\ r.nometa = 0
  /\ \A i \in DOMAIN r.mw : r.mw[i].lvl = e.m.lvl /\ r.mw[i].tgt = e.m.tgt              \* asked with this event's metadata
  /\ \A s \in sinks : Cardinality({i \in DOMAIN r.mw : r.mw[i].sink = s}) = 1           \* ... once

Effect(r) ==
  CASE r.op = "new" -> n' = n + 1 /\ spar' = [spar EXCEPT ![n + 1] = Parent(r)] /\ UNCHANGED <<cfg, ent>>
    [] r.op = "enter" -> ent' = [ent EXCEPT ![r.t] = Append(@, r.s)] /\ UNCHANGED <<cfg, n, spar>>
    [] r.op = "exit" -> ent' = [ent EXCEPT ![r.t] = RemoveLast(@, r.s)] /\ UNCHANGED <<cfg, n, spar>>
    [] OTHER -> UNCHANGED fvars
=============================================================================
