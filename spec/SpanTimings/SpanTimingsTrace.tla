------------------------- MODULE SpanTimingsTrace ---------------------------
(***************************************************************************)
(* Runs of the harness binary `timings` (Registry + fmt subscriber, JSON,  *)
(* FmtSpan::CLOSE with timing) against SpanTimings' reading of the         *)
(* documentation, with the harness's own clock readings [t0, t1] around    *)
(* every operation in place of the logical clock:                          *)
(*  - a close line is written exactly when a span closes (its handle is    *)
(*    gone and no entry is in progress), naming that span, nothing else;   *)
(*  - Conservation: busy + idle is the span's lifetime;                    *)
(*  - busy is never more than the time the span was entered, and - unless  *)
(*    entries of the span overlapped (named deviation                      *)
(*    OverlapBookedByLastEvent, see SpanTimings) - not less either.        *)
(* Reported values carry the resolution of their printed form (ulp).       *)
(***************************************************************************)
EXTENDS Integers, Sequences, FiniteSets, TLC, Json, IOUtils

CONSTANTS SpanIds
Rec == ndJsonDeserialize(IOEnv.TRACE)
VARIABLES l, bad, st, held, cnt, overlapped, newT, sinceT, busyLo, busyHi, devs, f33
tvars == <<l, bad, st, held, cnt, overlapped, newT, sinceT, busyLo, busyHi, devs, f33>>

Max(a, b) == IF a > b THEN a ELSE b
Fresh ==
  /\ st' = [s \in SpanIds |-> "none"] /\ held' = [s \in SpanIds |-> FALSE] /\ cnt' = [s \in SpanIds |-> 0]
  /\ overlapped' = [s \in SpanIds |-> FALSE] /\ newT' = [s \in SpanIds |-> <<0, 0>>] /\ sinceT' = [s \in SpanIds |-> <<0, 0>>]
  /\ busyLo' = [s \in SpanIds |-> 0] /\ busyHi' = [s \in SpanIds |-> 0]

\* does this operation close the span ?  (state before the operation)
Closes(r) == \/ r.op = "drop" /\ cnt[r.s] = 0
             \/ r.op = "exit" /\ cnt[r.s] = 1 /\ ~held[r.s]
\* the bounds on the time span s was entered, after this operation
BusyLoAfter(r) == IF r.op = "exit" /\ cnt[r.s] = 1 THEN busyLo[r.s] + Max(0, r.t0 - sinceT[r.s][2]) ELSE busyLo[r.s]
BusyHiAfter(r) == IF r.op = "exit" /\ cnt[r.s] = 1 THEN busyHi[r.s] + (r.t1 - sinceT[r.s][1]) ELSE busyHi[r.s]

CloseLineOk(r, ln) ==
  /\ ln.msg = "close" /\ ln.s = r.s
  /\ r.overflow \/
       LET ulps == ln.ulpb + ln.ulpi IN
       /\ ln.busy + ln.idle >= (r.t0 - newT[r.s][2]) - ulps          \* Conservation: the lifetime, from below
       /\ ln.busy + ln.idle <= (r.t1 - newT[r.s][1]) + ulps          \*                             and from above
       /\ ln.busy <= BusyHiAfter(r) + ln.ulpb                         \* never more busy than entered
       /\ overlapped[r.s] \/ ln.busy >= BusyLoAfter(r) - ln.ulpb      \* nor less, unless entries overlapped
Ok(r) ==
  /\ ~("panic" \in DOMAIN r)
  /\ IF Closes(r) THEN Len(r.lines) = 1 /\ CloseLineOk(r, r.lines[1]) ELSE r.lines = << >>
\* finding F33 (recorded under C13): an exit that closes the span (its handle went while it was entered) reaches the fmt
\* subscriber's on_exit after the registry has removed the span - the exit panics "Span not found", and the close line written
\* before it lacks the last entry in its busy time.  Such operations are counted, not judged.
F33(r) == r.op = "exit" /\ Closes(r) /\ "panic" \in DOMAIN r
\* the named deviation at work: entries overlapped and the reported busy time is below the time the span was entered
Deviates(r) == Closes(r) /\ Len(r.lines) = 1 /\ ~r.overflow /\ overlapped[r.s] /\ r.lines[1].busy < BusyLoAfter(r) - r.lines[1].ulpb

TraceInit ==
  /\ l = 0 /\ bad = << >> /\ devs = 0 /\ f33 = 0
  /\ st = [s \in SpanIds |-> "none"] /\ held = [s \in SpanIds |-> FALSE] /\ cnt = [s \in SpanIds |-> 0]
  /\ overlapped = [s \in SpanIds |-> FALSE] /\ newT = [s \in SpanIds |-> <<0, 0>>] /\ sinceT = [s \in SpanIds |-> <<0, 0>>]
  /\ busyLo = [s \in SpanIds |-> 0] /\ busyHi = [s \in SpanIds |-> 0]
TraceNext ==
  /\ l < Len(Rec) /\ l' = l + 1
  /\ LET r == Rec[l + 1] IN
       IF r.ev = "reset" THEN Fresh /\ UNCHANGED <<bad, devs, f33>>
       ELSE IF r.ev # "op" \/ ("panic" \in DOMAIN r /\ ~F33(r)) THEN
            /\ UNCHANGED <<st, held, cnt, overlapped, newT, sinceT, busyLo, busyHi, devs, f33>> /\ bad' = Append(bad, l + 1)
       ELSE
            /\ bad' = (IF F33(r) \/ Ok(r) THEN bad ELSE Append(bad, l + 1))
            /\ f33' = f33 + (IF F33(r) THEN 1 ELSE 0)
            /\ devs' = devs + (IF ~F33(r) /\ Deviates(r) THEN 1 ELSE 0)
            /\ st' = [st EXCEPT ![r.s] = IF r.op = "new" THEN "open" ELSE IF Closes(r) THEN "closed" ELSE @]
            /\ held' = [held EXCEPT ![r.s] = IF r.op = "new" THEN TRUE ELSE IF r.op = "drop" THEN FALSE ELSE @]
            /\ cnt' = [cnt EXCEPT ![r.s] = IF r.op = "enter" THEN @ + 1 ELSE IF r.op = "exit" THEN @ - 1 ELSE @]
            /\ overlapped' = [overlapped EXCEPT ![r.s] = @ \/ (r.op = "enter" /\ cnt[r.s] > 0)]
            /\ newT' = [newT EXCEPT ![r.s] = IF r.op = "new" THEN <<r.t0, r.t1>> ELSE @]
            /\ sinceT' = [sinceT EXCEPT ![r.s] = IF r.op = "enter" /\ cnt[r.s] = 0 THEN <<r.t0, r.t1>> ELSE @]
            /\ busyLo' = [busyLo EXCEPT ![r.s] = BusyLoAfter(r)]
            /\ busyHi' = [busyHi EXCEPT ![r.s] = BusyHiAfter(r)]
TraceSpec == TraceInit /\ [][TraceNext]_tvars
Report == l = Len(Rec) => PrintT("@@BAD " \o ToJson(bad)) /\ PrintT("@@DEVS " \o ToJson(devs)) /\ PrintT("@@F33 " \o ToJson(f33))
Consumed == IF TLCGet("stats").diameter = Len(Rec) + 1 THEN TRUE
            ELSE PrintT("@@STUCK " \o ToJson(TLCGet("stats").diameter)) /\ FALSE
=============================================================================
