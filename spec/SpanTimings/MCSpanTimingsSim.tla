-------------------------- MODULE MCSpanTimingsSim --------------------------
(* random histories for the harness binary `timings` (tlc -simulate): one handle per span, enter / exit on any thread (also  *)
(* overlapping: two threads at once, re-entry), the handle dropped at any moment - the span closes at the drop, or at the    *)
(* last exit after it.  The clock is the harness's.                                                                          *)
EXTENDS Integers, Sequences, FiniteSets, TLC, Json
CONSTANTS Threads, SpanIds, MaxSteps, MaxDepth
VARIABLES made, held, ent, hist, done
vars == <<made, held, ent, hist, done>>
Cnt(s) == Cardinality({<<t, i>> \in Threads \X (1..MaxDepth) : i <= Len(ent[t]) /\ ent[t][i] = s})
Ops ==
  [op : {"new"}, t : Threads, s : SpanIds] \cup [op : {"enter", "exit"}, t : Threads, s : SpanIds] \cup [op : {"drop"}, t : Threads, s : SpanIds]
Alive(s) == s \in made /\ (held[s] \/ Cnt(s) > 0)
Pre(o) ==
  CASE o.op = "new" -> o.s \notin made /\ \A x \in SpanIds : x < o.s => x \in made
    [] o.op = "enter" -> o.s \in made /\ held[o.s] /\ Len(ent[o.t]) < MaxDepth
    [] o.op = "exit" -> \E i \in DOMAIN ent[o.t] : ent[o.t][i] = o.s
    [] o.op = "drop" -> o.s \in made /\ held[o.s]
RemoveLast(q, s) == LET i == CHOOSE i \in DOMAIN q : q[i] = s /\ \A j \in DOMAIN q : q[j] = s => j <= i
                    IN [k \in 1..(Len(q) - 1) |-> IF k < i THEN q[k] ELSE q[k + 1]]
Effect(o) ==
  CASE o.op = "new" -> made' = made \cup {o.s} /\ held' = [held EXCEPT ![o.s] = TRUE] /\ UNCHANGED ent
    [] o.op = "enter" -> ent' = [ent EXCEPT ![o.t] = Append(@, o.s)] /\ UNCHANGED <<made, held>>
    [] o.op = "exit" -> ent' = [ent EXCEPT ![o.t] = RemoveLast(@, o.s)] /\ UNCHANGED <<made, held>>
    [] o.op = "drop" -> held' = [held EXCEPT ![o.s] = FALSE] /\ UNCHANGED <<made, ent>>
Enabled == {o \in Ops : Pre(o)}
SimInit == made = {} /\ held = [s \in SpanIds |-> FALSE] /\ ent = [t \in Threads |-> << >>] /\ hist = << >> /\ done = FALSE
SimNext ==
  \/ /\ Len(hist) < MaxSteps /\ ~done /\ Enabled # {}
     /\ \E k \in {RandomElement({o.op : o \in Enabled})} : \E o \in {RandomElement({x \in Enabled : x.op = k})} :
          Effect(o) /\ hist' = Append(hist, o) /\ done' = FALSE
  \/ (Len(hist) = MaxSteps \/ Enabled = {}) /\ ~done /\ done' = TRUE /\ UNCHANGED <<made, held, ent, hist>>
SimSpec == SimInit /\ [][SimNext]_vars
Emitted == done => PrintT("@@BEH " \o ToJson([src |-> "tlc-simulate", steps |-> hist]))
=============================================================================
