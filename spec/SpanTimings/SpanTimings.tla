---------------------------- MODULE SpanTimings -----------------------------
(***************************************************************************)
(* The busy / idle times the fmt subscriber reports when a span closes     *)
(* (FmtSpan::CLOSE with timing) - part of the specification's growth       *)
(* beyond the listed properties (X02).                                     *)
(*                                                                         *)
(* The documentation: busy = "the total time for which it was entered",    *)
(* idle = "the total time that the span existed but was not entered".      *)
(* A (what the user reads): busyA = the measure of the time during which   *)
(*    the span was entered at least once (on any thread, re-entries        *)
(*    included); idleA = lifetime - busyA.                                 *)
(* M (fmt_subscriber.rs, struct Timings - ONE record per span, shared by   *)
(*    all threads): on_enter adds now - last to idle, on_exit adds         *)
(*    now - last to busy, both set last = now; on_close reports busy and   *)
(*    idle + (now - last).                                                 *)
(* TLC shows: Conservation (busy + idle = lifetime) always holds for M;    *)
(* M = A whenever entries of the span never overlap (NoOverlapAgrees);     *)
(* with overlapping entries (the span entered on two threads at once, or   *)
(* re-entered) M differs from A - the time between the first and a later   *)
(* overlapping enter is booked as idle, the time between the first and     *)
(* the last exit as busy: named deviation OverlapBookedByLastEvent,        *)
(* exhibited by SpanTimingsOverlap.cfg (TLC must find it).                 *)
(***************************************************************************)
EXTENDS Integers, Sequences, FiniteSets, TLC

CONSTANTS SpanIds, MaxTick, MaxDepth
VARIABLES now,      \* the clock
          st,       \* span -> "none" | "open" | "closed"
          cnt,      \* span -> how many entries are in progress (all threads)
          created,  \* span -> clock at creation
          last, busy, idle,    \* M: the Timings record
          busyA, since,        \* A: accumulated busy time; clock at which cnt last left 0
          overlapped,          \* ghost: an enter happened while the span was already entered
          rep                  \* span -> what was reported at close: [busy, idle, busyA, idleA] (or << >>)
tvars == <<now, st, cnt, created, last, busy, idle, busyA, since, overlapped, rep>>

Init ==
  /\ now = 0 /\ st = [s \in SpanIds |-> "none"] /\ cnt = [s \in SpanIds |-> 0] /\ created = [s \in SpanIds |-> 0]
  /\ last = [s \in SpanIds |-> 0] /\ busy = [s \in SpanIds |-> 0] /\ idle = [s \in SpanIds |-> 0]
  /\ busyA = [s \in SpanIds |-> 0] /\ since = [s \in SpanIds |-> 0] /\ overlapped = [s \in SpanIds |-> FALSE]
  /\ rep = [s \in SpanIds |-> << >>]

Tick == now < MaxTick /\ now' = now + 1 /\ UNCHANGED <<st, cnt, created, last, busy, idle, busyA, since, overlapped, rep>>
New(s) ==
  /\ st[s] = "none" /\ st' = [st EXCEPT ![s] = "open"]
  /\ created' = [created EXCEPT ![s] = now] /\ last' = [last EXCEPT ![s] = now]
  /\ UNCHANGED <<now, cnt, busy, idle, busyA, since, overlapped, rep>>
Enter(s) ==
  /\ st[s] = "open" /\ cnt[s] < MaxDepth
  /\ idle' = [idle EXCEPT ![s] = @ + (now - last[s])] /\ last' = [last EXCEPT ![s] = now]       \* M
  /\ since' = IF cnt[s] = 0 THEN [since EXCEPT ![s] = now] ELSE since                              \* A
  /\ overlapped' = [overlapped EXCEPT ![s] = @ \/ cnt[s] > 0]
  /\ cnt' = [cnt EXCEPT ![s] = @ + 1]
  /\ UNCHANGED <<now, st, created, busy, busyA, rep>>
Exit(s) ==
  /\ st[s] = "open" /\ cnt[s] > 0
  /\ busy' = [busy EXCEPT ![s] = @ + (now - last[s])] /\ last' = [last EXCEPT ![s] = now]       \* M
  /\ busyA' = IF cnt[s] = 1 THEN [busyA EXCEPT ![s] = @ + (now - since[s])] ELSE busyA             \* A
  /\ cnt' = [cnt EXCEPT ![s] = @ - 1]
  /\ UNCHANGED <<now, st, created, idle, since, overlapped, rep>>
Close(s) ==
  /\ st[s] = "open" /\ cnt[s] = 0 /\ st' = [st EXCEPT ![s] = "closed"]
  /\ rep' = [rep EXCEPT ![s] = <<busy[s], idle[s] + (now - last[s]), busyA[s], (now - created[s]) - busyA[s]>>]
  /\ UNCHANGED <<now, cnt, created, last, busy, idle, busyA, since, overlapped>>
Next == Tick \/ \E s \in SpanIds : New(s) \/ Enter(s) \/ Exit(s) \/ Close(s)
Spec == Init /\ [][Next]_tvars

Reported(s) == rep[s] # << >>
\* M never loses or invents time
Conservation == \A s \in SpanIds : Reported(s) => rep[s][1] + rep[s][2] = rep[s][3] + rep[s][4]
\* without overlapping entries the report is what the documentation says
NoOverlapAgrees == \A s \in SpanIds : (Reported(s) /\ ~overlapped[s]) => (rep[s][1] = rep[s][3] /\ rep[s][2] = rep[s][4])
\* with overlapping entries the reported busy time is never MORE than the documented one (time is only moved to idle)
OverlapUnderReportsBusy == \A s \in SpanIds : Reported(s) => rep[s][1] <= rep[s][3]
\* (negative control / named deviation OverlapBookedByLastEvent: this one must be violated)
AlwaysAgrees == \A s \in SpanIds : Reported(s) => rep[s][1] = rep[s][3]
=============================================================================
