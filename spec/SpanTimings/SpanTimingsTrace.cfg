SPECIFICATION TraceSpec
CONSTANTS
  SpanIds = {1, 2, 3, 4}
INVARIANT Report
POSTCONDITION Consumed
CHECK_DEADLOCK FALSE
