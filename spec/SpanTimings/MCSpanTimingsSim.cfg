SPECIFICATION SimSpec
CONSTANTS
  Threads = {1, 2}
  SpanIds = {1, 2, 3, 4}
  MaxSteps = 40
  MaxDepth = 3
INVARIANT Emitted
CHECK_DEADLOCK FALSE
