SPECIFICATION Spec
CONSTANTS
  SpanIds = {1, 2}
  MaxTick = 4
  MaxDepth = 2
INVARIANT Conservation
INVARIANT NoOverlapAgrees
INVARIANT OverlapUnderReportsBusy
CHECK_DEADLOCK FALSE
