SPECIFICATION Spec
CONSTANTS
  SpanIds = {1}
  MaxTick = 4
  MaxDepth = 2
INVARIANT AlwaysAgrees
CHECK_DEADLOCK FALSE
