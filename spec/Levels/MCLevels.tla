------------------------------ MODULE MCLevels ------------------------------
EXTENDS Levels, Json, IOUtils, SequencesExt
\* writes the complete case list (with A's verdict and the deviation tag) for the harness
CaseSeq == SetToSeq(Cases)
Export == TLCGet("stats").distinct = Cardinality(Cases) /\ ndJsonSerialize(IOEnv.CASES_OUT,
             [i \in 1..Len(CaseSeq) |-> [c |-> CaseSeq[i], dev |-> Deviation(CaseSeq[i])]])
=============================================================================
