SPECIFICATION Spec
INVARIANT MImplementsA
INVARIANT DeviationsStillThere
INVARIANT OperatorsCoherent
INVARIANT RoundTrip
POSTCONDITION Export
CHECK_DEADLOCK FALSE
