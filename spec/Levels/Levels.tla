------------------------------- MODULE Levels -------------------------------
(***************************************************************************)
(* C19 - verbosity levels and level filters.                               *)
(*                                                                         *)
(* A (abstract): one total order given by Rank, OFF=0 < ERROR=1 < WARN=2   *)
(*   < INFO=3 < DEBUG=4 < TRACE=5.  Every operator is defined from Rank.   *)
(* M (mechanism): what tracing-core/src/metadata.rs does - the inverted    *)
(*   usize encoding (TRACE=0 .. ERROR=4, OFF=5) compared with swapped      *)
(*   operands, FromStr = usize::from_str first, then names ignoring ASCII  *)
(*   case, MAX_LEVEL stored in the encoding.                               *)
(* TLC enumerates every case (a state per case) and checks M = A on each,  *)
(* except on the inputs of the two named deviations, where it checks that  *)
(* the deviation is still there.  The case list is written out for the     *)
(* harness, which evaluates the real operators; LevelsTrace validates the  *)
(* results against A.                                                      *)
(***************************************************************************)
EXTENDS Naturals, Sequences, FiniteSets, TLC

OFF == 0  ERROR == 1  WARN == 2  INFO == 3  DEBUG == 4  TRACE == 5
Reject == 99

LevelRanks  == 1..5
FilterRanks == 0..5
RanksOf(k)  == IF k = "L" THEN LevelRanks ELSE FilterRanks
Kinds       == {"L", "F"}

BoolOps == {"eq", "ne", "lt", "le", "gt", "ge"}
OrdOps  == {"cmp", "pcmp"}
SelOps  == {"min", "max"}            \* Ord::min / Ord::max, same-kind operands only

B(x) == IF x THEN 1 ELSE 0
Ord3(a, b) == IF a < b THEN 0 ELSE IF a = b THEN 1 ELSE 2      \* Less / Equal / Greater

(* ---------------------------- A: from Rank ---------------------------- *)
AOp(op, a, b) ==
  CASE op = "eq"  -> B(a = b)
    [] op = "ne"  -> B(a # b)
    [] op = "lt"  -> B(a < b)
    [] op = "le"  -> B(a <= b)
    [] op = "gt"  -> B(a > b)
    [] op = "ge"  -> B(a >= b)
    [] op = "cmp" -> Ord3(a, b)
    [] op = "pcmp" -> Ord3(a, b)
    [] op = "min" -> IF a <= b THEN a ELSE b
    [] op = "max" -> IF a >= b THEN a ELSE b
    [] op = "enabled" -> B(a <= b)        \* 'level a is enabled by filter b'

(* ------------------- M: inverted encoding, swapped operands ------------ *)
Enc(r) == 5 - r                     \* TRACE=0, DEBUG=1, INFO=2, WARN=3, ERROR=4, OFF=5
Dec(u) == 5 - u
MCmp(a, b) == Ord3(Enc(b), Enc(a))
MOp(op, a, b) ==
  CASE op = "eq"  -> B(Enc(a) = Enc(b))
    [] op = "ne"  -> B(~(Enc(a) = Enc(b)))
    [] op = "lt"  -> B(Enc(b) < Enc(a))
    [] op = "le"  -> B(Enc(b) <= Enc(a))
    [] op = "gt"  -> B(Enc(b) > Enc(a))
    [] op = "ge"  -> B(Enc(b) >= Enc(a))
    [] op = "cmp" -> MCmp(a, b)
    [] op = "pcmp" -> MCmp(a, b)
    [] op = "min" -> IF MCmp(a, b) = 2 THEN b ELSE a      \* core::cmp::min_by
    [] op = "max" -> IF MCmp(a, b) = 2 THEN a ELSE b      \* core::cmp::max_by
    [] op = "enabled" -> B(Enc(b) <= Enc(a))              \* `level <= filter` via PartialOrd<LevelFilter> for Level

(* ------------------------------ spellings ------------------------------ *)
Name(r) == CASE r = 0 -> <<"o","f","f">>
             [] r = 1 -> <<"e","r","r","o","r">>
             [] r = 2 -> <<"w","a","r","n">>
             [] r = 3 -> <<"i","n","f","o">>
             [] r = 4 -> <<"d","e","b","u","g">>
             [] r = 5 -> <<"t","r","a","c","e">>
LowerChars == {"a","b","c","d","e","f","g","i","n","o","r","t","u","w"}
Up(c) == CASE c = "a" -> "A" [] c = "b" -> "B" [] c = "c" -> "C" [] c = "d" -> "D" [] c = "e" -> "E"
           [] c = "f" -> "F" [] c = "g" -> "G" [] c = "i" -> "I" [] c = "n" -> "N" [] c = "o" -> "O"
           [] c = "r" -> "R" [] c = "t" -> "T" [] c = "u" -> "U" [] c = "w" -> "W" [] OTHER -> c
Low(c) == IF \E x \in LowerChars : Up(x) = c THEN CHOOSE x \in LowerChars : Up(x) = c ELSE c
Lower(s) == [i \in DOMAIN s |-> Low(s[i])]

DigitChars == {"0","1","2","3","4","5","6","7","8","9"}
DigitVal(c) == CASE c = "0" -> 0 [] c = "1" -> 1 [] c = "2" -> 2 [] c = "3" -> 3 [] c = "4" -> 4
                 [] c = "5" -> 5 [] c = "6" -> 6 [] c = "7" -> 7 [] c = "8" -> 8 [] c = "9" -> 9

CasePatterns(n) == [1..n -> BOOLEAN]
Spell(name, pat) == [i \in 1..Len(name) |-> IF pat[i] THEN Up(name[i]) ELSE name[i]]

NameSpellings == UNION { {Spell(Name(r), p) : p \in CasePatterns(Len(Name(r)))} : r \in 0..5 }
DigitSpellings == {<<d>> : d \in DigitChars}
Bases == {Name(r) : r \in 0..5} \cup {<<d>> : d \in {"0","1","2","3","4","5"}}
NoiseChars == {" ", "x", "-", "=", ","}
NoiseSpellings ==
     {<<c>> \o b : c \in NoiseChars, b \in Bases} \cup {b \o <<c>> : c \in NoiseChars, b \in Bases}
  \cup {<<"w","a","r","n","i","n","g">>, <<"e","r","r">>, <<"n","o","n","e">>, <<"a","l","l">>,
        <<"i","n","f">>, <<"t","r","a","c","e","s">>, <<"1","0">>, <<"5","5">>, <<"-","1">>,
        <<"1",".","0">>, <<"o","n">>, <<" ">>, <<"x">>}
\* inputs of the two named deviations (not documented spellings, accepted by the code)
LenientNumeric == {<<"+", d>> : d \in {"0","1","2","3","4","5","6"}} \cup {<<"0", d>> : d \in {"0","1","2","3","4","5","6"}}
                  \cup {<<"0","0","3">>, <<"+","0","2">>}
EmptyString == {<< >>}

Spellings == NameSpellings \cup DigitSpellings \cup NoiseSpellings \cup LenientNumeric \cup EmptyString

\* A: a documented spelling is a name in any case pattern or the single documented digit
AParse(ty, s) ==
  IF \E r \in RanksOf(ty) : Lower(s) = Name(r) THEN CHOOSE r \in RanksOf(ty) : Lower(s) = Name(r)
  ELSE IF Len(s) = 1 /\ s[1] \in DigitChars /\ DigitVal(s[1]) \in RanksOf(ty) THEN DigitVal(s[1])
  ELSE Reject

\* M: `s.parse::<usize>()` (optional '+', then one or more ASCII digits) first, then the names;
\*    LevelFilter additionally maps "" to ERROR.
IsUsize(s) == LET body == IF Len(s) > 0 /\ s[1] = "+" THEN Tail(s) ELSE s
              IN Len(body) > 0 /\ \A i \in DOMAIN body : body[i] \in DigitChars
RECURSIVE UVal(_)
UVal(s) == IF Len(s) = 0 THEN 0 ELSE UVal(SubSeq(s, 1, Len(s) - 1)) * 10 + DigitVal(s[Len(s)])
UsizeVal(s) == UVal(IF s[1] = "+" THEN Tail(s) ELSE s)
MParse(ty, s) ==
  LET byName == IF \E r \in RanksOf(ty) : Lower(s) = Name(r)
                THEN CHOOSE r \in RanksOf(ty) : Lower(s) = Name(r)
                ELSE IF ty = "F" /\ s = << >> THEN ERROR          \* deviation EmptyStringIsError
                ELSE Reject
  IN IF IsUsize(s) /\ UsizeVal(s) \in RanksOf(ty) THEN UsizeVal(s)  \* deviation LenientNumeric
     ELSE byName

\* Display: Level prints upper case, LevelFilter lower case
APrint(ty, r) == IF ty = "L" THEN Spell(Name(r), [i \in 1..Len(Name(r)) |-> TRUE]) ELSE Name(r)

Deviation(c) ==
  IF c.k # "parse" THEN "none"
  ELSE IF c.s \in LenientNumeric /\ MParse(c.ty, c.s) # AParse(c.ty, c.s) THEN "lenient_numeric"
  ELSE IF c.s = << >> /\ c.ty = "F" THEN "empty_is_error"
  ELSE "none"

(* ------------------------------- cases --------------------------------- *)
CmpCases == { [k |-> "cmp", lk |-> lk, l |-> l, rk |-> rk, r |-> r, op |-> op] :
                 lk \in Kinds, rk \in Kinds, l \in FilterRanks, r \in FilterRanks, op \in BoolOps \cup OrdOps }
SelCases == { [k |-> "cmp", lk |-> lk, l |-> l, rk |-> lk, r |-> r, op |-> op] :
                 lk \in Kinds, l \in FilterRanks, r \in FilterRanks, op \in SelOps }
EnCases  == { [k |-> "cmp", lk |-> "L", l |-> l, rk |-> "F", r |-> r, op |-> "enabled"] : l \in LevelRanks, r \in FilterRanks }
WellKinded(c) == c.l \in RanksOf(c.lk) /\ c.r \in RanksOf(c.rk) /\ (c.op = "cmp" => c.lk = c.rk)   \* Ord::cmp is same-type only
ParseCases == { [k |-> "parse", ty |-> ty, s |-> s] : ty \in Kinds, s \in Spellings }
PrintCases == { [k |-> "print", ty |-> ty, v |-> v] : ty \in Kinds, v \in FilterRanks }
\* conversions: Level -> LevelFilter (from_level / From), LevelFilter -> Option<Level> (into_level),
\* tracing <-> log (AsLog / AsTrace), tracing_subscriber's re-export, STATIC_MAX_LEVEL default
ConvNames == {"from_level", "into_level", "from_option", "as_log_level", "as_trace_level",
              "as_log_filter", "as_trace_filter"}
ConvDomain(n) == IF n \in {"from_level", "as_log_level", "as_trace_level"} THEN LevelRanks ELSE FilterRanks
ConvCases == { [k |-> "conv", f |-> n, v |-> v] : n \in ConvNames, v \in FilterRanks }
\* the value is published by a hand-written collector's hint, by tracing-subscriber's LevelFilter used as a layer on a
\* Registry, or by fmt().with_max_level(..)
SetMaxCases == { [k |-> "setmax", v |-> v, via |-> x] : v \in FilterRanks, x \in {"collector", "layer", "fmt", "arc", "box"} }
\* two collectors alive at once, publishing w and v (9 = no hint, which stands for TRACE): the value read back is the more verbose
SetMaxLiveCases == { [k |-> "setmaxlive", w |-> w, v |-> v] : w \in FilterRanks \cup {9}, v \in FilterRanks \cup {9} }
HintOrTrace(h) == IF h = 9 THEN 5 ELSE h
\* a history of two publications in one process: the value read back is the LAST one published
\* (MAX_LEVEL is process-global state; `w` is published first, then `v`)
SetMax2Cases == { [k |-> "setmax2", w |-> w, v |-> v] : w \in FilterRanks, v \in FilterRanks }

\* tracing-subscriber's LevelFilter used as a (global) layer on a Registry: what the stack answers for metadata of level l -
\* enabled(), register_callsite() (0 never / 2 always) and the published hint
LayerCases == { [k |-> "layer", l |-> l, f |-> f, q |-> q] : l \in LevelRanks, f \in FilterRanks, q \in {"enabled", "interest", "hint"} }

Cases == {c \in CmpCases \cup SelCases \cup EnCases : WellKinded(c)} \cup LayerCases
         \cup ParseCases \cup {c \in PrintCases : c.v \in RanksOf(c.ty)}
         \cup {c \in ConvCases : c.v \in ConvDomain(c.f)} \cup SetMaxCases \cup SetMax2Cases \cup SetMaxLiveCases

\* every conversion is the identity on ranks (an order-preserving bijection); into_level(OFF) = None = 0
A(c) == CASE c.k = "cmp"   -> AOp(c.op, c.l, c.r)
          [] c.k = "parse" -> AParse(c.ty, c.s)
          [] c.k = "print" -> APrint(c.ty, c.v)
          [] c.k = "conv"  -> c.v
          [] c.k = "setmax" -> c.v
          [] c.k = "setmax2" -> c.v
          [] c.k = "setmaxlive" -> (IF HintOrTrace(c.w) >= HintOrTrace(c.v) THEN HintOrTrace(c.w) ELSE HintOrTrace(c.v))
          [] c.k = "layer" -> (CASE c.q = "enabled" -> AOp("enabled", c.l, c.f)
                                 [] c.q = "interest" -> 2 * AOp("enabled", c.l, c.f)
                                 [] c.q = "hint" -> c.f)
M(c) == CASE c.k = "cmp"   -> MOp(c.op, c.l, c.r)
          [] c.k = "parse" -> MParse(c.ty, c.s)
          [] c.k = "print" -> APrint(c.ty, c.v)
          [] c.k = "conv"  -> Dec(Enc(c.v))
          [] c.k = "setmax" -> Dec(Enc(c.v))
          [] c.k = "setmax2" -> Dec(Enc(c.v))      \* set_max is an unconditional swap
          \* rebuild_interest: fold `max` over the live dispatchers' hints, each defaulting to TRACE (inverted encoding: the smaller code)
          [] c.k = "setmaxlive" -> Dec(IF Enc(HintOrTrace(c.w)) <= Enc(HintOrTrace(c.v)) THEN Enc(HintOrTrace(c.w)) ELSE Enc(HintOrTrace(c.v)))
          [] c.k = "layer" -> (CASE c.q = "enabled" -> MOp("enabled", c.l, c.f)          \* `self >= metadata.level()`
                                 [] c.q = "interest" -> 2 * MOp("enabled", c.l, c.f)
                                 [] c.q = "hint" -> Dec(Enc(c.f)))

(* ------------------------- enumeration as a spec ----------------------- *)
VARIABLE case
Init == case \in Cases
Next == UNCHANGED case
Spec == Init /\ [][Next]_case

MImplementsA == Deviation(case) = "none" => M(case) = A(case)
DeviationsStillThere == Deviation(case) # "none" => M(case) # A(case)
\* consistency of the operators among themselves (the property's "agrees with every other operator")
OperatorsCoherent ==
  case.k = "cmp" /\ case.op \in BoolOps =>
    LET a == case.l  b == case.r IN
      /\ AOp("lt", a, b) + AOp("eq", a, b) + AOp("gt", a, b) = 1
      /\ AOp("le", a, b) = B(AOp("lt", a, b) = 1 \/ AOp("eq", a, b) = 1)
      /\ AOp("ge", a, b) = B(AOp("gt", a, b) = 1 \/ AOp("eq", a, b) = 1)
      /\ AOp("ne", a, b) = 1 - AOp("eq", a, b)
      /\ AOp("cmp", a, b) = (IF AOp("lt", a, b) = 1 THEN 0 ELSE IF AOp("eq", a, b) = 1 THEN 1 ELSE 2)
RoundTrip == case.k = "print" => AParse(case.ty, APrint(case.ty, case.v)) = case.v
=============================================================================
