---------------------------- MODULE LevelsTrace -----------------------------
(* Validates the results the real operators produced (one ndjson line per case, written by the   *)
(* harness binary c19) against A of Levels.  Cases are independent, so a non-conforming line is  *)
(* recorded in `bad` and validation continues; the checker classifies every bad line afterwards. *)
EXTENDS Levels, Json, IOUtils

Rec == ndJsonDeserialize(IOEnv.TRACE)
VARIABLES l, bad
tvars == <<case, l, bad>>

Conforms(r) == r.c \in Cases /\ r.res = A(r.c)

TraceInit == l = 0 /\ bad = << >> /\ case = [k |-> "none"]
TraceNext == /\ l < Len(Rec)
             /\ l' = l + 1
             /\ case' = Rec[l + 1].c
             /\ bad' = IF Conforms(Rec[l + 1]) THEN bad ELSE Append(bad, l + 1)
TraceSpec == TraceInit /\ [][TraceNext]_tvars

Report == l = Len(Rec) => PrintT("@@BAD " \o ToJson(bad))
\* complete: every case of the model was evaluated by the implementation, and all lines consumed
Complete == /\ TLCGet("stats").diameter = Len(Rec) + 1
            /\ {Rec[i].c : i \in 1..Len(Rec)} = Cases
=============================================================================
