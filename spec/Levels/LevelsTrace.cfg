SPECIFICATION TraceSpec
INVARIANT Report
POSTCONDITION Complete
CHECK_DEADLOCK FALSE
