----------------------------- MODULE FieldsTrace ----------------------------
(* Validates the runs logged by the harness binary `macros` (one line per callsite x collector  *)
(* mode x value assignment) against Fields.  A run is accepted when                               *)
(*   - every value expression was evaluated exactly ExpectedEvals times,                          *)
(*   - enabled: exactly one event / new_span call, its visits = ExpectedVisits (names, order,      *)
(*     typed method, exact text), the metadata declares ExpectedDeclared; each later record of a   *)
(*     declared field is one call with one visit, an undeclared one none,                          *)
(*   - disabled: no event / new_span / record call at all, the span handle is disabled,            *)
(*   - enabled!: the result is Enabled, nothing is recorded.                                       *)
EXTENDS Fields, Json, IOUtils

Rec == ndJsonDeserialize(IOEnv.TRACE)
VARIABLES l, bad, badp
tvars == <<l, bad, badp>>

Calls(r, what) == SelectSeq(r.calls, LAMBDA c : c.call = what)
NameOk(v, e) == v.name = e.name \/ v.name = e.alt
VisitsOk(got, exp) == /\ Len(got) = Len(exp)
                      /\ \A i \in 1..Len(exp) : NameOk(got[i], exp[i]) /\ got[i].m = exp[i].m /\ got[i].v = exp[i].v
DeclaredOk(got, exp) == Len(got) = Len(exp) /\ \A i \in 1..Len(exp) : got[i] = exp[i] \/ ("r#" \o got[i]) = exp[i]

RunOk(r) ==
  LET d == r.decl
      \* r.static_max: the compile-time cap of the build under test (tracing's max_level_* features; 5 = none)
      en == Enabled(r.mode, d.level, r.cap) /\ d.level <= r.static_max
      main == IF d.kind = "span" THEN "new_span" ELSE "event"
  IN
  /\ ~("panic" \in DOMAIN r)
  /\ r.evals = ExpectedEvals(d, en, Len(r.slots))
  /\ IF d.kind = "enabled"
     THEN /\ Len(Calls(r, "event")) = 0 /\ Len(Calls(r, "new_span")) = 0
          /\ Len(r.notes) = 1 /\ r.notes[1].enabled_result = en
     ELSE IF en
     THEN /\ Len(Calls(r, main)) = 1
          /\ Len(Calls(r, IF main = "event" THEN "new_span" ELSE "event")) = 0
          /\ LET c == Calls(r, main)[1] IN
               /\ VisitsOk(c.visits, ExpectedVisits(d, r.slots))
               /\ DeclaredOk(c.declared, ExpectedDeclared(d))
               /\ c.level = d.level
               /\ d.target # "" => c.target = d.target
               /\ d.name # "" => c.name = d.name
          /\ LET rc == Calls(r, "record")  ex == RecordVisits(d, r.slots) IN
               /\ Len(rc) = Len(ex)
               /\ \A i \in 1..Len(ex) : /\ Len(rc[i].visits) = Len(ex[i])
                                        /\ \A k \in 1..Len(ex[i]) : /\ rc[i].visits[k].name = ex[i][k].name
                                                                     /\ rc[i].visits[k].m = ex[i][k].m /\ rc[i].visits[k].v = ex[i][k].v
          /\ d.kind = "span" => (Len(r.notes) = 1 /\ ~r.notes[1].span_disabled)
     ELSE /\ Len(Calls(r, "event")) = 0 /\ Len(Calls(r, "new_span")) = 0 /\ Len(Calls(r, "record")) = 0
          /\ d.kind = "span" => (Len(r.notes) = 1 /\ r.notes[1].span_disabled)

\* C06's clause on the macros: a `parent:` prefix (a span, or None for an explicit root) decides the parent the collector is
\* shown; without it the parent is left to the context.  Judged separately (tag BADP) for every enabled span / event run.
ParentOk(r) ==
  LET d == r.decl
      en == Enabled(r.mode, d.level, r.cap) /\ d.level <= r.static_max
      main == IF d.kind = "span" THEN "new_span" ELSE "event" IN
  (en /\ d.kind # "enabled" /\ "parent" \in DOMAIN d /\ Len(Calls(r, main)) = 1) => Calls(r, main)[1].pk = d.parent

TraceInit == l = 0 /\ bad = << >> /\ badp = << >>
TraceNext ==
  /\ l < Len(Rec)
  /\ l' = l + 1
  /\ LET r == Rec[l + 1] IN
       IF r.ev = "reset" THEN UNCHANGED <<bad, badp>>
       ELSE /\ bad' = (IF RunOk(r) THEN bad ELSE Append(bad, l + 1))
            /\ badp' = (IF ParentOk(r) THEN badp ELSE Append(badp, l + 1))
TraceSpec == TraceInit /\ [][TraceNext]_tvars
Report == l = Len(Rec) => PrintT("@@BAD " \o ToJson(bad)) /\ PrintT("@@BADP " \o ToJson(badp))
Consumed == IF TLCGet("stats").diameter = Len(Rec) + 1 THEN TRUE
            ELSE PrintT("@@STUCK " \o ToJson(TLCGet("stats").diameter)) /\ FALSE
=============================================================================
