SPECIFICATION Spec
CONSTANT MaxFeatures = 1
INVARIANT MImplementsA
INVARIANT OtherFamilyIrrelevant
POSTCONDITION Export
CHECK_DEADLOCK FALSE
