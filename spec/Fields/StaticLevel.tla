---------------------------- MODULE StaticLevel -----------------------------
(***************************************************************************)
(* C10, the compile-time filtering stage: tracing's twelve cargo features  *)
(* `max_level_<l>` / `release_max_level_<l>` fix STATIC_MAX_LEVEL, the     *)
(* first operand of every span! / event! / enabled! expansion.             *)
(*                                                                         *)
(* A (the documentation of tracing::level_filters): the cap is configured  *)
(* separately for debug builds (`max_level_*`) and for release builds      *)
(* (`release_max_level_*`); with no feature of the build's own family no   *)
(* level is disabled; of several features of that family (cargo unifies    *)
(* the features every dependent asks for) the most restrictive one applies.*)
(* A callsite above the cap evaluates nothing and reaches no collector,    *)
(* whatever the collector says; at or below the cap the dynamic stages     *)
(* decide (here: a collector that accepts everything).                     *)
(*                                                                         *)
(* M: get_max_level_inner() in tracing/src/level_filters.rs - an if / else *)
(* ladder over cfg!(feature = ...), one ladder per family, written out     *)
(* rung by rung.  TLC checks M = A for every feature set.                  *)
(***************************************************************************)
EXTENDS Naturals, FiniteSets, Sequences, TLC

Names == <<"off", "error", "warn", "info", "debug", "trace">>      \* Names[i] caps at level i - 1
Rank(nm) == (CHOOSE i \in 1..6 : Names[i] = nm) - 1
Features == {[rel |-> r, name |-> Names[i]] : r \in BOOLEAN, i \in 1..6}
Min(S) == CHOOSE x \in S : \A y \in S : x <= y

StaticMax(fs, release) ==
  LET mine == {f \in fs : f.rel = release} IN
  IF mine = {} THEN 5 ELSE Min({Rank(f.name) : f \in mine})
StaticallyEnabled(level, fs, release) == level <= StaticMax(fs, release)

\* M: the ladder, rung by rung
Has(fs, release, nm) == [rel |-> release, name |-> nm] \in fs
Ladder(fs, release) ==
  IF Has(fs, release, "off") THEN 0
  ELSE IF Has(fs, release, "error") THEN 1
  ELSE IF Has(fs, release, "warn") THEN 2
  ELSE IF Has(fs, release, "info") THEN 3
  ELSE IF Has(fs, release, "debug") THEN 4
  ELSE 5
MStaticMax(fs, release) == IF release THEN Ladder(fs, TRUE) ELSE Ladder(fs, FALSE)

\* what the probe build reports per level under an accepting collector: [evaluations, collector calls]
ExpectedProbe(level, fs, release) ==
  LET en == StaticallyEnabled(level, fs, release) IN
  [event |-> IF en THEN <<2, 1>> ELSE <<0, 0>>,          \* one field expression and one format argument
   event_short |-> IF en THEN <<1, 1>> ELSE <<0, 0>>,
   span |-> IF en THEN <<1, 1>> ELSE <<0, 0>>,
   span_short |-> IF en THEN <<1, 1>> ELSE <<0, 0>>,
   span_disabled |-> ~en, span2_disabled |-> ~en, enabled |-> en]
=============================================================================
