------------------------------ MODULE MCFields ------------------------------
(* The macro expansion as a step-by-step mechanism (M), checked against Fields (A) for every      *)
(* callsite shape in a small universe:                                                             *)
(*   gates     level_enabled! (max-level hint)  ->  cached interest  ->  Collect::enabled          *)
(*   build     the (field, value) array is built element by element -- the message element first,  *)
(*             then the fields in declaration order -- evaluating each value expression            *)
(*   dispatch  ValueSet::record shows every element whose value is not Empty to the visitor        *)
(* Shorthand values are bound before the macro (pre), whatever the gates say.                      *)
EXTENDS Fields

FieldShapes == {[kind |-> k, ty |-> t, pre |-> p] :
                   k \in {"value", "disp", "dbg", "empty"}, t \in {"u8", "str"}, p \in BOOLEAN}
MkFields(shapes) == [i \in 1..Len(shapes) |->
                       [name |-> <<"f", i>>, alt |-> <<"f", i>>, kind |-> shapes[i].kind, ty |-> shapes[i].ty,
                        slot |-> IF shapes[i].kind = "empty" THEN 0 - 1 ELSE i - 1, pre |-> shapes[i].pre /\ shapes[i].kind # "empty"]]
Msgs(n) == {[present |-> FALSE, text |-> "", args |-> << >>],
            [present |-> TRUE, text |-> "lit", args |-> << >>],
            [present |-> TRUE, text |-> "fmt", args |-> << [slot |-> n, pre |-> FALSE] >>],
            [present |-> TRUE, text |-> "cap", args |-> << [slot |-> n, pre |-> TRUE] >>]}
Decls == UNION {{[kind |-> "event", level |-> 3, fields |-> MkFields(sh), message |-> m, record |-> << >>] : m \in Msgs(Len(sh))}
                 : sh \in UNION {[1..k -> FieldShapes] : k \in 0..2}}
Slots(n) == [s \in 1..n |-> [canon |-> <<"c", s>>, disp |-> <<"d", s>>, dbg |-> <<"g", s>>]]
NSlots(d) == Len(d.fields) + 1

VARIABLES d, mode, cap, pc, k, evals, arr, visits
mvars == <<d, mode, cap, pc, k, evals, arr, visits>>

\* the array elements in construction order: 0 = message, i = field i
Order(dd) == (IF dd.message.present THEN << 0 >> ELSE << >>) \o [i \in 1..Len(dd.fields) |-> i]
Bump(e, S) == [s \in DOMAIN e |-> IF (s - 1) \in S THEN e[s] + 1 ELSE e[s]]
PreSlots(dd) == {dd.fields[i].slot : i \in {j \in 1..Len(dd.fields) : dd.fields[j].pre}}
                \cup (IF dd.message.present THEN {dd.message.args[i].slot : i \in {j \in 1..Len(dd.message.args) : dd.message.args[j].pre}} ELSE {})

Init == /\ d \in Decls /\ mode \in Modes /\ cap \in {2, 3}
        /\ pc = "bind" /\ k = 1 /\ arr = << >> /\ visits = << >>
        /\ evals = [s \in 1..NSlots(d) |-> 0]
Bind == /\ pc = "bind" /\ pc' = "gate_level"                      \* `let a = ...;` before the macro
        /\ evals' = Bump(evals, PreSlots(d))
        /\ UNCHANGED <<d, mode, cap, k, arr, visits>>
GateLevel == /\ pc = "gate_level"
             /\ pc' = IF mode = "cap" /\ d.level > cap THEN "done" ELSE "gate_interest"
             /\ UNCHANGED <<d, mode, cap, k, evals, arr, visits>>
GateInterest == /\ pc = "gate_interest"
                /\ pc' = IF mode = "never" THEN "done" ELSE IF mode = "dynamic" THEN "gate_enabled" ELSE "build"
                /\ UNCHANGED <<d, mode, cap, k, evals, arr, visits>>
GateEnabled == /\ pc = "gate_enabled" /\ pc' = "done"            \* Collect::enabled answered false
               /\ UNCHANGED <<d, mode, cap, k, evals, arr, visits>>
Build == /\ pc = "build"
         /\ IF k > Len(Order(d)) THEN pc' = "dispatch" /\ UNCHANGED <<k, evals, arr>>
            ELSE LET e == Order(d)[k] IN
                 /\ k' = k + 1 /\ pc' = pc
                 /\ arr' = Append(arr, e)
                 /\ evals' = IF e = 0 THEN Bump(evals, {d.message.args[i].slot : i \in {j \in 1..Len(d.message.args) : ~d.message.args[j].pre}})
                             ELSE IF d.fields[e].kind # "empty" /\ ~d.fields[e].pre THEN Bump(evals, {d.fields[e].slot}) ELSE evals
         /\ UNCHANGED <<d, mode, cap, visits>>
Dispatch == /\ pc = "dispatch" /\ pc' = "done"
            /\ visits' = LET some == SelectSeq(arr, LAMBDA e : e = 0 \/ d.fields[e].kind # "empty") IN
                         [j \in 1..Len(some) |->
                            IF some[j] = 0 THEN [name |-> "message", alt |-> "message", m |-> "debug", v |-> d.message.text]
                            ELSE LET f == d.fields[some[j]] IN
                                 [name |-> f.name, alt |-> f.alt, m |-> Method(f), v |-> Text(f, Slots(NSlots(d)))]]
            /\ UNCHANGED <<d, mode, cap, k, evals, arr>>
Next == Bind \/ GateLevel \/ GateInterest \/ GateEnabled \/ Build \/ Dispatch
Spec == Init /\ [][Next]_mvars

Exact == pc = "done" =>
           LET en == Enabled(mode, d.level, cap) IN
           /\ evals = ExpectedEvals(d, en, NSlots(d))
           /\ visits = (IF en THEN ExpectedVisits(d, Slots(NSlots(d))) ELSE << >>)
\* nothing is shown to the collector before every gate has let the callsite through
NoEarlyVisit == visits # << >> => Enabled(mode, d.level, cap)
=============================================================================
