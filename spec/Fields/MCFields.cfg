SPECIFICATION Spec
INVARIANTS Exact NoEarlyVisit
CHECK_DEADLOCK FALSE
