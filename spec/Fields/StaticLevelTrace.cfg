SPECIFICATION TraceSpec
INVARIANT Report
POSTCONDITION Consumed
CHECK_DEADLOCK FALSE
