-------------------------- MODULE StaticLevelTrace --------------------------
(* Validates what the probe, built once per configuration, reported (one ndjson line per build: the configuration, the  *)
(* STATIC_MAX_LEVEL of the build, per level what the macros did) against A of StaticLevel.                               *)
EXTENDS StaticLevel, Json, IOUtils

Rec == ndJsonDeserialize(IOEnv.TRACE)
VARIABLES l, bad
tvars == <<l, bad>>
SetOf(q) == {q[i] : i \in DOMAIN q}
FeatureOf(s) == CHOOSE f \in Features : s = (IF f.rel THEN "release_max_level_" ELSE "max_level_") \o f.name
Conforms(r) ==
  LET fs == {FeatureOf(r.features[i]) : i \in DOMAIN r.features} IN
  /\ r.out.release = r.release
  /\ r.out.static_max = StaticMax(fs, r.release)
  /\ Len(r.out.levels) = 5
  /\ \A lv \in 1..5 : LET o == r.out.levels[lv] e == ExpectedProbe(lv, fs, r.release) IN
        /\ o.event = e.event /\ o.event_short = e.event_short /\ o.span = e.span /\ o.span_short = e.span_short
        /\ o.span_disabled = e.span_disabled /\ o.span2_disabled = e.span2_disabled /\ o.enabled = e.enabled
TraceInit == l = 0 /\ bad = << >>
TraceNext == /\ l < Len(Rec) /\ l' = l + 1
             /\ bad' = IF Conforms(Rec[l + 1]) THEN bad ELSE Append(bad, l + 1)
TraceSpec == TraceInit /\ [][TraceNext]_tvars
Report == l = Len(Rec) => PrintT("@@BAD " \o ToJson(bad))
Consumed == IF TLCGet("stats").diameter = Len(Rec) + 1 THEN TRUE
            ELSE PrintT("@@STUCK " \o ToJson(TLCGet("stats").diameter)) /\ FALSE
=============================================================================
