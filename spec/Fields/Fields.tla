------------------------------- MODULE Fields -------------------------------
(***************************************************************************)
(* What a span / event macro callsite presents to the collector's visitor   *)
(* -- property C10.                                                         *)
(*                                                                          *)
(* A callsite declaration `d` is                                            *)
(*   kind     "event" | "span" | "enabled"                                  *)
(*   level    1..5                                                          *)
(*   fields   sequence, in declaration order, of                            *)
(*            [name, alt, kind, ty, slot, pre] with kind in                 *)
(*            {"value", "disp", "dbg", "empty"}; `slot` indexes the value    *)
(*            assignment; `pre` = the expression is bound outside the macro *)
(*            (shorthand forms), so it is evaluated whatever the filters say*)
(*   message  [present, text, args]  (format-string message)                *)
(*   record   later Span::record calls [field, declared, ty, slot] (by name *)
(*            or by Field key: a key of another callsite is undeclared), or *)
(*            a hand-built value set [set, entries: [field, own, ty, slot]] *)
(*            whose entries may be keyed by a foreign callsite's fields     *)
(* A value assignment gives every slot its canonical text under the typed   *)
(* route (`canon`) and its Display / Debug texts (`disp`, `dbg`).           *)
(*                                                                          *)
(* The callsite runs under a collector in one of four modes; Enabled says   *)
(* whether the property lets it through.  The run is then a sequence of     *)
(* abstract actions Eval(slot) and Visit(name, method, text); this module   *)
(* defines the ONLY sequence of visits and the ONLY evaluation counts the   *)
(* property allows.                                                         *)
(***************************************************************************)
EXTENDS Naturals, Sequences, FiniteSets, TLC

\* the documented typed routes
TypeRoute(ty) ==
  CASE ty \in {"u8", "u16", "u32", "u64", "usize", "nz_u8", "nz_u16", "nz_u32", "nz_u64", "nz_usize",
               "wrapping_u8", "wrapping_u32", "wrapping_u64", "wrapping_usize", "ref_u64", "box_u32"} -> "u64"
    [] ty \in {"i8", "i16", "i32", "i64", "isize", "nz_i8", "nz_i16", "nz_i32", "nz_i64", "nz_isize",
               "wrapping_i16", "wrapping_i64", "refref_i8", "mutref_i32"} -> "i64"
    [] ty \in {"u128", "nz_u128"} -> "u128"
    [] ty \in {"i128", "nz_i128"} -> "i128"
    [] ty \in {"f32", "f64"} -> "f64"
    [] ty = "bool" -> "bool"
    [] ty \in {"str", "string", "string_ref", "box_str"} -> "str"
    [] ty = "bytes" -> "bytes"
    [] ty \in {"err", "err_send", "err_sync", "err_send_sync", "box_err"} -> "error"
    [] ty \in {"display_dd", "debug_dd"} -> "debug"
    [] OTHER -> "?"

Modes == {"accept", "never", "dynamic", "cap"}
\* the filtering stages: register_callsite = never / enabled() = false / max-level hint below the level
\* (a fourth stage, the compile-time cap STATIC_MAX_LEVEL, is conjoined by the trace specification from the build's value)
Enabled(mode, level, cap) == mode = "accept" \/ (mode = "cap" /\ level <= cap)

Present(f) == f.kind # "empty"
Method(f) == IF f.kind \in {"disp", "dbg"} THEN "debug" ELSE TypeRoute(f.ty)
Text(f, slots) == CASE f.kind = "value" -> slots[f.slot + 1].canon
                    [] f.kind = "disp"  -> slots[f.slot + 1].disp
                    [] f.kind = "dbg"   -> slots[f.slot + 1].dbg

\* the visits of one ValueSet: message first, then the present fields in declaration order, each once
FieldVisits(d, slots) ==
  LET idx == SelectSeq([i \in 1..Len(d.fields) |-> i], LAMBDA i : Present(d.fields[i])) IN
  [j \in 1..Len(idx) |-> [name |-> d.fields[idx[j]].name, alt |-> d.fields[idx[j]].alt,
                          m |-> Method(d.fields[idx[j]]), v |-> Text(d.fields[idx[j]], slots)]]
MsgVisit(d) == IF d.message.present THEN << [name |-> "message", alt |-> "message", m |-> "debug", v |-> d.message.text] >> ELSE << >>
ExpectedVisits(d, slots) == MsgVisit(d) \o FieldVisits(d, slots)
ExpectedDeclared(d) == (IF d.message.present THEN << "message" >> ELSE << >>) \o [i \in 1..Len(d.fields) |-> d.fields[i].alt]

\* evaluation counts: exactly once when enabled, not at all when disabled (bound-outside expressions: always once)
SlotUses(d) ==   \* slot -> pre?
  LET fs == {<<d.fields[i].slot, d.fields[i].pre>> : i \in {j \in 1..Len(d.fields) : d.fields[j].slot >= 0}}
      ms == IF d.message.present THEN {<<d.message.args[i].slot, d.message.args[i].pre>> : i \in 1..Len(d.message.args)} ELSE {}
      rs == {<<d.record[i].slot, TRUE>> : i \in 1..Len(d.record)}       \* arguments of Span::record are ordinary call arguments
      es == UNION {{<<d.record[i].entries[j].slot, TRUE>> : j \in 1..Len(d.record[i].entries)} : i \in 1..Len(d.record)}
  IN fs \cup ms \cup rs \cup es
ExpectedEvals(d, en, nslots) ==
  [s \in 1..nslots |-> IF \E u \in SlotUses(d) : u[1] = s - 1 /\ u[2] THEN 1
                       ELSE IF \E u \in SlotUses(d) : u[1] = s - 1 THEN (IF en THEN 1 ELSE 0)
                       ELSE 0]

\* later Span::record calls: a declared field is shown once with its typed value; an undeclared name - or a key that
\* belongs to another callsite - is ignored (no call at all); a hand-built value set is one call showing exactly its
\* entries keyed by the span's own fields, in order
RecVisit(e, slots) == [name |-> e.field, m |-> TypeRoute(e.ty), v |-> slots[e.slot + 1].canon]
RecOpVisits(op, slots) ==
  IF op.set THEN LET idx == SelectSeq([i \in 1..Len(op.entries) |-> i], LAMBDA i : op.entries[i].own) IN
                 [j \in 1..Len(idx) |-> RecVisit(op.entries[idx[j]], slots)]
  ELSE << RecVisit(op, slots) >>
RecordVisits(d, slots) ==
  LET idx == SelectSeq([i \in 1..Len(d.record) |-> i], LAMBDA i : d.record[i].declared) IN
  [j \in 1..Len(idx) |-> RecOpVisits(d.record[idx[j]], slots)]
=============================================================================
