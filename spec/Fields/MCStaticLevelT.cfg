SPECIFICATION Spec
CONSTANT MaxFeatures = 2
INVARIANT MImplementsA
INVARIANT OtherFamilyIrrelevant
POSTCONDITION Export
CHECK_DEADLOCK FALSE
