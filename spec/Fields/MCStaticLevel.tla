--------------------------- MODULE MCStaticLevel ----------------------------
(* every build configuration with at most MaxFeatures of the twelve features, in both profiles: M = A; the case list is *)
(* exported for the harness, which builds the probe once per case                                                       *)
EXTENDS StaticLevel, Json, IOUtils, SequencesExt
CONSTANT MaxFeatures
VARIABLE case
Cases == {[fs |-> fs, release |-> r] : fs \in {s \in SUBSET Features : Cardinality(s) <= MaxFeatures}, r \in BOOLEAN}
Init == case \in Cases
Next == UNCHANGED case
Spec == Init /\ [][Next]_case
MImplementsA == MStaticMax(case.fs, case.release) = StaticMax(case.fs, case.release)
\* the stage is not vacuous: some configuration disables something, and the other family's features never matter
OtherFamilyIrrelevant == StaticMax(case.fs, case.release) = StaticMax({f \in case.fs : f.rel = case.release}, case.release)
FeatureName(f) == (IF f.rel THEN "release_max_level_" ELSE "max_level_") \o f.name
CaseSeq == SetToSeq(Cases)
Export == TLCGet("stats").distinct = Cardinality(Cases) /\ ndJsonSerialize(IOEnv.CASES_OUT,
             [i \in 1..Len(CaseSeq) |-> [features |-> SetToSeq({FeatureName(f) : f \in CaseSeq[i].fs}), release |-> CaseSeq[i].release,
                                         static |-> StaticMax(CaseSeq[i].fs, CaseSeq[i].release)]])
=============================================================================
