-------------------------- MODULE ExtensionsTrace ---------------------------
(* every logged operation of the harness binary `extmap` (what it returned, which values were dropped while it ran, which  *)
(* types a new span found present) against Extensions!Expected                                                             *)
EXTENDS Extensions, Json, IOUtils
Rec == ndJsonDeserialize(IOEnv.TRACE)
VARIABLES l, bad
tvars == <<evars, l, bad>>
SetOf(q) == {q[i] : i \in DOMAIN q}
Ok(r) == LET o == [op |-> r.op, s |-> r.s, ty |-> r.ty] e == Expected(o) IN
         /\ ~("panic" \in DOMAIN r)
         /\ r.ret = e.ret /\ SetOf(r.drops) = e.drops /\ Len(r.drops) = Cardinality(e.drops) /\ SetOf(r.present) = e.present
TraceInit == EInit /\ l = 0 /\ bad = << >>
TraceNext ==
  /\ l < Len(Rec) /\ l' = l + 1
  /\ LET r == Rec[l + 1] IN
       IF r.ev = "reset" THEN /\ n' = 0 /\ open' = [s \in SpanIds |-> FALSE] /\ ext' = [s \in SpanIds |-> [ty \in Types |-> Absent]] /\ nextv' = 1
                              /\ UNCHANGED bad
       ELSE IF r.ev = "crash" THEN UNCHANGED evars /\ bad' = Append(bad, l + 1)   \* the history crashed or did not end: rejected
       ELSE LET o == [op |-> r.op, s |-> r.s, ty |-> r.ty] IN
            /\ Pre(o) /\ Effect(o)
            /\ bad' = (IF Ok(r) THEN bad ELSE Append(bad, l + 1))
TraceSpec == TraceInit /\ [][TraceNext]_tvars
Report == l = Len(Rec) => PrintT("@@BAD " \o ToJson(bad))
Consumed == IF TLCGet("stats").diameter = Len(Rec) + 1 THEN TRUE
            ELSE PrintT("@@STUCK " \o ToJson(TLCGet("stats").diameter)) /\ FALSE
=============================================================================
