----------------------------- MODULE Extensions -----------------------------
(***************************************************************************)
(* The per-span type map of the registry (registry/extensions.rs) - the    *)
(* "stored data" of property C05: what layers keep in a span is there for  *)
(* as long as the span lives, every stored value is dropped exactly once   *)
(* (when replaced, removed, or when the span closes), and a new span -     *)
(* also one that reuses the storage of a closed one - starts empty.        *)
(*                                                                         *)
(* State: per span a partial function type -> value id.  Values are fresh  *)
(* ids, so "dropped exactly once" and "never visible to a later span" can  *)
(* be read off the observations: every operation reports what it returned, *)
(* which value ids were dropped while it ran, and (for a new span) which   *)
(* types it found present.                                                 *)
(***************************************************************************)
EXTENDS Naturals, Sequences, FiniteSets, TLC
CONSTANTS MaxSpans, Types
Absent == 0
SpanIds == 1..MaxSpans
VARIABLES n, open, ext, nextv
evars == <<n, open, ext, nextv>>

EInit == n = 0 /\ open = [s \in SpanIds |-> FALSE] /\ ext = [s \in SpanIds |-> [ty \in Types |-> Absent]] /\ nextv = 1
Stored(s) == {ext[s][ty] : ty \in Types} \ {Absent}

\* op: [op, s, ty]; the expected observation [ret, drops, present]
Pre(o) == CASE o.op = "new" -> n < MaxSpans
            [] o.op = "insert" -> o.s \in 1..n /\ open[o.s] /\ ext[o.s][o.ty] = Absent      \* (insert on a present type panics: not exercised)
            [] OTHER -> o.s \in 1..n /\ open[o.s]
Expected(o) ==
  CASE o.op = "new"     -> [ret |-> n + 1, drops |-> {}, present |-> {}]
    [] o.op = "insert"  -> [ret |-> nextv, drops |-> {}, present |-> {}]
    [] o.op = "replace" -> [ret |-> ext[o.s][o.ty], drops |-> {ext[o.s][o.ty]} \ {Absent}, present |-> {}]    \* the caller drops what it got back
    [] o.op = "remove"  -> [ret |-> ext[o.s][o.ty], drops |-> {ext[o.s][o.ty]} \ {Absent}, present |-> {}]
    [] o.op = "get"     -> [ret |-> ext[o.s][o.ty], drops |-> {}, present |-> {}]
    [] o.op = "close"   -> [ret |-> 0, drops |-> Stored(o.s), present |-> {}]
Effect(o) ==
  CASE o.op = "new"     -> n' = n + 1 /\ open' = [open EXCEPT ![n + 1] = TRUE] /\ UNCHANGED <<ext, nextv>>
    [] o.op = "insert"  -> ext' = [ext EXCEPT ![o.s][o.ty] = nextv] /\ nextv' = nextv + 1 /\ UNCHANGED <<n, open>>
    [] o.op = "replace" -> ext' = [ext EXCEPT ![o.s][o.ty] = nextv] /\ nextv' = nextv + 1 /\ UNCHANGED <<n, open>>
    [] o.op = "remove"  -> ext' = [ext EXCEPT ![o.s][o.ty] = Absent] /\ UNCHANGED <<n, open, nextv>>
    [] o.op = "get"     -> UNCHANGED evars
    [] o.op = "close"   -> open' = [open EXCEPT ![o.s] = FALSE] /\ ext' = [ext EXCEPT ![o.s] = [ty \in Types |-> Absent]] /\ UNCHANGED <<n, nextv>>
AllOps == {[op |-> "new", s |-> 0, ty |-> 0]}
          \cup {[op |-> k, s |-> s, ty |-> ty] : k \in {"insert", "replace", "remove", "get"}, s \in SpanIds, ty \in Types}
          \cup {[op |-> "close", s |-> s, ty |-> 0] : s \in SpanIds}
=============================================================================
