SPECIFICATION TraceSpec
CONSTANTS
  MaxSpans = 10
  Types = {1, 2, 3}
INVARIANT Report
POSTCONDITION Consumed
CHECK_DEADLOCK FALSE
