SPECIFICATION SimSpec
CONSTANTS
  MaxSpans = 10
  Types = {1, 2, 3}
  MaxSteps = 50
INVARIANT Emitted
INVARIANT Unique
INVARIANT ClosedIsEmpty
CHECK_DEADLOCK FALSE
