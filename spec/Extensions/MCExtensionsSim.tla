-------------------------- MODULE MCExtensionsSim ---------------------------
(* random histories of the type map for the harness (tlc -simulate); invariants: a stored value id is stored in one place only *)
EXTENDS Extensions, Json
CONSTANT MaxSteps
VARIABLES hist, done
Enabled == {o \in AllOps : Pre(o)}
SimNext ==
  \/ /\ Len(hist) < MaxSteps /\ ~done /\ Enabled # {}
     /\ \E k \in {RandomElement({o.op : o \in Enabled})} : \E o \in {RandomElement({x \in Enabled : x.op = k})} :
          Effect(o) /\ hist' = Append(hist, o) /\ done' = FALSE
  \/ (Len(hist) = MaxSteps \/ Enabled = {}) /\ ~done /\ done' = TRUE /\ UNCHANGED <<evars, hist>>
SimSpec == EInit /\ hist = << >> /\ done = FALSE /\ [][SimNext]_<<evars, hist, done>>
Emitted == done => PrintT("@@BEH " \o ToJson([src |-> "tlc-simulate", steps |-> hist]))
Unique == \A s1, s2 \in SpanIds, t1, t2 \in Types : (ext[s1][t1] # Absent /\ ext[s1][t1] = ext[s2][t2]) => (s1 = s2 /\ t1 = t2)
ClosedIsEmpty == \A s \in SpanIds : ~open[s] => Stored(s) = {}
=============================================================================
