------------------------------ MODULE LogBridge ------------------------------
(***************************************************************************)
(* `log` <-> `tracing` interoperation -- property C18.                      *)
(*                                                                         *)
(* log -> tracing.  A `log` record [level, target, ...] handed to the       *)
(* bridge (LogTracer with an ignore list) while collector `cur` is current  *)
(* becomes exactly one event iff `cur` accepts the RECORD's level and       *)
(* target and the target is under no ignored prefix (A: Delivered).  M is   *)
(* the code's chain of gates: record level <= LevelFilter::current() (the   *)
(* max-level hint published by the live collectors), the ignore list,      *)
(* cur.enabled(record metadata) in LogTracer::enabled, and once more in     *)
(* dispatch_record.                                                         *)
(*                                                                         *)
(* tracing -> log (tracing's `log` feature).  While no collector has EVER   *)
(* been installed, an event emits one `log` record and every span           *)
(* lifecycle step (creation, each record of a declared field, enter, exit,  *)
(* close) one; from the first installation on -- scoped or global, and      *)
(* also after a scoped collector has been dropped again -- none.  A keeps   *)
(* the ghost `ever`; M is the EXISTS flag of tracing-core.                  *)
(***************************************************************************)
EXTENDS Naturals, Sequences, FiniteSets, TLC

CONSTANTS RTargets,    \* record targets
          Prefixes,    \* collector target prefixes and ignore-list entries
          ResetOnDrop  \* negative control: EXISTS forgotten when the last scoped collector goes

StartsWith(t, p) ==   \* str::starts_with on the universe
  \/ p = "" \/ p = t
  \/ (p = "a" /\ t \in {"a", "a::b", "ab"})
  \/ (p = "skip" /\ t \in {"skip", "skip::x", "skipper"})
  \/ (p = "my-app" /\ t \in {"my-app", "my-app::db"})              \* a hyphen is an ordinary character of a target

\* a collector accepts levels up to `cap`, announced through max_level_hint (hint), checked in enabled() (inen), or both;
\* with neither it accepts every level
Collectors == [cap : 0..5, prefix : Prefixes, hint : BOOLEAN, inen : BOOLEAN]
NoCollector == [cap |-> 0, prefix |-> "", hint |-> FALSE, inen |-> TRUE, none |-> TRUE]
IsNone(c) == "none" \in DOMAIN c

(* ------------------------------ log -> tracing ------------------------- *)
Accepts(c, lvl, tgt) == ~IsNone(c) /\ ((c.hint \/ c.inen) => lvl <= c.cap) /\ StartsWith(tgt, c.prefix)
Ignored(ign, tgt) == \E p \in ign : StartsWith(tgt, p)
Delivered(c, ign, lvl, tgt) == Accepts(c, lvl, tgt) /\ ~Ignored(ign, tgt)          \* A

MaxLevel(c) == IF IsNone(c) THEN 0 ELSE IF c.hint THEN c.cap ELSE 5                 \* LevelFilter::current()
CEnabled(c, lvl, tgt) == ~IsNone(c) /\ (c.inen => lvl <= c.cap) /\ StartsWith(tgt, c.prefix)   \* Collect::enabled
MEnabled(c, ign, lvl, tgt) == lvl <= MaxLevel(c) /\ ~Ignored(ign, tgt) /\ CEnabled(c, lvl, tgt)
MDelivered(c, ign, lvl, tgt) == MEnabled(c, ign, lvl, tgt) /\ CEnabled(c, lvl, tgt)  \* dispatch_record asks again

BridgeExact == \A c \in Collectors \cup {NoCollector}, ign \in SUBSET (Prefixes \ {""}), lvl \in 1..5, t \in RTargets :
                  MDelivered(c, ign, lvl, t) = Delivered(c, ign, lvl, t)

\* level conversion: rank-preserving both ways (ranks: OFF = 0, ERROR = 1 .. TRACE = 5 on both sides)
LevelMapOk(rows) == \A i \in DOMAIN rows : rows[i].log_rank = rows[i].trace_rank /\ rows[i].back = rows[i].trace_rank

(* ------------------------------ tracing -> log ------------------------- *)
VARIABLES ever,     \* A: a collector has been installed at some point
          exists,   \* M: the EXISTS flag
          scoped,   \* number of live scoped collectors
          global    \* a global default is set
lvars == <<ever, exists, scoped, global>>

LInit == ever = FALSE /\ exists = FALSE /\ scoped = 0 /\ global = FALSE
ScopedOn  == /\ scoped < 2 /\ scoped' = scoped + 1 /\ ever' = TRUE /\ exists' = TRUE /\ UNCHANGED global
ScopedOff == /\ scoped > 0 /\ scoped' = scoped - 1
             /\ exists' = IF ResetOnDrop /\ scoped = 1 /\ ~global THEN FALSE ELSE exists
             /\ UNCHANGED <<ever, global>>
Global    == /\ ~global /\ global' = TRUE /\ ever' = TRUE /\ exists' = TRUE /\ UNCHANGED scoped
Emit      == UNCHANGED lvars       \* a callsite runs: it logs iff ~exists (M) and must log iff ~ever (A)
LNext == ScopedOn \/ ScopedOff \/ Global \/ Emit
LSpec == LInit /\ [][LNext]_lvars
LogsIffNever == exists = ever

\* the records one callsite must emit while no collector has ever been installed; d is a Fields declaration
Present(f) == f.kind # "empty"
AnyPresent(d) == \E i \in DOMAIN d.fields : Present(d.fields[i])
ExpectedRecords(d, module) ==
  LET tgt == IF d.target = "" THEN module ELSE d.target IN
  IF d.kind = "event" THEN << [what |-> "event", level |-> d.level, target |-> tgt] >>
  ELSE IF d.kind = "span" THEN
         \* a span without recorded values may use the lifecycle target instead of its own (both are "corresponding")
         << [what |-> "new", level |-> d.level, target |-> IF AnyPresent(d) THEN tgt ELSE "tracing::span", alt |-> tgt] >>
         \* one record per later Span::record of a declared field (by name or by the span's own Field key; undeclared names and
         \* foreign keys: none) and per hand-built value set - which, with no entry of the span's own, counts as a lifecycle line
         \o (LET rs == SelectSeq(d.record, LAMBDA r : r.declared) IN
             [i \in 1..Len(rs) |-> [what |-> "record", level |-> d.level,
                                    target |-> IF rs[i].set /\ ~(\E j \in DOMAIN rs[i].entries : rs[i].entries[j].own) THEN "tracing::span" ELSE tgt]])
         \o << [what |-> "enter", level |-> 5, target |-> "tracing::span::active"],
               [what |-> "exit", level |-> 5, target |-> "tracing::span::active"] >>
         \* d.guard2: the driver additionally clones the handle, enters it through the owned guard, exits and drops the clone:
         \* one more enter, one more exit, and the close of that handle
         \* d.fut: the span wraps a future (Instrument::instrument) that is polled once and then dropped: Instrumented enters the
         \* span around the poll (the pair above) and once more around dropping the future
         \o (IF "fut" \in DOMAIN d /\ d.fut
             THEN << [what |-> "enter", level |-> 5, target |-> "tracing::span::active"],
                     [what |-> "exit", level |-> 5, target |-> "tracing::span::active"] >>
             ELSE << >>)
         \o (IF "guard2" \in DOMAIN d /\ d.guard2
             THEN << [what |-> "enter", level |-> 5, target |-> "tracing::span::active"],
                     [what |-> "exit", level |-> 5, target |-> "tracing::span::active"],
                     [what |-> "close", level |-> 5, target |-> "tracing::span"] >>
             ELSE << >>)
         \o << [what |-> "close", level |-> 5, target |-> "tracing::span"] >>
  ELSE << >>
=============================================================================
