SPECIFICATION LSpec
CONSTANTS
  RTargets = {"a", "a::b", "ab", "b", "skip", "skip::x", "skipper", "my-app", "my-app::db", "my_app::db"}
  Prefixes = {"", "a", "a::b", "skip", "my-app"}
  ResetOnDrop = TRUE
INVARIANT LogsIffNever
CHECK_DEADLOCK FALSE
