SPECIFICATION LSpec
CONSTANTS
  RTargets = {"a", "a::b", "ab", "b", "skip", "skip::x", "skipper"}
  Prefixes = {"", "a", "a::b", "skip"}
  ResetOnDrop = TRUE
INVARIANT LogsIffNever
CHECK_DEADLOCK FALSE
