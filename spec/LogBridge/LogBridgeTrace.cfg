SPECIFICATION TraceSpec
CONSTANTS
  RTargets = {}
  Prefixes = {}
  ResetOnDrop = FALSE
INVARIANT Report
POSTCONDITION Consumed
CHECK_DEADLOCK FALSE
