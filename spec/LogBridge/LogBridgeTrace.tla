--------------------------- MODULE LogBridgeTrace ----------------------------
(* Validates the traces of the harness binary `logbridge` (one OS process per behaviour) against    *)
(* LogBridge.  Lines:                                                                                 *)
(*   reset                                   a new process                                            *)
(*   t2l  op = site | scoped_on | scoped_off | global, records (+ projection `proj`)                  *)
(*          -> ScopedOn / ScopedOff / Global / Emit; a site must have produced ExpectedRecords while  *)
(*             no collector was ever installed and nothing afterwards                                 *)
(*   round  collector, ignore                the collector of the following records                   *)
(*   l2t  rec, enabled, events               one `log` record through LogTracer                       *)
(*   levels rows                             the conversion tables                                    *)
EXTENDS LogBridge, Json, IOUtils

Rec == ndJsonDeserialize(IOEnv.TRACE)
VARIABLES l, bad, cur, ign, always      \* always: the build under test has tracing's `log-always` (records are emitted whatever was installed)
tvars == <<lvars, l, bad, cur, ign, always>>
MODULE_TARGET == "logbridge::corpus"

SiteOk(r) ==
  LET exp == IF ever /\ ~always THEN << >> ELSE ExpectedRecords(r.decl, MODULE_TARGET) IN
  /\ ~("panic" \in DOMAIN r)
  /\ \A i \in DOMAIN r.evals : r.evals[i] <= 1                 \* no value expression is evaluated twice (once for log, once for the collector)
  /\ Len(r.records) = Len(exp)
  /\ \A i \in 1..Len(exp) :
       /\ r.records[i].level = exp[i].level
       /\ r.records[i].target = exp[i].target \/ ("alt" \in DOMAIN exp[i] /\ r.records[i].target = exp[i].alt)
       /\ r.proj[i].what = exp[i].what \/ (exp[i].what \in {"event", "new", "record"} /\ r.proj[i].what = "plain")
       /\ exp[i].what = "event" => r.proj[i].fields_ok /\ r.proj[i].msg_ok      \* text contains the message and every field
       /\ exp[i].what = "new" => r.proj[i].fields_ok /\ r.proj[i].name_ok
       /\ exp[i].what \in {"record", "enter", "exit", "close"} => r.proj[i].name_ok

SomeEq(a, b) == a.some = b.some /\ (a.some => a.v = b.v)
\* via = "format_trace": tracing_log::format_trace, the entry point without LogTracer (no ignore list, no max-level gate):
\* the record becomes an event iff the collector's enabled() accepts its level and target
RecordOk(r) ==
  LET ft == r.rec.via = "format_trace"
      handed == IF ft THEN CEnabled(cur, r.rec.level, r.rec.target) ELSE Delivered(cur, ign, r.rec.level, r.rec.target)
      \* a record written with the log! macros reaches the logger only up to the `log` crate's own maximum level, which the
      \* installation set (with_max_level / init_with_filter; TRACE otherwise)
      del == handed /\ (r.rec.via_macro => r.rec.level <= r.maxlog) IN
  /\ ~("panic" \in DOMAIN r)
  /\ ~ft => r.enabled = handed
  /\ Len(r.events) = (IF del THEN 1 ELSE 0)
  /\ del => LET e == r.events[1] IN
            /\ e.is_log
            /\ e.norm.target = r.rec.target /\ e.norm.level = r.rec.level /\ e.norm.is_event
            /\ ~r.rec.via_macro => /\ SomeEq(e.norm.file, r.rec.file) /\ SomeEq(e.norm.module, r.rec.module)
                                    /\ e.norm.line = r.rec.line
            /\ \E i \in DOMAIN e.fields : e.fields[i].name = "message" /\ e.fields[i].v = r.rec.msg
            /\ Cardinality({i \in DOMAIN e.fields : e.fields[i].name = "message"}) = 1

TraceInit == LInit /\ l = 0 /\ bad = << >> /\ cur = NoCollector /\ ign = {} /\ always = FALSE
Flag(ok) == bad' = (IF ok THEN bad ELSE Append(bad, l + 1))
TraceNext ==
  /\ l < Len(Rec)
  /\ l' = l + 1
  /\ LET r == Rec[l + 1] IN
       CASE r.ev = "reset" -> /\ ever' = FALSE /\ exists' = FALSE /\ scoped' = 0 /\ global' = FALSE
                              /\ cur' = NoCollector /\ ign' = {} /\ always' = r.always /\ UNCHANGED bad
         [] r.ev = "t2l" ->
              /\ UNCHANGED <<cur, ign, always>>
              /\ (CASE r.op = "site"       -> Emit /\ Flag(SiteOk(r) /\ r.has_been_set = ever)
                    [] r.op = "scoped_on"  -> ScopedOn /\ Flag(r.has_been_set /\ Len(r.records) = 0)
                    [] r.op = "scoped_off" -> ScopedOff /\ Flag(r.has_been_set /\ Len(r.records) = 0)
                    [] r.op = "global"     -> Global /\ Flag(r.has_been_set /\ Len(r.records) = 0)
                   \* constructing a collector is not installing one
                   [] r.op = "construct"  -> Emit /\ Flag(r.has_been_set = ever /\ Len(r.records) = 0))
         [] r.ev = "round" -> /\ cur' = (IF r.installed THEN [cap |-> r.collector.cap, prefix |-> r.collector.prefix, hint |-> r.collector.hint, inen |-> r.collector.inen] ELSE NoCollector)
                              /\ ign' = {r.ignore[i] : i \in DOMAIN r.ignore}
                              /\ UNCHANGED <<lvars, bad, always>>
         [] r.ev = "l2t" -> Flag(RecordOk(r)) /\ UNCHANGED <<lvars, cur, ign, always>>
         [] r.ev = "levels" -> Flag(LevelMapOk(r.rows) /\ Len(r.rows) = 11) /\ UNCHANGED <<lvars, cur, ign, always>>
         [] r.ev = "crash" -> Flag(FALSE) /\ UNCHANGED <<lvars, cur, ign, always>>
TraceSpec == TraceInit /\ [][TraceNext]_tvars
Report == l = Len(Rec) => PrintT("@@BAD " \o ToJson(bad))
Consumed == IF TLCGet("stats").diameter = Len(Rec) + 1 THEN TRUE
            ELSE PrintT("@@STUCK " \o ToJson(TLCGet("stats").diameter)) /\ FALSE
=============================================================================
