---------------------------- MODULE CalendarTrace ---------------------------
(* Validates timestamps printed by the real formatter (harness binary c20, through                *)
(* SystemTime::format_time with the per-thread clock hook) against Civil / Clock of Calendar.     *)
(* An instant is logged in split form <cyc, dic, sod, ns> (400-year cycle since 0001-01-01, day    *)
(* in cycle, second of day, nanos; the Euclidean split is done by the harness in i128 because TLC *)
(* integers are 32-bit), the printed text as parsed fields <yc, yy, mo, d, h, mi, s, us> with the  *)
(* printed year Y split the same way (yc = (Y-1) div 400, yy = (Y-1) mod 400 + 1).                *)
(* Records are independent; a non-conforming one is recorded in `bad` and validation continues.   *)
(* Within a chunk the instants ascend; `mono` records any place where the printed tuple descends. *)
EXTENDS Integers, Sequences, TLC, Json, IOUtils

Cal == INSTANCE Calendar WITH LastDay <- 0, n <- 0, y <- 1, m <- 1, d <- 1, sod <- 0, h <- 0, mi <- 0, s <- 0

Rec == ndJsonDeserialize(IOEnv.TRACE)
VARIABLES l, bad, mono
tvars == <<l, bad, mono>>

Conforms(r) ==
  /\ r.wf
  /\ r.dic \in 0..146096 /\ r.sod \in 0..86399 /\ r.ns \in 0..999999999
  /\ LET c == Cal!Civil(r.dic) IN r.yc = r.cyc /\ r.yy = c[1] /\ r.mo = c[2] /\ r.d = c[3]
  /\ <<r.h, r.mi, r.s>> = Cal!Clock(r.sod)
  /\ r.us = r.ns \div 1000                       \* truncated, never rounded up

Key(r) == <<r.yc, r.yy, r.mo, r.d, r.h, r.mi, r.s, r.us>>
RECURSIVE LexLE(_, _)
LexLE(a, b) == IF Len(a) = 0 THEN TRUE
               ELSE IF Head(a) < Head(b) THEN TRUE
               ELSE IF Head(a) > Head(b) THEN FALSE
               ELSE LexLE(Tail(a), Tail(b))

TraceInit == l = 0 /\ bad = << >> /\ mono = << >>
TraceNext ==
  /\ l < Len(Rec)
  /\ l' = l + 1
  /\ LET r == Rec[l + 1] IN
       /\ bad' = IF r.ev = "reset" \/ Conforms(r) THEN bad ELSE Append(bad, l + 1)
       /\ mono' = IF l >= 1 /\ r.ev # "reset" /\ Rec[l].ev # "reset" /\ r.wf /\ Rec[l].wf /\ ~LexLE(Key(Rec[l]), Key(r))
                  THEN Append(mono, l + 1) ELSE mono
TraceSpec == TraceInit /\ [][TraceNext]_tvars

Report == l = Len(Rec) => PrintT("@@BAD " \o ToJson(bad)) /\ PrintT("@@MONO " \o ToJson(mono))
Consumed == IF TLCGet("stats").diameter = Len(Rec) + 1 THEN TRUE
            ELSE PrintT("@@STUCK " \o ToJson(TLCGet("stats").diameter)) /\ FALSE
=============================================================================
