------------------------------ MODULE Calendar ------------------------------
(***************************************************************************)
(* C20 - the default timestamp is the correct UTC calendar time.           *)
(*                                                                         *)
(* A: the proleptic Gregorian calendar as an ODOMETER: day number n (0 =   *)
(*    0001-01-01) with (y, m, d) advanced one day at a time by the leap    *)
(*    rule, and the second of the day with (h, mi, s) advanced one second  *)
(*    at a time.  No division by cycles - an independent formulation of    *)
(*    what tracing-subscriber/src/fmt/time/datetime.rs computes in closed  *)
(*    form from 2000-03-01 (musl's __secs_to_tm).                          *)
(* Civil(n): a second, closed-form definition (days-from-civil inverse,    *)
(*    era/yoe/doy/mp arithmetic - not musl's algorithm).  TLC proves       *)
(*    Civil(n) = odometer(n) on every day of the swept range, and the      *)
(*    400-year periodicity that extends it to every cycle.  Civil is what  *)
(*    validates implementation output (CalendarTrace).                     *)
(***************************************************************************)
EXTENDS Integers, Sequences, TLC

CONSTANT LastDay           \* sweep 0 .. LastDay  (146096 = one 400-year cycle; 3652058 = 9999-12-31)

DaysPerCycle == 146097
IsLeap(y) == (y % 4 = 0 /\ y % 100 # 0) \/ y % 400 = 0
DaysInMonth(y, m) == CASE m \in {1, 3, 5, 7, 8, 10, 12} -> 31
                       [] m \in {4, 6, 9, 11} -> 30
                       [] m = 2 -> IF IsLeap(y) THEN 29 ELSE 28

\* closed form; z = days since 0000-03-01 (306 days before 0001-01-01)
Civil(n) ==
  LET z   == n + 306
      era == z \div 146097
      doe == z % 146097
      yoe == (doe - doe \div 1460 + doe \div 36524 - doe \div 146096) \div 365
      doy == doe - (365 * yoe + yoe \div 4 - yoe \div 100)
      mp  == (5 * doy + 2) \div 153
      dd  == doy - (153 * mp + 2) \div 5 + 1
      mm  == IF mp < 10 THEN mp + 3 ELSE mp - 9
      yy  == yoe + era * 400 + (IF mm <= 2 THEN 1 ELSE 0)
  IN <<yy, mm, dd>>

VARIABLES n, y, m, d,        \* the day odometer
          sod, h, mi, s      \* the second-of-day odometer
vars == <<n, y, m, d, sod, h, mi, s>>

Init == n = 0 /\ y = 1 /\ m = 1 /\ d = 1 /\ sod = 0 /\ h = 0 /\ mi = 0 /\ s = 0

NextDay ==
  /\ sod = 0 /\ n < LastDay
  /\ n' = n + 1
  /\ IF d < DaysInMonth(y, m) THEN d' = d + 1 /\ UNCHANGED <<y, m>>
     ELSE d' = 1 /\ (IF m < 12 THEN m' = m + 1 /\ y' = y ELSE m' = 1 /\ y' = y + 1)
  /\ UNCHANGED <<sod, h, mi, s>>

NextSecond ==
  /\ n = 0 /\ sod < 86399
  /\ sod' = sod + 1
  /\ IF s < 59 THEN s' = s + 1 /\ UNCHANGED <<h, mi>>
     ELSE s' = 0 /\ (IF mi < 59 THEN mi' = mi + 1 /\ h' = h ELSE mi' = 0 /\ h' = h + 1)
  /\ UNCHANGED <<n, y, m, d>>

Next == NextDay \/ NextSecond
Spec == Init /\ [][Next]_vars

\* closed-form time of day, used by the trace validator
Clock(x) == <<x \div 3600, (x \div 60) % 60, x % 60>>

CivilIsOdometer == Civil(n) = <<y, m, d>>
ClockIsOdometer == Clock(sod) = <<h, mi, s>>
\* the calendar repeats every 146097 days, shifted by 400 years (checked for every swept day, one cycle ahead and behind)
Periodic == /\ Civil(n + DaysPerCycle) = <<y + 400, m, d>>
            /\ Civil(n - DaysPerCycle) = <<y - 400, m, d>>
WellFormed == m \in 1..12 /\ d \in 1..DaysInMonth(y, m) /\ h \in 0..23 /\ mi \in 0..59 /\ s \in 0..59
=============================================================================
