SPECIFICATION Spec
CONSTANT LastDay = 3652058
INVARIANT CivilIsOdometer
INVARIANT ClockIsOdometer
INVARIANT Periodic
INVARIANT WellFormed
CHECK_DEADLOCK FALSE
