SPECIFICATION Spec
CONSTANT LastDay = 146096
INVARIANT CivilIsOdometer
INVARIANT ClockIsOdometer
INVARIANT Periodic
INVARIANT WellFormed
CHECK_DEADLOCK FALSE
