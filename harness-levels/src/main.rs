//! C10, compile-time stage: prints one JSON line - STATIC_MAX_LEVEL of this build, whether it is a release build, and per
//! level what an event!, a span! and an enabled! at that level did under a collector that accepts everything
//! (evaluations of the field expression, collector calls, the answer).
use std::sync::atomic::{AtomicUsize, Ordering};
use tracing::collect::{Collect, Interest};
use tracing::level_filters::{LevelFilter, STATIC_MAX_LEVEL};
use tracing::span::{Attributes, Id, Record};
use tracing::{Event, Level, Metadata};

static EVALS: AtomicUsize = AtomicUsize::new(0);
static EVENTS: AtomicUsize = AtomicUsize::new(0);
static SPANS: AtomicUsize = AtomicUsize::new(0);
fn v() -> u64 {
    EVALS.fetch_add(1, Ordering::SeqCst);
    7
}

struct All;
impl Collect for All {
    fn register_callsite(&self, _: &'static Metadata<'static>) -> Interest {
        Interest::always()
    }
    fn enabled(&self, _: &Metadata<'_>) -> bool {
        true
    }
    fn max_level_hint(&self) -> Option<LevelFilter> {
        Some(LevelFilter::TRACE)
    }
    fn new_span(&self, _: &Attributes<'_>) -> Id {
        SPANS.fetch_add(1, Ordering::SeqCst);
        Id::from_u64(1)
    }
    fn record(&self, _: &Id, _: &Record<'_>) {}
    fn record_follows_from(&self, _: &Id, _: &Id) {}
    fn event(&self, _: &Event<'_>) {
        EVENTS.fetch_add(1, Ordering::SeqCst);
    }
    fn enter(&self, _: &Id) {}
    fn exit(&self, _: &Id) {}
    fn current_span(&self) -> tracing_core::span::Current {
        tracing_core::span::Current::unknown()
    }
}

fn rank(f: LevelFilter) -> u64 {
    [LevelFilter::OFF, LevelFilter::ERROR, LevelFilter::WARN, LevelFilter::INFO, LevelFilter::DEBUG, LevelFilter::TRACE].iter().position(|x| *x == f).unwrap() as u64
}

macro_rules! probe {
    ($out:ident, $lvl:expr, $short_event:ident, $short_span:ident) => {{
        let take = || (EVALS.swap(0, Ordering::SeqCst), EVENTS.swap(0, Ordering::SeqCst), SPANS.swap(0, Ordering::SeqCst));
        take();
        tracing::event!($lvl, x = v(), "m {}", v());
        let e = take();
        tracing::$short_event!(x = v());
        let e2 = take();
        let s = tracing::span!($lvl, "s", x = v());
        let sp = take();
        let s2 = tracing::$short_span!("s2", x = v());
        let sp2 = take();
        let en = tracing::enabled!($lvl);
        $out.push(format!(
            "{{\"event\":[{},{}],\"event_short\":[{},{}],\"span\":[{},{}],\"span_short\":[{},{}],\"span_disabled\":{},\"span2_disabled\":{},\"enabled\":{}}}",
            e.0, e.1, e2.0, e2.1, sp.0, sp.2, sp2.0, sp2.2, s.is_disabled(), s2.is_disabled(), en
        ));
    }};
}

fn main() {
    let mut out: Vec<String> = vec![];
    tracing::collect::with_default(All, || {
        probe!(out, Level::ERROR, error, error_span);
        probe!(out, Level::WARN, warn, warn_span);
        probe!(out, Level::INFO, info, info_span);
        probe!(out, Level::DEBUG, debug, debug_span);
        probe!(out, Level::TRACE, trace, trace_span);
    });
    println!("{{\"static_max\":{},\"release\":{},\"levels\":[{}]}}", rank(STATIC_MAX_LEVEL), !cfg!(debug_assertions), out.join(","));
}
