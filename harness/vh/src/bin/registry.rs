//! C05 / C06 driver (spec/Registry): histories of span creation, handle clone/drop, enter/exit in
//! any order on several threads, Span::current / SpanTrace captures, events, default switches,
//! against one or two real `Registry` stacks, each under two recording layers + ErrorSubscriber.
use serde_json::{json, Value};
use std::collections::HashMap;
use std::sync::{Arc, Condvar, Mutex};
use tracing::{Level, Span};
use tracing_core::{dispatch, span, Dispatch, Event};
use tracing_error::{ErrorSubscriber, SpanTrace};
use tracing_subscriber::registry::{LookupSpan, Registry};
use tracing_subscriber::subscribe::{CollectExt, Context, Subscribe};
use tracing_subscriber::filter::LevelFilter;
use vh_common::rec::{drain, new_log, Log};
use vh_common::runner;
use vh_common::workers::Workers;

struct Tok<const L: u8>(u64);

struct KVisit(Option<u64>);
impl tracing_core::field::Visit for KVisit {
    fn record_u64(&mut self, f: &tracing_core::Field, v: u64) {
        if f.name() == "k" {
            self.0 = Some(v);
        }
    }
    fn record_debug(&mut self, _: &tracing_core::Field, _: &dyn std::fmt::Debug) {}
}

struct RecLayer<const L: u8> {
    reg: u64,
    log: Log,
}

/// A gate inside layer 2's `on_close`: a `drop` step marked `hold` parks there (the span's close is under way: layer 1
/// has been told, the slot is not yet cleared) while other threads go on, until the matching `release` step.
struct Gate {
    st: Mutex<(u64, u8)>, // (armed thread, 0 idle / 1 parked / 2 released)
    cv: Condvar,
}
static GATE: Gate = Gate { st: Mutex::new((0, 0)), cv: Condvar::new() };
impl Gate {
    fn arm(&self, t: u64) {
        *self.st.lock().unwrap() = (t, 0);
    }
    fn disarm(&self) {
        *self.st.lock().unwrap() = (0, 0);
    }
    fn park_if_armed(&self) {
        let mut g = self.st.lock().unwrap();
        if g.0 != 0 && g.0 == vh_common::rec::vt() && g.1 == 0 {
            g.1 = 1;
            self.cv.notify_all();
            while g.1 != 2 {
                g = self.cv.wait(g).unwrap();
            }
            *g = (0, 0);
        }
    }
    fn parked(&self) -> bool {
        self.st.lock().unwrap().1 == 1
    }
    fn release(&self) {
        let mut g = self.st.lock().unwrap();
        if g.1 == 1 {
            g.1 = 2;
            self.cv.notify_all();
        }
    }
}

/// User code inside `on_close`: when layer 2 is told that the span with token `.1` closes on thread `.0`, it runs `.2`
/// (which gives up the last handle of another span - that span's whole close then runs nested inside this one).
type NestedJob = Box<dyn FnOnce() + Send>;
static NESTED: Mutex<Option<(u64, i64, NestedJob)>> = Mutex::new(None);
/// User code inside `on_event`: when layer 2 sees an event on thread `.0`, it runs `.1` (which gives up a span handle - from
/// inside a collector callback, i.e. inside the `get_default` closure of the emitting macro).
static EVJOB: Mutex<Option<(u64, NestedJob)>> = Mutex::new(None);
fn run_evjob_if_armed() {
    let job = {
        let mut g = EVJOB.lock().unwrap();
        match g.as_ref() {
            Some((t, _)) if *t == vh_common::rec::vt() => g.take().map(|x| x.1),
            _ => None,
        }
    };
    if let Some(j) = job {
        j();
    }
}
/// User code inside `on_close` that panics: layer 2 panics (once) when it is told that span `.1` closes on thread `.0`.
static BOOM: Mutex<Option<(u64, i64)>> = Mutex::new(None);
fn boom_if_armed(tok: i64) {
    let hit = {
        let mut g = BOOM.lock().unwrap();
        match *g {
            Some((t, k)) if t == vh_common::rec::vt() && k == tok => g.take().is_some(),
            _ => false,
        }
    };
    if hit {
        panic!("user code panics inside on_close");
    }
}
fn run_nested_if_armed(tok: i64) {
    let job = {
        let mut g = NESTED.lock().unwrap();
        match g.as_ref() {
            Some((t, k, _)) if *t == vh_common::rec::vt() && *k == tok => g.take().map(|x| x.2),
            _ => None,
        }
    };
    if let Some(j) = job {
        j();
    }
}

/// the parents of the items a scope iterator yields must be the scope itself, shifted by one (an item handed out by the
/// iterator looks at the tree through the same filter as the iterator does)
fn scope_items_consistent<'a, const L: u8, C: LookupSpan<'a>>(scope: tracing_subscriber::registry::Scope<'a, C>) -> bool {
    let (mut toks, mut parents) = (vec![], vec![]);
    for a in scope {
        toks.push(tok_of::<L, C>(&a));
        parents.push(a.parent().map(|p| tok_of::<L, C>(&p)).unwrap_or(0));
    }
    toks.iter().skip(1).copied().chain(std::iter::once(0)).collect::<Vec<i64>>() == parents
}

/// leaf -> root by repeated `parent()` (must agree with `scope()`)
fn walk_up<'a, const L: u8, C: LookupSpan<'a>>(s: tracing_subscriber::registry::SpanRef<'a, C>) -> Vec<i64> {
    let mut v = vec![tok_of::<L, C>(&s)];
    let mut cur = s.parent();
    while let Some(p) = cur {
        v.push(tok_of::<L, C>(&p));
        cur = p.parent();
    }
    v
}

fn tok_of<'a, const L: u8, C: LookupSpan<'a>>(s: &tracing_subscriber::registry::SpanRef<'a, C>) -> i64 {
    s.extensions().get::<Tok<L>>().map(|t| t.0 as i64).unwrap_or(-1)
}

impl<const L: u8, C> Subscribe<C> for RecLayer<L>
where
    C: tracing_core::Collect + for<'a> LookupSpan<'a>,
{
    fn on_new_span(&self, attrs: &span::Attributes<'_>, id: &span::Id, ctx: Context<'_, C>) {
        let mut v = KVisit(None);
        attrs.record(&mut v);
        let k = v.0.unwrap_or(0);
        let (clean, par) = match ctx.span(id) {
            Some(s) => {
                let clean = s.extensions().get::<Tok<L>>().is_none();
                s.extensions_mut().replace(Tok::<L>(k));
                (clean, s.parent().map(|p| tok_of::<L, C>(&p)).unwrap_or(0))
            }
            None => (false, -1),
        };
        let (scope, pw): (Vec<i64>, Vec<i64>) = match ctx.span(id) {
            Some(s) => {
                let ok = scope_items_consistent::<L, C>(s.scope());
                (s.scope().map(|a| tok_of::<L, C>(&a)).collect(), if ok { walk_up::<L, C>(s) } else { vec![-3] })
            }
            None => (vec![-1], vec![-2]),
        };
        self.log.lock().unwrap().push(json!({"vt": vh_common::rec::vt(), "reg": self.reg, "layer": L, "call": "new_span", "tok": k, "id": id.into_u64(), "clean": clean, "par": par, "scope": scope, "pw": pw}));
    }
    fn on_enter(&self, _: &span::Id, ctx: Context<'_, C>) {
        let c = ctx.lookup_current().map(|s| tok_of::<L, C>(&s)).unwrap_or(0);
        self.log.lock().unwrap().push(json!({"vt": vh_common::rec::vt(), "reg": self.reg, "layer": L, "call": "enter", "current": c}));
    }
    fn on_exit(&self, _: &span::Id, ctx: Context<'_, C>) {
        let c = ctx.lookup_current().map(|s| tok_of::<L, C>(&s)).unwrap_or(0);
        self.log.lock().unwrap().push(json!({"vt": vh_common::rec::vt(), "reg": self.reg, "layer": L, "call": "exit", "current": c}));
    }
    fn on_close(&self, id: span::Id, ctx: Context<'_, C>) {
        if L == 2 {
            GATE.park_if_armed();
        }
        let vt = vh_common::rec::vt();
        // a layer may consult the thread's current span while it handles a close (also one that happens inside `exit`)
        let current = ctx.lookup_current().map(|s| tok_of::<L, C>(&s)).unwrap_or(0);
        let mut rec = match ctx.span(&id) {
            Some(s) => {
                let scope: Vec<i64> = s.scope().map(|a| tok_of::<L, C>(&a)).collect();
                let tok = tok_of::<L, C>(&s);
                let ok = scope_items_consistent::<L, C>(s.scope());
                let pw = if ok { walk_up::<L, C>(s) } else { vec![-3] };
                json!({"vt": vt, "reg": self.reg, "layer": L, "call": "close", "tok": tok, "readable": true, "scope": scope, "pw": pw})
            }
            None => json!({"vt": vt, "reg": self.reg, "layer": L, "call": "close", "tok": -1, "id": id.into_u64(), "readable": false, "scope": [], "pw": []}),
        };
        rec["current"] = json!(current);
        let tok = rec["tok"].as_i64().unwrap_or(-1);
        self.log.lock().unwrap().push(rec);
        if L == 2 {
            run_nested_if_armed(tok);
            boom_if_armed(tok);
        }
    }
    fn on_event(&self, e: &Event<'_>, ctx: Context<'_, C>) {
        let chain: Vec<i64> = ctx.event_scope(e).map(|sc| sc.map(|a| tok_of::<L, C>(&a)).collect()).unwrap_or_default();
        let ok = ctx.event_scope(e).map(|sc| scope_items_consistent::<L, C>(sc)).unwrap_or(true);
        let pw: Vec<i64> = if ok { ctx.event_span(e).map(|s| walk_up::<L, C>(s)).unwrap_or_default() } else { vec![-3] };
        let parent = ctx.event_span(e).map(|s| tok_of::<L, C>(&s)).unwrap_or(0);
        let current = ctx.lookup_current().map(|s| tok_of::<L, C>(&s)).unwrap_or(0);
        self.log.lock().unwrap().push(json!({"vt": vh_common::rec::vt(), "reg": self.reg, "layer": L, "call": "event", "parent": parent, "chain": chain, "pw": pw, "current": current}));
        if L == 2 {
            run_evjob_if_armed();
        }
    }
}

enum Cap {
    S(Span),
    T(SpanTrace),
}

/// a reference the program holds: a `Span` value, or a raw reference taken with `Dispatch::clone_span` that is given
/// back with `try_close` / the deprecated `drop_span`
enum H {
    S(Span),
    Raw(span::Id, Dispatch, bool),
}

struct Ctx {
    default: Option<dispatch::DefaultGuard>,
    entered: Vec<(u64, span::Id, Dispatch)>,
}

#[derive(Default)]
struct Shared {
    spans: Mutex<HashMap<u64, Vec<H>>>,
    caps: Mutex<HashMap<u64, Cap>>,
    meta: Mutex<HashMap<u64, (u64, u64)>>, // serial -> (registry, id)
}
impl Shared {
    /// id and collector of the span, through whichever reference the program still holds
    fn target(&self, s: u64) -> Option<(span::Id, Dispatch)> {
        match self.spans.lock().unwrap().get(&s).and_then(|v| v.first()) {
            Some(H::S(sp)) => sp.with_collector(|(id, d)| (id.clone(), d.clone())),
            Some(H::Raw(id, d, _)) => Some((id.clone(), d.clone())),
            None => None,
        }
    }
}

/// `hide`: a DEBUG span, which the per-layer-filtered layer 3 (when present) does not see
fn mk(pk: &str, hide: bool, k: u64, parent: Option<span::Id>) -> Span {
    match (pk, hide) {
        ("ctx", false) => tracing::span!(Level::INFO, "s", k = k),
        ("root", false) => tracing::span!(parent: None, Level::INFO, "s", k = k),
        (_, false) => tracing::span!(parent: parent.unwrap(), Level::INFO, "s", k = k),
        ("ctx", true) => tracing::span!(Level::DEBUG, "s", k = k),
        ("root", true) => tracing::span!(parent: None, Level::DEBUG, "s", k = k),
        (_, true) => tracing::span!(parent: parent.unwrap(), Level::DEBUG, "s", k = k),
    }
}

/// A value whose `Debug` impl fails: the ErrorSubscriber cannot format the fields of a span that carries it and stores nothing
/// for that span - a captured SpanTrace must still list the span (with empty fields).
struct Unprintable;
impl std::fmt::Debug for Unprintable {
    fn fmt(&self, _: &mut std::fmt::Formatter<'_>) -> std::fmt::Result {
        Err(std::fmt::Error)
    }
}
/// a span with such a field; `which` picks one of four span names, by which a SpanTrace entry without fields is recognised
fn mk_bad(pk: &str, which: u64, k: u64, parent: Option<span::Id>) -> Span {
    macro_rules! sp {
        ($n:literal) => {
            match pk {
                "ctx" => tracing::span!(Level::INFO, $n, k = k, bad = ?Unprintable),
                "root" => tracing::span!(parent: None, Level::INFO, $n, k = k, bad = ?Unprintable),
                _ => tracing::span!(parent: parent.unwrap(), Level::INFO, $n, k = k, bad = ?Unprintable),
            }
        };
    }
    match which {
        0 => sp!("bad0"),
        1 => sp!("bad1"),
        2 => sp!("bad2"),
        _ => sp!("bad3"),
    }
}
static BAD_NAMES: Mutex<Vec<(String, i64)>> = Mutex::new(Vec::new());
/// the token of a SpanTrace entry: from its formatted fields, or - for a span whose fields could not be formatted - by its name
fn trace_tok(meta: &tracing_core::Metadata<'_>, fields: &str) -> i64 {
    if let Some(t) = fields.split("k=").nth(1).and_then(|x| x.split(|c: char| !c.is_ascii_digit()).next()).and_then(|x| x.parse().ok()) {
        return t;
    }
    BAD_NAMES.lock().unwrap().iter().find(|(n, _)| n == meta.name()).map(|x| x.1).unwrap_or(-1)
}

/// token of span `id` as stored in registry stack `d` (layer 1's token), 0 if it cannot be looked up
fn lookup_tok(d: &Dispatch, id: &span::Id) -> i64 {
    d.downcast_ref::<Registry>()
        .and_then(|r| r.span(id).map(|s| s.extensions().get::<Tok<1>>().map(|t| t.0 as i64).unwrap_or(-1)))
        .unwrap_or(0)
}

/// `racedrop` behaviours: the last references of a span are released by several real threads at the same moment, many
/// rounds; a counting layer reports how often each span was closed (spec/Registry/RefCountRace).
struct CloseCount(Arc<Mutex<HashMap<u64, u32>>>);
impl<C: tracing_core::Collect + for<'a> LookupSpan<'a>> Subscribe<C> for CloseCount {
    fn on_close(&self, id: span::Id, _: Context<'_, C>) {
        *self.0.lock().unwrap().entry(id.into_u64()).or_insert(0) += 1;
    }
}
fn racedrop(beh: &Value) {
    let rounds = beh["rounds"].as_u64().unwrap();
    let k = beh["threads"].as_u64().unwrap() as usize;
    let counts = Arc::new(Mutex::new(HashMap::new()));
    let d = Dispatch::new(Registry::default().with(CloseCount(counts.clone())));
    let (mut closes, mut dup, mut missing, mut panics) = (0u64, 0u64, 0u64, 0u64);
    let r = vh_common::catch(|| {
        dispatch::with_default(&d, || {
            let mut batch = 0;
            while batch < rounds {
                // k holder threads; each round hands every holder one clone, a barrier releases them together
                let n = (rounds - batch).min(2000);
                let spans: Vec<Span> = (0..n).map(|i| tracing::span!(Level::INFO, "race", k = i)).collect();
                let ids: Vec<u64> = spans.iter().map(|s| s.id().unwrap().into_u64()).collect();
                let mut per: Vec<Vec<Span>> = (0..k).map(|_| Vec::with_capacity(n as usize)).collect();
                for s in &spans {
                    for h in per.iter_mut().skip(1) {
                        h.push(s.clone());
                    }
                }
                per[0] = spans;
                // a spin barrier per item: the holders leave it within nanoseconds of each other
                let arrived: Arc<Vec<std::sync::atomic::AtomicUsize>> = Arc::new((0..n).map(|_| std::sync::atomic::AtomicUsize::new(0)).collect());
                let hs: Vec<_> = per
                    .into_iter()
                    .map(|mine| {
                        let a = arrived.clone();
                        let d = d.clone();
                        std::thread::spawn(move || {
                            let _g = dispatch::set_default(&d);
                            for (i, s) in mine.into_iter().enumerate() {
                                a[i].fetch_add(1, std::sync::atomic::Ordering::SeqCst);
                                while a[i].load(std::sync::atomic::Ordering::SeqCst) < k {
                                    std::hint::spin_loop();
                                }
                                drop(s);
                            }
                        })
                    })
                    .collect();
                for h in hs {
                    if h.join().is_err() {
                        panics += 1;
                    }
                }
                let c = counts.lock().unwrap();
                for id in ids {
                    match c.get(&id).copied().unwrap_or(0) {
                        0 => missing += 1,
                        1 => closes += 1,
                        x => {
                            closes += 1;
                            dup += (x - 1) as u64;
                        }
                    }
                }
                drop(c);
                counts.lock().unwrap().clear();
                batch += n;
            }
        })
    });
    let mut o = json!({"ev": "racedrop", "rounds": rounds, "threads": k, "closes": closes, "dup": dup, "missing": missing, "panics": panics});
    if let Err(e) = r {
        o["panic"] = json!(e);
    }
    runner::child_emit(o);
}

fn build(r: u64, log: &Log, wrap: &str, plf: bool) -> Dispatch {
    macro_rules! wrapd {
        ($c:expr) => {
            match wrap {
                "box" => Dispatch::new(Box::new($c) as Box<dyn tracing_core::Collect + Send + Sync>),
                "arc" => Dispatch::new(Arc::new($c)),
                _ => Dispatch::new($c),
            }
        };
    }
    // layer 2 is the outermost layer: what only the outermost Layered frame does (or forgets) is visible to it
    let base = Registry::default().with(RecLayer::<1> { reg: r, log: log.clone() }).with(ErrorSubscriber::default());
    if plf {
        wrapd!(base.with(RecLayer::<3> { reg: r, log: log.clone() }.with_filter(LevelFilter::INFO)).with(RecLayer::<2> { reg: r, log: log.clone() }))
    } else {
        wrapd!(base.with(RecLayer::<2> { reg: r, log: log.clone() }))
    }
}

/// `poison` behaviours: user code panics (caught) inside a layer callback while it holds a span's ExtensionsMut; the span
/// is exited and closed, and later spans reuse its slot - none of them may see anything of it (stale data, a poisoned lock).
struct Marker;
struct PoisonLayer {
    arm: Arc<std::sync::atomic::AtomicBool>,
    stale: Arc<std::sync::atomic::AtomicU64>,
}
impl<C: tracing_core::Collect + for<'a> LookupSpan<'a>> Subscribe<C> for PoisonLayer {
    fn on_new_span(&self, _: &span::Attributes<'_>, id: &span::Id, ctx: Context<'_, C>) {
        let s = ctx.span(id).expect("new span not found");
        let mut ext = s.extensions_mut();
        if ext.get_mut::<Marker>().is_some() {
            self.stale.fetch_add(1, std::sync::atomic::Ordering::SeqCst);
        }
        ext.replace(Marker);
    }
    fn on_enter(&self, id: &span::Id, ctx: Context<'_, C>) {
        if self.arm.swap(false, std::sync::atomic::Ordering::SeqCst) {
            let s = ctx.span(id).expect("entered span not found");
            let _held = s.extensions_mut();
            panic!("user code panics while it holds the span's extensions");
        }
    }
}
fn poison(beh: &Value) {
    let rounds = beh["rounds"].as_u64().unwrap();
    let reuse = beh["reuse"].as_u64().unwrap_or(3);
    let arm = Arc::new(std::sync::atomic::AtomicBool::new(false));
    let stale = Arc::new(std::sync::atomic::AtomicU64::new(0));
    let d = Dispatch::new(Registry::default().with(PoisonLayer { arm: arm.clone(), stale: stale.clone() }));
    let (mut poisoned, mut panics) = (0u64, 0u64);
    dispatch::with_default(&d, || {
        for r in 0..rounds {
            let a = tracing::span!(Level::INFO, "victim", k = r);
            let id = a.id().expect("victim disabled");
            arm.store(true, std::sync::atomic::Ordering::SeqCst);
            if vh_common::catch(|| d.enter(&id)).is_err() {
                poisoned += 1;
            }
            let _ = vh_common::catch(|| d.exit(&id));
            let _ = vh_common::catch(move || drop(a));
            // unrelated spans created afterwards land in the freed slot
            for j in 0..reuse {
                if vh_common::catch(|| {
                    let b = tracing::span!(Level::INFO, "later", k = j);
                    let _e = b.enter();
                })
                .is_err()
                {
                    panics += 1;
                }
            }
        }
    });
    runner::child_emit(json!({"ev": "poison", "rounds": rounds, "poisoned": poisoned, "panics": panics, "stale": stale.load(std::sync::atomic::Ordering::SeqCst)}));
}

fn child() {
    vh_common::quiet_panics();
    let beh = runner::child_input();
    if beh["mode"] == "racedrop" {
        racedrop(&beh);
        return;
    }
    if beh["mode"] == "poison" {
        poison(&beh);
        return;
    }
    let log = new_log();
    let wrap = beh["wrap"].as_str().unwrap_or("none").to_string();
    let plf = beh["plf"].as_bool().unwrap_or(false);
    let mut regs: HashMap<u64, Dispatch> = HashMap::new();
    for r in 1..=2u64 {
        regs.insert(r, build(r, &log, &wrap, plf));
    }
    let sh = Arc::new(Shared::default());
    let mut ws: Workers<Ctx> = Workers::new(|| Ctx { default: None, entered: vec![] });
    let mut serial = 0u64;
    let mut curd: HashMap<u64, u64> = HashMap::new();
    let mut idmap: HashMap<u64, u64> = HashMap::new();
    // a `drop` parked inside layer 2's on_close: (thread, its step record, result channel, layer calls of that thread so far)
    let mut held: Option<(u64, Value, std::sync::mpsc::Receiver<Result<Value, String>>, Vec<Value>)> = None;
    let mut queue: std::collections::VecDeque<Value> = beh["steps"].as_array().unwrap().iter().cloned().collect();
    while let Some(step) = queue.pop_front() {
        let step = &step;
        let mut o = step.clone();
        o["ev"] = json!("op");
        o["plf"] = json!(plf);
        let mut t = step["t"].as_u64().unwrap();
        let g = |k: &str| step[k].as_u64().unwrap_or(0);
        let mut op = step["op"].as_str().unwrap().to_string();
        let (s, k, p) = (g("s"), g("k"), g("p"));
        let hide = step["hide"].as_bool().unwrap_or(false);
        // layer calls made since the last step: those of a parked thread belong to its pending operation
        let mut early = drain(&log);
        if let Some(h) = held.as_mut() {
            let (mine, other): (Vec<Value>, Vec<Value>) = early.into_iter().partition(|c| c["vt"] == h.0);
            h.3.extend(mine);
            early = other;
        }
        drop(early);
        let sh2 = sh.clone();
        let mut pre_calls: Vec<Value> = vec![];
        let res: Result<Value, String> = match op.as_str() {
            "switch" => {
                let d = regs.get(&g("r")).cloned();
                curd.insert(t, g("r"));
                ws.run(t, move |c| {
                    c.default = None;
                    c.default = d.as_ref().map(dispatch::set_default);
                    json!(0)
                })
            }
            "new" => {
                serial += 1;
                let (pk, ser, reg) = (step["pk"].as_str().unwrap().to_string(), serial, *curd.get(&t).unwrap_or(&0));
                // `bad`: one of its fields cannot be formatted (at most four such spans per history, each under its own name)
                let bad = step["bad"].as_u64();
                ws.run(t, move |_| {
                    let par = if pk == "of" { sh2.target(p).map(|x| x.0) } else { None };
                    let sp = match bad {
                        Some(which) => {
                            BAD_NAMES.lock().unwrap().push((format!("bad{}", which.min(3)), ser as i64));
                            mk_bad(&pk, which, ser, par)
                        }
                        None => mk(&pk, hide, ser, par),
                    };
                    let id = sp.id().map(|i| i.into_u64()).unwrap_or(0);
                    sh2.meta.lock().unwrap().insert(ser, (reg, id));
                    sh2.spans.lock().unwrap().entry(ser).or_default().push(H::S(sp));
                    json!(id)
                })
            }
            "clone" => {
                let raw = step["raw"].as_str().map(|x| x.to_string());
                ws.run(t, move |_| {
                    let mut m = sh2.spans.lock().unwrap();
                    let v = m.get_mut(&s).expect("clone: no handle");
                    let h = match (v.first().expect("clone: no handle"), raw.as_deref()) {
                        (H::S(c), None) => H::S(c.clone()),
                        // a raw reference: clone_span through the span's collector, given back later without a `Span`
                        (H::S(c), Some(how)) => c.with_collector(|(id, d)| H::Raw(d.clone_span(id), d.clone(), how == "drop_span")).expect("clone: disabled span"),
                        (H::Raw(id, d, _), how) => H::Raw(d.clone_span(id), d.clone(), how == Some("drop_span")),
                    };
                    v.push(h);
                    json!(0)
                })
            }
            "drop" => {
                let unwind = step["unwind"].as_bool().unwrap_or(false);
                let front = step["front"].as_bool().unwrap_or(false);
                let boom = step["boom"].as_bool().unwrap_or(false);
                let inside_event = step["inside"].as_str() == Some("event");
                let job = move |_: &mut Ctx| {
                    // which of the references goes does not matter to the history; `front` gives up the oldest one, so
                    // that a raw reference can be the last
                    let h = sh2.spans.lock().unwrap().get_mut(&s).and_then(|v| if front && !v.is_empty() { Some(v.remove(0)) } else { v.pop() }).expect("drop: no handle");
                    match h {
                        // the handle is dropped by a panic unwinding through its owner (the panic is caught)
                        H::S(sp) if unwind => {
                            let r = std::panic::catch_unwind(std::panic::AssertUnwindSafe(move || {
                                let _owner = sp;
                                panic!("unwinding through the owner of a span handle");
                            }));
                            assert!(r.is_err());
                        }
                        // the handle is given up by user code inside a layer's on_event (an event emitted by this thread)
                        H::S(sp) if inside_event => {
                            let nested: NestedJob = Box::new(move || drop(sp));
                            *EVJOB.lock().unwrap() = Some((vh_common::rec::vt(), nested));
                            tracing::event!(Level::INFO, "carrier");
                            // (a collector that filtered the carrier event out never ran the job: the handle goes now)
                            drop(EVJOB.lock().unwrap().take());
                        }
                        // the outermost layer's on_close panics for this span, if this drop closes it; the owner catches the panic
                        H::S(sp) if boom => {
                            *BOOM.lock().unwrap() = Some((vh_common::rec::vt(), s as i64));
                            let _ = std::panic::catch_unwind(std::panic::AssertUnwindSafe(move || drop(sp)));
                            *BOOM.lock().unwrap() = None;
                        }
                        H::S(sp) => drop(sp),
                        H::Raw(id, d, true) => {
                            #[allow(deprecated)]
                            d.drop_span(id)
                        }
                        H::Raw(id, d, false) => {
                            d.try_close(id);
                        }
                    }
                    json!(0)
                };
                // `then`: user code inside layer 2's on_close for this span drops the last handle of span `then`
                let then = step["then"].as_u64();
                if let Some(y) = then {
                    let sh3 = sh.clone();
                    let nested: NestedJob = Box::new(move || {
                        let h = sh3.spans.lock().unwrap().get_mut(&y).and_then(|v| v.pop());
                        drop(h);
                    });
                    *NESTED.lock().unwrap() = Some((t, s as i64, nested));
                }
                if step["hold"].as_bool().unwrap_or(false) && held.is_none() && then.is_none() {
                    GATE.arm(t);
                    let rx = ws.spawn(t, job);
                    loop {
                        if let Ok(r) = rx.try_recv() {
                            GATE.disarm();
                            break r; // nothing closed: the operation is complete
                        }
                        if GATE.parked() {
                            held = Some((t, o.clone(), rx, vec![]));
                            break Ok(json!("parked"));
                        }
                        std::thread::yield_now();
                    }
                } else {
                    ws.run(t, job)
                }
            }
            "release" => match held.take() {
                // the parked drop runs to its end; it is reported here, where it takes effect
                Some((ht, ho, rx, calls)) => {
                    GATE.release();
                    let r = rx.recv().unwrap_or_else(|_| Err("worker died".into()));
                    t = ht;
                    o = ho;
                    o["held"] = json!(true);
                    op = "drop".to_string();
                    pre_calls = calls;
                    r
                }
                None => continue,
            },
            "enter" => ws.run(t, move |c| {
                let (id, d) = sh2.target(s).expect("enter: no handle");
                d.enter(&id);
                c.entered.push((s, id, d));
                json!(0)
            }),
            "exit" => {
                let unwind = step["unwind"].as_bool().unwrap_or(false);
                ws.run(t, move |c| {
                    let i = c.entered.iter().rposition(|e| e.0 == s).expect("exit: not entered");
                    let (_, id, d) = c.entered.remove(i);
                    if unwind {
                        // the span is exited by a guard dropped while a panic unwinds (the panic is caught)
                        struct ExitOnDrop(Dispatch, span::Id);
                        impl Drop for ExitOnDrop {
                            fn drop(&mut self) {
                                self.0.exit(&self.1);
                            }
                        }
                        let r = std::panic::catch_unwind(std::panic::AssertUnwindSafe(move || {
                            let _g = ExitOnDrop(d, id);
                            panic!("unwinding through an entered span");
                        }));
                        assert!(r.is_err());
                    } else {
                        d.exit(&id);
                    }
                    json!(0)
                })
            }
            "capture" => {
                let kind = step["kind"].as_str().unwrap_or("span").to_string();
                ws.run(t, move |_| {
                    let (cap, tok) = if kind == "trace" {
                        let st = SpanTrace::capture();
                        // SpanTrace hides its span; read the captured span's token through with_spans (first = leaf)
                        let mut first: Option<i64> = None;
                        st.with_spans(|meta, fields| {
                            if first.is_none() {
                                first = Some(trace_tok(meta, fields));
                            }
                            false
                        });
                        (Cap::T(st), first.unwrap_or(0))
                    } else {
                        let sp = Span::current();
                        let tok = sp.with_collector(|(id, d)| lookup_tok(d, id)).unwrap_or(0);
                        (Cap::S(sp), tok)
                    };
                    sh2.caps.lock().unwrap().insert(k, cap);
                    json!(tok)
                })
            }
            "walk" => ws.run(t, move |_| {
                let m = sh2.caps.lock().unwrap();
                let chain: Vec<i64> = match m.get(&k).expect("walk: no capture") {
                    Cap::T(st) => {
                        let mut v = vec![];
                        st.with_spans(|meta, fields| {
                            v.push(trace_tok(meta, fields));
                            true
                        });
                        v
                    }
                    Cap::S(sp) => sp
                        .with_collector(|(id, d)| {
                            d.downcast_ref::<Registry>()
                                .and_then(|r| r.span(id).map(|s| s.scope().map(|a| a.extensions().get::<Tok<1>>().map(|t| t.0 as i64).unwrap_or(-1)).collect::<Vec<_>>()))
                                .unwrap_or_default()
                        })
                        .unwrap_or_default(),
                };
                json!(chain)
            }),
            "tdrop" => ws.run(t, move |_| {
                let c = sh2.caps.lock().unwrap().remove(&k);
                drop(c);
                json!(0)
            }),
            "event" => {
                let pk = step["pk"].as_str().unwrap().to_string();
                ws.run(t, move |_| {
                    match pk.as_str() {
                        "ctx" => tracing::info!("e"),
                        "root" => tracing::info!(parent: None, "e"),
                        _ => {
                            let par = sh2.target(p).expect("event: no parent handle").0;
                            tracing::info!(parent: par, "e");
                        }
                    }
                    json!(0)
                })
            }
            o => panic!("op {o}"),
        };
        if held.is_some() && res.as_ref().ok() == Some(&json!("parked")) {
            continue; // reported at its `release`
        }
        if op == "drop" {
            if let Some(y) = step["then"].as_u64() {
                if NESTED.lock().unwrap().take().is_some() {
                    // the span did not close, so the user code did not run: the other handle is given up right afterwards
                    queue.push_front(json!({"op": "drop", "t": t, "s": y}));
                } else {
                    op = "drop2".to_string();
                    o["op"] = json!("drop2");
                    o["y"] = json!(y);
                }
            }
        }
        let mut calls = pre_calls;
        let fresh = drain(&log);
        match held.as_mut() {
            Some(h) => {
                let (mine, other): (Vec<Value>, Vec<Value>) = fresh.into_iter().partition(|c| c["vt"] == h.0);
                h.3.extend(mine);
                calls.extend(other);
            }
            None => calls.extend(fresh),
        }
        // projection
        let per_layer = |l: u64, what: &str| -> Vec<Value> { calls.iter().filter(|c| c["layer"] == l && c["call"] == what).cloned().collect() };
        let (c1, c2) = (per_layer(1, "close"), per_layer(2, "close"));
        let toks = |v: &Vec<Value>| -> Vec<i64> { v.iter().map(|c| c["tok"].as_i64().unwrap()).collect() };
        let agree = toks(&c1) == toks(&c2);
        o["closes"] = json!(if agree { toks(&c1) } else { vec![-1] });
        o["cscopes"] = json!(c2.iter().map(|c| c["scope"].clone()).collect::<Vec<_>>());
        o["rd"] = json!(
            agree
                && c1.iter().chain(c2.iter()).all(|c| c["readable"] == true && c["scope"] == c["pw"])
                && c1.iter().zip(c2.iter()).all(|(a, b)| a["scope"] == b["scope"])
        );
        // the current span the (unfiltered) layers saw while handling the closes of an exit / a plain drop on the executing thread
        o["clcur"] = json!(if (op == "exit" || op == "drop") && step.get("then").is_none() {
            c1.iter().chain(c2.iter()).filter(|c| c["vt"] == json!(t)).map(|c| json!({"reg": c["reg"], "cur": c["current"]})).collect::<Vec<_>>()
        } else {
            vec![]
        });
        let (n1, n2) = (per_layer(1, "new_span"), per_layer(2, "new_span"));
        if op == "new" {
            let ok = n1.len() == 1 && n2.len() == 1 && n1[0]["par"] == n2[0]["par"] && n1[0]["tok"] == n2[0]["tok"] && n1.iter().chain(n2.iter()).all(|c| c["scope"] == c["pw"]);
            o["par"] = if ok { n1[0]["par"].clone() } else { json!(-1) };
            o["clean"] = json!(ok && n1[0]["clean"] == true && n2[0]["clean"] == true);
            // registry ids are 64-bit (they pack a shard number): log a dense index of the raw id, which
            // preserves (in)equality - all the specification needs
            let raw = if ok { n1[0]["id"].as_u64().unwrap_or(0) } else { 0 };
            let next = idmap.len() as u64 + 1;
            let dense = if raw == 0 { 0 } else { *idmap.entry(raw).or_insert(next) };
            o["id"] = json!(dense);
            o["serial"] = json!(serial);
            o["hide"] = json!(hide);
        }
        let (e1, e2) = (per_layer(1, "event"), per_layer(2, "event"));
        if op == "event" {
            let ok = e1.len() == 1 && e2.len() == 1 && e1[0]["chain"] == e2[0]["chain"] && e1[0]["parent"] == e2[0]["parent"] && e1.iter().chain(e2.iter()).all(|c| c["chain"] == c["pw"]);
            o["chain"] = if ok { e1[0]["chain"].clone() } else { json!([-1]) };
            o["eparent"] = if ok { e1[0]["parent"].clone() } else { json!(-1) };
        }
        // the current span as the layers see it inside on_enter / on_exit (-1: they disagree, or were not called once each)
        if op == "enter" || op == "exit" {
            let (x1, x2) = (per_layer(1, &op), per_layer(2, &op));
            o["cbcur"] = if x1.len() == 1 && x2.len() == 1 && x1[0]["current"] == x2[0]["current"] { x1[0]["current"].clone() } else { json!(-1) };
        }
        // what the per-layer-filtered layer 3 saw (it is not shown DEBUG spans): its own parent / scope / close views
        if plf {
            let n3 = per_layer(3, "new_span");
            let c3 = per_layer(3, "close");
            let e3 = per_layer(3, "event");
            let consistent = n3.iter().chain(c3.iter()).all(|c| c["scope"] == c["pw"]) && e3.iter().all(|c| c["chain"] == c["pw"]);
            o["v3"] = json!({
                "ok": consistent && n3.len() <= 1 && e3.len() <= 1,
                "news": n3.len(),
                "par": n3.first().map(|c| c["par"].clone()).unwrap_or(json!(-2)),
                "scope": n3.first().map(|c| c["scope"].clone()).unwrap_or(json!([])),
                "closes": toks(&c3),
                "cscopes": c3.iter().map(|c| c["scope"].clone()).collect::<Vec<_>>(),
                "events": e3.len(),
                "chain": e3.first().map(|c| c["chain"].clone()).unwrap_or(json!([])),
            });
        }
        match &res {
            Ok(v) => {
                if op == "capture" {
                    o["got"] = v.clone();
                }
                if op == "walk" {
                    o["chain"] = v.clone();
                }
            }
            Err(e) => {
                o["panic"] = json!(e);
            }
        }
        // after the operation: which spans can still be looked up with their own data, and the current span
        let meta = sh.meta.lock().unwrap().clone();
        let mut live: Vec<u64> = meta
            .iter()
            .filter(|(ser, (reg, id))| *id != 0 && regs.get(reg).map(|d| lookup_tok(d, &span::Id::from_u64(*id)) == **ser as i64).unwrap_or(false))
            .map(|(ser, _)| *ser)
            .collect();
        live.sort();
        o["live"] = json!(live);
        let cur = if held.as_ref().map(|h| h.0) == Some(t) {
            -1 // cannot happen: generators never schedule a parked thread
        } else {
            ws.run(t, |_| dispatch::get_default(|d| d.current_span().id().map(|id| lookup_tok(d, id)).unwrap_or(0))).unwrap_or(-1)
        };
        o["cur"] = json!(cur);
        runner::child_emit(o);
    }
    if held.is_some() {
        GATE.release();
    }
    std::process::exit(0); // no quiescence obligations here; skip destructors of leaked state
}

fn main() {
    if runner::is_child() {
        child();
    } else {
        runner::run_all(|i, b| json!({"ev": "reset", "beh": i, "src": b["src"]}));
    }
}
