//! C05 / C06 driver (spec/Registry): histories of span creation, handle clone/drop, enter/exit in
//! any order on several threads, Span::current / SpanTrace captures, events, default switches,
//! against one or two real `Registry` stacks, each under two recording layers + ErrorSubscriber.
use serde_json::{json, Value};
use std::collections::HashMap;
use std::sync::{Arc, Mutex};
use tracing::{Level, Span};
use tracing_core::{dispatch, span, Dispatch, Event};
use tracing_error::{ErrorSubscriber, SpanTrace};
use tracing_subscriber::registry::{LookupSpan, Registry};
use tracing_subscriber::subscribe::{CollectExt, Context, Subscribe};
use vh_common::rec::{drain, new_log, Log};
use vh_common::runner;
use vh_common::workers::Workers;

struct Tok<const L: u8>(u64);

struct KVisit(Option<u64>);
impl tracing_core::field::Visit for KVisit {
    fn record_u64(&mut self, f: &tracing_core::Field, v: u64) {
        if f.name() == "k" {
            self.0 = Some(v);
        }
    }
    fn record_debug(&mut self, _: &tracing_core::Field, _: &dyn std::fmt::Debug) {}
}

struct RecLayer<const L: u8> {
    reg: u64,
    log: Log,
}

fn tok_of<'a, const L: u8, C: LookupSpan<'a>>(s: &tracing_subscriber::registry::SpanRef<'a, C>) -> i64 {
    s.extensions().get::<Tok<L>>().map(|t| t.0 as i64).unwrap_or(-1)
}

impl<const L: u8, C> Subscribe<C> for RecLayer<L>
where
    C: tracing_core::Collect + for<'a> LookupSpan<'a>,
{
    fn on_new_span(&self, attrs: &span::Attributes<'_>, id: &span::Id, ctx: Context<'_, C>) {
        let mut v = KVisit(None);
        attrs.record(&mut v);
        let k = v.0.unwrap_or(0);
        let (clean, par) = match ctx.span(id) {
            Some(s) => {
                let clean = s.extensions().get::<Tok<L>>().is_none();
                s.extensions_mut().replace(Tok::<L>(k));
                (clean, s.parent().map(|p| tok_of::<L, C>(&p)).unwrap_or(0))
            }
            None => (false, -1),
        };
        self.log.lock().unwrap().push(json!({"reg": self.reg, "layer": L, "call": "new_span", "tok": k, "id": id.into_u64(), "clean": clean, "par": par}));
    }
    fn on_close(&self, id: span::Id, ctx: Context<'_, C>) {
        let rec = match ctx.span(&id) {
            Some(s) => {
                let scope: Vec<i64> = s.scope().map(|a| tok_of::<L, C>(&a)).collect();
                json!({"reg": self.reg, "layer": L, "call": "close", "tok": tok_of::<L, C>(&s), "readable": true, "scope": scope})
            }
            None => json!({"reg": self.reg, "layer": L, "call": "close", "tok": -1, "id": id.into_u64(), "readable": false, "scope": []}),
        };
        self.log.lock().unwrap().push(rec);
    }
    fn on_event(&self, e: &Event<'_>, ctx: Context<'_, C>) {
        let chain: Vec<i64> = ctx.event_scope(e).map(|sc| sc.map(|a| tok_of::<L, C>(&a)).collect()).unwrap_or_default();
        let parent = ctx.event_span(e).map(|s| tok_of::<L, C>(&s)).unwrap_or(0);
        let current = ctx.lookup_current().map(|s| tok_of::<L, C>(&s)).unwrap_or(0);
        self.log.lock().unwrap().push(json!({"reg": self.reg, "layer": L, "call": "event", "parent": parent, "chain": chain, "current": current}));
    }
}

enum Cap {
    S(Span),
    T(SpanTrace),
}

struct Ctx {
    default: Option<dispatch::DefaultGuard>,
    entered: Vec<(u64, span::Id, Dispatch)>,
}

#[derive(Default)]
struct Shared {
    spans: Mutex<HashMap<u64, Vec<Span>>>,
    caps: Mutex<HashMap<u64, Cap>>,
    meta: Mutex<HashMap<u64, (u64, u64)>>, // serial -> (registry, id)
}

fn mk(pk: &str, k: u64, parent: Option<&Span>) -> Span {
    match pk {
        "ctx" => tracing::span!(Level::INFO, "s", k = k),
        "root" => tracing::span!(parent: None, Level::INFO, "s", k = k),
        _ => tracing::span!(parent: parent.unwrap(), Level::INFO, "s", k = k),
    }
}

/// token of span `id` as stored in registry stack `d` (layer 1's token), 0 if it cannot be looked up
fn lookup_tok(d: &Dispatch, id: &span::Id) -> i64 {
    d.downcast_ref::<Registry>()
        .and_then(|r| r.span(id).map(|s| s.extensions().get::<Tok<1>>().map(|t| t.0 as i64).unwrap_or(-1)))
        .unwrap_or(0)
}

/// `racedrop` behaviours: the last references of a span are released by several real threads at the same moment, many
/// rounds; a counting layer reports how often each span was closed (spec/Registry/RefCountRace).
struct CloseCount(Arc<Mutex<HashMap<u64, u32>>>);
impl<C: tracing_core::Collect + for<'a> LookupSpan<'a>> Subscribe<C> for CloseCount {
    fn on_close(&self, id: span::Id, _: Context<'_, C>) {
        *self.0.lock().unwrap().entry(id.into_u64()).or_insert(0) += 1;
    }
}
fn racedrop(beh: &Value) {
    let rounds = beh["rounds"].as_u64().unwrap();
    let k = beh["threads"].as_u64().unwrap() as usize;
    let counts = Arc::new(Mutex::new(HashMap::new()));
    let d = Dispatch::new(Registry::default().with(CloseCount(counts.clone())));
    let (mut closes, mut dup, mut missing, mut panics) = (0u64, 0u64, 0u64, 0u64);
    let r = vh_common::catch(|| {
        dispatch::with_default(&d, || {
            let mut batch = 0;
            while batch < rounds {
                // k holder threads; each round hands every holder one clone, a barrier releases them together
                let n = (rounds - batch).min(2000);
                let spans: Vec<Span> = (0..n).map(|i| tracing::span!(Level::INFO, "race", k = i)).collect();
                let ids: Vec<u64> = spans.iter().map(|s| s.id().unwrap().into_u64()).collect();
                let mut per: Vec<Vec<Span>> = (0..k).map(|_| Vec::with_capacity(n as usize)).collect();
                for s in &spans {
                    for h in per.iter_mut().skip(1) {
                        h.push(s.clone());
                    }
                }
                per[0] = spans;
                // a spin barrier per item: the holders leave it within nanoseconds of each other
                let arrived: Arc<Vec<std::sync::atomic::AtomicUsize>> = Arc::new((0..n).map(|_| std::sync::atomic::AtomicUsize::new(0)).collect());
                let hs: Vec<_> = per
                    .into_iter()
                    .map(|mine| {
                        let a = arrived.clone();
                        let d = d.clone();
                        std::thread::spawn(move || {
                            let _g = dispatch::set_default(&d);
                            for (i, s) in mine.into_iter().enumerate() {
                                a[i].fetch_add(1, std::sync::atomic::Ordering::SeqCst);
                                while a[i].load(std::sync::atomic::Ordering::SeqCst) < k {
                                    std::hint::spin_loop();
                                }
                                drop(s);
                            }
                        })
                    })
                    .collect();
                for h in hs {
                    if h.join().is_err() {
                        panics += 1;
                    }
                }
                let c = counts.lock().unwrap();
                for id in ids {
                    match c.get(&id).copied().unwrap_or(0) {
                        0 => missing += 1,
                        1 => closes += 1,
                        x => {
                            closes += 1;
                            dup += (x - 1) as u64;
                        }
                    }
                }
                drop(c);
                counts.lock().unwrap().clear();
                batch += n;
            }
        })
    });
    let mut o = json!({"ev": "racedrop", "rounds": rounds, "threads": k, "closes": closes, "dup": dup, "missing": missing, "panics": panics});
    if let Err(e) = r {
        o["panic"] = json!(e);
    }
    runner::child_emit(o);
}

fn child() {
    vh_common::quiet_panics();
    let beh = runner::child_input();
    if beh["mode"] == "racedrop" {
        racedrop(&beh);
        return;
    }
    let log = new_log();
    let mut regs: HashMap<u64, Dispatch> = HashMap::new();
    for r in 1..=2u64 {
        let c = Registry::default()
            .with(RecLayer::<1> { reg: r, log: log.clone() })
            .with(RecLayer::<2> { reg: r, log: log.clone() })
            .with(ErrorSubscriber::default());
        regs.insert(r, Dispatch::new(c));
    }
    let sh = Arc::new(Shared::default());
    let mut ws: Workers<Ctx> = Workers::new(|| Ctx { default: None, entered: vec![] });
    let mut serial = 0u64;
    let mut curd: HashMap<u64, u64> = HashMap::new();
    let mut idmap: HashMap<u64, u64> = HashMap::new();
    for step in beh["steps"].as_array().unwrap() {
        let mut o = step.clone();
        o["ev"] = json!("op");
        let t = step["t"].as_u64().unwrap();
        let g = |k: &str| step[k].as_u64().unwrap_or(0);
        let op = step["op"].as_str().unwrap().to_string();
        let (s, k, p) = (g("s"), g("k"), g("p"));
        drain(&log);
        let sh2 = sh.clone();
        let res: Result<Value, String> = match op.as_str() {
            "switch" => {
                let d = regs.get(&g("r")).cloned();
                curd.insert(t, g("r"));
                ws.run(t, move |c| {
                    c.default = None;
                    c.default = d.as_ref().map(dispatch::set_default);
                    json!(0)
                })
            }
            "new" => {
                serial += 1;
                let (pk, ser, reg) = (step["pk"].as_str().unwrap().to_string(), serial, *curd.get(&t).unwrap_or(&0));
                ws.run(t, move |_| {
                    let sp = if pk == "of" {
                        let m = sh2.spans.lock().unwrap();
                        let par = m.get(&p).and_then(|v| v.first()).cloned();
                        drop(m);
                        let r = mk(&pk, ser, par.as_ref());
                        drop(par);
                        r
                    } else {
                        mk(&pk, ser, None)
                    };
                    let id = sp.id().map(|i| i.into_u64()).unwrap_or(0);
                    sh2.meta.lock().unwrap().insert(ser, (reg, id));
                    sh2.spans.lock().unwrap().entry(ser).or_default().push(sp);
                    json!(id)
                })
            }
            "clone" => ws.run(t, move |_| {
                let mut m = sh2.spans.lock().unwrap();
                let c = m.get(&s).and_then(|v| v.first()).cloned().expect("clone: no handle");
                m.get_mut(&s).unwrap().push(c);
                json!(0)
            }),
            "drop" => ws.run(t, move |_| {
                let h = sh2.spans.lock().unwrap().get_mut(&s).and_then(|v| v.pop()).expect("drop: no handle");
                drop(h);
                json!(0)
            }),
            "enter" => ws.run(t, move |c| {
                let h = sh2.spans.lock().unwrap().get(&s).and_then(|v| v.first()).cloned().expect("enter: no handle");
                let saved = h.with_collector(|(id, d)| {
                    d.enter(id);
                    (id.clone(), d.clone())
                });
                // the temporary clone must not outlive the operation: dropping it is a clone/try_close pair
                drop(h);
                if let Some((id, d)) = saved {
                    c.entered.push((s, id, d));
                }
                json!(0)
            }),
            "exit" => ws.run(t, move |c| {
                let i = c.entered.iter().rposition(|e| e.0 == s).expect("exit: not entered");
                let (_, id, d) = c.entered.remove(i);
                d.exit(&id);
                json!(0)
            }),
            "capture" => {
                let kind = step["kind"].as_str().unwrap_or("span").to_string();
                ws.run(t, move |_| {
                    let (cap, tok) = if kind == "trace" {
                        let st = SpanTrace::capture();
                        // SpanTrace hides its span; read the captured span's token through with_spans (first = leaf)
                        let mut first: Option<i64> = None;
                        st.with_spans(|_, fields| {
                            if first.is_none() {
                                first = fields.split("k=").nth(1).and_then(|x| x.split(|c: char| !c.is_ascii_digit()).next()).and_then(|x| x.parse().ok());
                            }
                            false
                        });
                        (Cap::T(st), first.unwrap_or(0))
                    } else {
                        let sp = Span::current();
                        let tok = sp.with_collector(|(id, d)| lookup_tok(d, id)).unwrap_or(0);
                        (Cap::S(sp), tok)
                    };
                    sh2.caps.lock().unwrap().insert(k, cap);
                    json!(tok)
                })
            }
            "walk" => ws.run(t, move |_| {
                let m = sh2.caps.lock().unwrap();
                let chain: Vec<i64> = match m.get(&k).expect("walk: no capture") {
                    Cap::T(st) => {
                        let mut v = vec![];
                        st.with_spans(|_, fields| {
                            v.push(fields.split("k=").nth(1).and_then(|x| x.split(|c: char| !c.is_ascii_digit()).next()).and_then(|x| x.parse().ok()).unwrap_or(-1));
                            true
                        });
                        v
                    }
                    Cap::S(sp) => sp
                        .with_collector(|(id, d)| {
                            d.downcast_ref::<Registry>()
                                .and_then(|r| r.span(id).map(|s| s.scope().map(|a| a.extensions().get::<Tok<1>>().map(|t| t.0 as i64).unwrap_or(-1)).collect::<Vec<_>>()))
                                .unwrap_or_default()
                        })
                        .unwrap_or_default(),
                };
                json!(chain)
            }),
            "tdrop" => ws.run(t, move |_| {
                let c = sh2.caps.lock().unwrap().remove(&k);
                drop(c);
                json!(0)
            }),
            "event" => {
                let pk = step["pk"].as_str().unwrap().to_string();
                ws.run(t, move |_| {
                    match pk.as_str() {
                        "ctx" => tracing::info!("e"),
                        "root" => tracing::info!(parent: None, "e"),
                        _ => {
                            let par = sh2.spans.lock().unwrap().get(&p).and_then(|v| v.first()).cloned().expect("event: no parent handle");
                            tracing::info!(parent: &par, "e");
                        }
                    }
                    json!(0)
                })
            }
            o => panic!("op {o}"),
        };
        let calls = drain(&log);
        // projection
        let per_layer = |l: u64, what: &str| -> Vec<Value> { calls.iter().filter(|c| c["layer"] == l && c["call"] == what).cloned().collect() };
        let (c1, c2) = (per_layer(1, "close"), per_layer(2, "close"));
        let toks = |v: &Vec<Value>| -> Vec<i64> { v.iter().map(|c| c["tok"].as_i64().unwrap()).collect() };
        let agree = toks(&c1) == toks(&c2);
        o["closes"] = json!(if agree { toks(&c1) } else { vec![-1] });
        o["cscopes"] = json!(c2.iter().map(|c| c["scope"].clone()).collect::<Vec<_>>());
        o["rd"] = json!(agree && c1.iter().chain(c2.iter()).all(|c| c["readable"] == true) && c1.iter().zip(c2.iter()).all(|(a, b)| a["scope"] == b["scope"]));
        let (n1, n2) = (per_layer(1, "new_span"), per_layer(2, "new_span"));
        if op == "new" {
            let ok = n1.len() == 1 && n2.len() == 1 && n1[0]["par"] == n2[0]["par"] && n1[0]["tok"] == n2[0]["tok"];
            o["par"] = if ok { n1[0]["par"].clone() } else { json!(-1) };
            o["clean"] = json!(ok && n1[0]["clean"] == true && n2[0]["clean"] == true);
            // registry ids are 64-bit (they pack a shard number): log a dense index of the raw id, which
            // preserves (in)equality - all the specification needs
            let raw = if ok { n1[0]["id"].as_u64().unwrap_or(0) } else { 0 };
            let next = idmap.len() as u64 + 1;
            let dense = if raw == 0 { 0 } else { *idmap.entry(raw).or_insert(next) };
            o["id"] = json!(dense);
            o["serial"] = json!(serial);
        }
        let (e1, e2) = (per_layer(1, "event"), per_layer(2, "event"));
        if op == "event" {
            let ok = e1.len() == 1 && e2.len() == 1 && e1[0]["chain"] == e2[0]["chain"] && e1[0]["parent"] == e2[0]["parent"];
            o["chain"] = if ok { e1[0]["chain"].clone() } else { json!([-1]) };
            o["eparent"] = if ok { e1[0]["parent"].clone() } else { json!(-1) };
        }
        match &res {
            Ok(v) => {
                if op == "capture" {
                    o["got"] = v.clone();
                }
                if op == "walk" {
                    o["chain"] = v.clone();
                }
            }
            Err(e) => {
                o["panic"] = json!(e);
            }
        }
        // after the operation: which spans can still be looked up with their own data, and the current span
        let meta = sh.meta.lock().unwrap().clone();
        let mut live: Vec<u64> = meta
            .iter()
            .filter(|(ser, (reg, id))| *id != 0 && regs.get(reg).map(|d| lookup_tok(d, &span::Id::from_u64(*id)) == **ser as i64).unwrap_or(false))
            .map(|(ser, _)| *ser)
            .collect();
        live.sort();
        o["live"] = json!(live);
        let cur = ws
            .run(t, |_| dispatch::get_default(|d| d.current_span().id().map(|id| lookup_tok(d, id)).unwrap_or(0)))
            .unwrap_or(-1);
        o["cur"] = json!(cur);
        runner::child_emit(o);
    }
    std::process::exit(0); // no quiescence obligations here; skip destructors of leaked state
}

fn main() {
    if runner::is_child() {
        child();
    } else {
        runner::run_all(|i, b| json!({"ev": "reset", "beh": i, "src": b["src"]}));
    }
}
