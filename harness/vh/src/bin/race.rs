//! C04 / C12 driver (spec/RegistrationRace, spec/Reload): small multi-threaded scenarios - first hits
//! of callsites, Dispatch creation / installation / drop, rebuild_interest_cache, set_global_default,
//! reloads - executed under the cooperative scheduler at the yield points of tracing-core, tracing
//! and tracing-subscriber (cfg tokio_rs_tracing_verif), following a prescribed schedule of thread
//! choices. Every emission is logged with what was delivered; a quiescent round follows.
use serde_json::{json, Value};
use std::collections::HashMap;
use std::sync::atomic::{AtomicBool, AtomicU64, Ordering};
use std::sync::{Arc, Mutex};
use tracing_core::{dispatch, Dispatch};
use tracing_subscriber::prelude::*;
use vh_common::pool;
use vh_common::rec::{new_log, rank_of_filter, FilterRec, Log, RecCollector, VT};
use vh_common::{runner, sched};

static SEQ: AtomicU64 = AtomicU64::new(0);
fn seq() -> u64 {
    SEQ.fetch_add(1, Ordering::SeqCst)
}
fn hook(site: &str) {
    sched::point(site);
}

/// the deliveries (event / new_span) thread `t` received since log position `from`
fn deliveries(log: &Log, from: usize, t: u64, want: &str) -> (Vec<u64>, usize) {
    let l = log.lock().unwrap();
    let got = l[from..].iter().filter(|c| c["th"] == t && c["call"] == want).map(|c| c["col"].as_u64().unwrap()).collect();
    (got, l.len())
}

fn emit(k: &str, lvl: u64, tgt: &str) {
    if k == "span" {
        drop(pool::emit_span(lvl, tgt, 0));
    } else {
        pool::emit_event(lvl, tgt);
    }
}

/// a recording *layer* with a reloadable filter in front (C12): the value is a level threshold + target list
#[derive(Clone)]
struct RFilter {
    thr: u64,
    tgts: Vec<String>,
    span: u64, // (EnvFilter values only) additionally "[w]=<level>": the level enabled inside a span named `w` (0 = no such directive)
    none: bool, // (optglobal values only) the reloadable Option is None: the layer is absent
}
impl RFilter {
    fn of(v: &Value) -> RFilter {
        RFilter { thr: v["thr"].as_u64().unwrap(), tgts: v["tgts"].as_array().unwrap().iter().map(|x| x.as_str().unwrap().to_string()).collect(),
                  span: v["spanl"].as_u64().unwrap_or(if v["span"].as_bool().unwrap_or(false) { 5 } else { 0 }), none: v["none"].as_bool().unwrap_or(false) }
    }
    fn env(&self) -> tracing_subscriber::EnvFilter {
        let lv = ["off", "error", "warn", "info", "debug", "trace"][self.thr as usize];
        let mut dirs: Vec<String> = self.tgts.iter().map(|t| format!("{}={}", t, lv)).collect();
        if self.span > 0 {
            dirs.push(format!("[w]={}", ["off", "error", "warn", "info", "debug", "trace"][self.span as usize]));
        }
        tracing_subscriber::EnvFilter::new(dirs.join(","))
    }
    fn opt_targets(&self) -> Option<tracing_subscriber::filter::Targets> {
        if self.none {
            None
        } else {
            Some(self.targets())
        }
    }
    fn targets(&self) -> tracing_subscriber::filter::Targets {
        let mut t = tracing_subscriber::filter::Targets::new();
        for g in &self.tgts {
            t = t.with_target(g.clone(), vh_common::rec::filter_of_rank(self.thr));
        }
        t
    }
}
struct RecLayer {
    log: Log,
    /// a sampling layer: it answers `sometimes` for every callsite (and then accepts everything)
    sampler: bool,
}
impl<C: tracing_core::Collect> tracing_subscriber::Subscribe<C> for RecLayer {
    fn register_callsite(&self, _: &'static tracing_core::Metadata<'static>) -> tracing_core::Interest {
        if self.sampler {
            tracing_core::Interest::sometimes()
        } else {
            tracing_core::Interest::always()
        }
    }
    fn on_event(&self, e: &tracing_core::Event<'_>, _: tracing_subscriber::subscribe::Context<'_, C>) {
        let m = e.metadata();
        self.log.lock().unwrap().push(json!({"col": 1, "call": "event", "lvl": vh_common::rec::rank(m.level()), "tgt": m.target(), "th": vh_common::rec::vt()}));
    }
    fn on_new_span(&self, a: &tracing_core::span::Attributes<'_>, _: &tracing_core::span::Id, _: tracing_subscriber::subscribe::Context<'_, C>) {
        let m = a.metadata();
        self.log.lock().unwrap().push(json!({"col": 1, "call": "new_span", "lvl": vh_common::rec::rank(m.level()), "tgt": m.target(), "th": vh_common::rec::vt()}));
    }
}

fn child() {
    vh_common::quiet_panics();
    // watchdog: a real deadlock in the code under test must not hang the run
    std::thread::spawn(|| {
        std::thread::sleep(std::time::Duration::from_secs(30));
        println!("{}", json!({"ev": "hang"}));
        std::process::exit(3);
    });
    let sc = runner::child_input();
    let log = new_log();
    let out: Arc<Mutex<Vec<Value>>> = Arc::new(Mutex::new(vec![]));
    tracing_core::verif::set_hook(Some(hook));
    let filters: HashMap<u64, FilterRec> = sc["collectors"].as_object().map(|m| m.iter().map(|(k, v)| (k.parse().unwrap(), FilterRec::from_json(v))).collect()).unwrap_or_default();
    // C12: one shared reloadable stack, created before the race
    let mut reload_handle = None;
    let mut modify_handle: Option<Arc<Mutex<Box<dyn Fn(&RFilter) -> bool + Send>>>> = None;
    // the same replacement through Handle::modify, whose closure yields to the scheduler WHILE the handle's write lock is held
    let mut set_handle: Option<Arc<Mutex<Box<dyn Fn(&RFilter) -> bool + Send>>>> = None;
    macro_rules! setter {
        ($h:expr, $conv:ident) => {{
            let h3 = $h.clone();
            set_handle = Some(Arc::new(Mutex::new(Box::new(move |v: &RFilter| {
                let nv = v.$conv();
                h3.modify(move |f| {
                    vh_common::sched::point("reload.closure.holding_write");
                    *f = nv;
                })
                .is_ok()
            }) as Box<dyn Fn(&RFilter) -> bool + Send>)));
        }};
    }
    let mut shared: Option<Dispatch> = None;
    if let Some(r) = sc.get("reload") {
        let v0 = RFilter::of(&r["values"][0]);
        let sampler = r["sampler"].as_bool().unwrap_or(false);
        if r["kind"] == "env" || r["kind"] == "envplf" {
            // a second, idle collector that answers `sometimes` is alive as well (registered before the stack)
            let (c, _) = RecCollector::new(9, FilterRec { thr: 5, tgts: vec!["a".into(), "b".into()], kind: "lazy".into(), hint: None }, new_log());
            std::mem::forget(Dispatch::new(c));
            let (f, h) = tracing_subscriber::reload::Subscriber::new(v0.env());
            // as the global filter layer below the recording layer, or (envplf) as that layer's per-layer filter
            shared = Some(if r["kind"] == "envplf" {
                Dispatch::new(tracing_subscriber::registry().with(RecLayer { log: log.clone(), sampler }.with_filter(f)))
            } else {
                Dispatch::new(tracing_subscriber::registry().with(f).with(RecLayer { log: log.clone(), sampler }))
            });
            let h2 = h.clone();
            setter!(h, env);
            reload_handle = Some(Arc::new(Mutex::new(Box::new(move |v: &RFilter| h.reload(v.env()).is_ok()) as Box<dyn Fn(&RFilter) -> bool + Send>)));
            // the in-place edit: the installed filter is taken out, gets one more directive and is put back (Handle::modify)
            modify_handle = Some(Arc::new(Mutex::new(Box::new(move |v: &RFilter| {
                let d: tracing_subscriber::filter::Directive = format!("[w]={}", ["off", "error", "warn", "info", "debug", "trace"][v.span as usize]).parse().unwrap();
                h2.modify(|f| *f = std::mem::take(f).add_directive(d)).is_ok()
            }) as Box<dyn Fn(&RFilter) -> bool + Send>)));
        } else if r["kind"] == "optglobal" {
            // a second, idle collector with a restrictive hint is alive as well
            let (c, _) = RecCollector::new(9, FilterRec { thr: 1, tgts: vec!["a".into(), "b".into()], kind: "static".into(), hint: Some(1) }, new_log());
            std::mem::forget(Dispatch::new(c));
            // a reloadable Option<Targets> global layer ABOVE the recording layer: None means the layer is absent
            let (f, h) = tracing_subscriber::reload::Subscriber::new(v0.opt_targets());
            shared = Some(Dispatch::new(tracing_subscriber::registry().with(RecLayer { log: log.clone(), sampler }).with(f)));
            setter!(h, opt_targets);
            reload_handle = Some(Arc::new(Mutex::new(Box::new(move |v: &RFilter| h.reload(v.opt_targets()).is_ok()) as Box<dyn Fn(&RFilter) -> bool + Send>)));
        } else if r["kind"] == "perlayer" {
            let (f, h) = tracing_subscriber::reload::Subscriber::new(v0.targets());
            shared = Some(Dispatch::new(tracing_subscriber::registry().with(RecLayer { log: log.clone(), sampler }.with_filter(f))));
            setter!(h, targets);
            reload_handle = Some(Arc::new(Mutex::new(Box::new(move |v: &RFilter| h.reload(v.targets()).is_ok()) as Box<dyn Fn(&RFilter) -> bool + Send>)));
        } else {
            // (also here an idle collector answering `sometimes` is alive: cached interests stay `sometimes`, so the reloadable
            // layer's enabled() is asked on every emission)
            let (c, _) = RecCollector::new(9, FilterRec { thr: 5, tgts: vec!["a".into(), "b".into()], kind: "lazy".into(), hint: None }, new_log());
            std::mem::forget(Dispatch::new(c));
            let (f, h) = tracing_subscriber::reload::Subscriber::new(v0.targets());
            shared = Some(Dispatch::new(tracing_subscriber::registry().with(f).with(RecLayer { log: log.clone(), sampler })));
            setter!(h, targets);
            reload_handle = Some(Arc::new(Mutex::new(Box::new(move |v: &RFilter| h.reload(v.targets()).is_ok()) as Box<dyn Fn(&RFilter) -> bool + Send>)));
        }
    }
    let scripts: Vec<Value> = sc["threads"].as_array().unwrap().clone();
    let schedule: Vec<u64> = sc["schedule"].as_array().unwrap().iter().map(|x| x.as_u64().unwrap()).collect();
    let survivors: Arc<Mutex<Vec<(u64, Dispatch)>>> = Arc::new(Mutex::new(vec![]));
    let panicked = Arc::new(AtomicBool::new(false));
    sched::begin_with(scripts.len(), &schedule, sc["trust_locks"].as_bool().unwrap_or(true));
    std::thread::scope(|s| {
        for (j, script) in scripts.iter().enumerate() {
            let t = j as u64 + 1;
            let (log, out, filters, survivors, panicked, shared, reload_handle, modify_handle, set_handle, sc) =
                (log.clone(), out.clone(), filters.clone(), survivors.clone(), panicked.clone(), shared.clone(), reload_handle.clone(), modify_handle.clone(), set_handle.clone(), &sc);
            s.spawn(move || {
                VT.with(|v| v.set(t));
                sched::enter(t);
                let r = vh_common::catch(|| {
                    let mut cur: Option<(u64, Dispatch, dispatch::DefaultGuard)> = None;
                    let mut my_flag: Option<Arc<AtomicBool>> = None;
                    let mut my_global: u64 = 0; // the global default this thread itself installed (it completed before its later hits)
                    let mut shared_guard = shared.as_ref().map(dispatch::set_default);
                    for op in script.as_array().unwrap() {
                        let mut o = op.clone();
                        o["ev"] = json!("op");
                        o["t"] = json!(t);
                        o["start"] = json!(seq());
                        match op["op"].as_str().unwrap() {
                            "new_default" => {
                                let d = op["d"].as_u64().unwrap();
                                let (mut c, _) = RecCollector::new(d, filters[&d].clone(), log.clone());
                                c.log_filtering = true;
                                if filters[&d].kind == "sw" {
                                    c.flag.store(false, Ordering::SeqCst); // a switchable collector starts switched off
                                }
                                my_flag = Some(c.flag.clone());
                                let disp = Dispatch::new(c);
                                let g = dispatch::set_default(&disp);
                                cur = Some((d, disp, g));
                            }
                            "drop_default" => {
                                if let Some((_, disp, g)) = cur.take() {
                                    drop(g);
                                    drop(disp);
                                }
                            }
                            "rebuild" => tracing_core::callsite::rebuild_interest_cache(),
                            // flip this thread's own switchable collector, then rebuild the cache as its documentation demands
                            "switch" => {
                                my_flag.as_ref().unwrap().store(op["on"].as_bool().unwrap(), Ordering::SeqCst);
                                o["d"] = json!(cur.as_ref().map(|c| c.0).unwrap_or(0));
                                tracing_core::callsite::rebuild_interest_cache();
                            }
                            "set_global" => {
                                let d = op["d"].as_u64().unwrap();
                                let (mut c, _) = RecCollector::new(d, filters[&d].clone(), log.clone());
                                c.log_filtering = true;
                                let disp = Dispatch::new(c);
                                let ok = dispatch::set_global_default(disp.clone()).is_ok();
                                o["ok"] = json!(ok);
                                if ok {
                                    my_global = d;
                                }
                                survivors.lock().unwrap().push((d, disp));
                            }
                            "reload" => {
                                let v = RFilter::of(&sc["reload"]["values"][op["v"].as_u64().unwrap() as usize]);
                                if op["how"] == "modify_add" {
                                    let h = modify_handle.as_ref().unwrap().lock().unwrap();
                                    o["ok"] = json!(h(&v));
                                } else if op["how"] == "modify_set" {
                                    let h = set_handle.as_ref().unwrap().lock().unwrap();
                                    o["ok"] = json!(h(&v));
                                } else {
                                    let h = reload_handle.as_ref().unwrap().lock().unwrap();
                                    o["ok"] = json!(h(&v));
                                }
                            }
                            "hit" => {
                                let (lvl, tgt, k) = (op["c"]["lvl"].as_u64().unwrap(), op["c"]["tgt"].as_str().unwrap(), op["k"].as_str().unwrap_or("event"));
                                let from = log.lock().unwrap().len();
                                if op["inspan"].as_bool().unwrap_or(false) {
                                    let w = tracing::span!(target: "a", tracing::Level::INFO, "w");
                                    let _e = w.enter();
                                    emit("event", lvl, tgt);
                                } else {
                                    emit(k, lvl, tgt);
                                }
                                let (got, _) = deliveries(&log, from, t, if k == "span" && !op["inspan"].as_bool().unwrap_or(false) { "new_span" } else { "event" });
                                o["got"] = match got.len() {
                                    0 => json!(0),
                                    1 => json!(got[0]),
                                    _ => json!(-1),
                                };
                                o["d"] = json!(cur.as_ref().map(|c| c.0).unwrap_or(my_global));
                            }
                            x => panic!("op {x}"),
                        }
                        o["end"] = json!(seq());
                        out.lock().unwrap().push(o);
                    }
                    if let Some((d, disp, g)) = cur.take() {
                        drop(g);
                        survivors.lock().unwrap().push((d, disp));
                    }
                    drop(shared_guard.take());
                });
                if r.is_err() {
                    panicked.store(true, Ordering::SeqCst);
                    out.lock().unwrap().push(json!({"ev": "panic", "t": t, "msg": r.err()}));
                }
                sched::leave();
            });
        }
    });
    let (slog, stalled) = sched::end();
    tracing_core::verif::set_hook(None);
    let mut lines = out.lock().unwrap().clone();
    lines.sort_by_key(|o| o.get("end").and_then(|x| x.as_u64()).unwrap_or(u64::MAX));
    for l in lines {
        runner::child_emit(l);
    }
    runner::child_emit(json!({"ev": "sched", "stalled": stalled, "deadlocked": sched::deadlocked(), "steps": slog.len(),
                              "sites": slog.iter().map(|(t, s)| format!("{}:{}", t, s)).collect::<Vec<_>>()}));
    // quiescence: every collector that is still alive, installed on the main thread, gets exactly what it accepts
    let surv = survivors.lock().unwrap().clone();
    // C04 "every callsite is offered to every collector that is live afterwards": the callsites that were hit, and
    // per surviving collector the callsites its register_callsite was called for (so far)
    let offered: Vec<Value> = surv
        .iter()
        .map(|(d, _)| {
            let l = log.lock().unwrap();
            let mut cs: Vec<Value> = l
                .iter()
                .filter(|c| c["call"] == "register_callsite" && c["col"] == *d)
                .map(|c| json!({"lvl": c["lvl"], "tgt": c["tgt"], "k": if c["name"].as_str().unwrap_or("").starts_with("event ") { "event" } else { "span" }}))
                .collect();
            cs.sort_by_key(|c| c.to_string());
            cs.dedup();
            json!({"d": d, "cs": cs})
        })
        .collect();
    let registered: Vec<Value> = {
        let l = log.lock().unwrap();
        let mut cs: Vec<Value> = l
            .iter()
            .filter(|c| c["call"] == "register_callsite")
            .map(|c| json!({"lvl": c["lvl"], "tgt": c["tgt"], "k": if c["name"].as_str().unwrap_or("").starts_with("event ") { "event" } else { "span" }}))
            .collect();
        cs.sort_by_key(|c| c.to_string());
        cs.dedup();
        cs
    };
    let mut fin = vec![];
    VT.with(|v| v.set(99));
    let mut all: Vec<(u64, Dispatch)> = surv;
    if let Some(s) = shared {
        all.push((1, s));
    }
    for (d, disp) in all.iter() {
        let _g = dispatch::set_default(disp);
        for lvl in 1..=5u64 {
            for tgt in pool::TARGETS {
                for k in ["event", "span"] {
                    let from = log.lock().unwrap().len();
                    emit(k, lvl, tgt);
                    let (got, _) = deliveries(&log, from, 99, if k == "span" { "new_span" } else { "event" });
                    fin.push(json!({"d": d, "c": {"lvl": lvl, "tgt": tgt}, "k": k, "got": if got.len() == 1 { got[0] as i64 } else if got.is_empty() { 0 } else { -1 }}));
                }
            }
        }
    }
    // C12: a reload handle whose collector is gone must report an error instead of acting
    let dead = {
        let (f, h) = tracing_subscriber::reload::Subscriber::new(tracing_subscriber::filter::LevelFilter::INFO);
        let d = Dispatch::new(tracing_subscriber::registry().with(f));
        drop(d);
        let before = rank_of_filter(&tracing_core::LevelFilter::current());
        let r1 = h.reload(tracing_subscriber::filter::LevelFilter::TRACE).is_err();
        let r2 = h.modify(|f| *f = tracing_subscriber::filter::LevelFilter::TRACE).is_err();
        r1 && r2 && before == rank_of_filter(&tracing_core::LevelFilter::current())
    };
    runner::child_emit(json!({"ev": "final", "ml": rank_of_filter(&tracing_core::LevelFilter::current()), "round": fin, "dead_handle_err": dead, "offered": offered, "registered": registered}));
    std::process::exit(0);
}

fn main() {
    if runner::is_child() {
        child();
    } else {
        runner::run_all(|i, b| json!({"ev": "reset", "beh": i, "collectors": b["collectors"], "reload": b["reload"]}));
    }
}
