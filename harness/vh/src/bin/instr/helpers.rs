//! Helper types of the #[instrument] twin corpus: every observable effect of a twin (argument
//! clones / drops, body steps) and every collector callback goes to one chronological log, tagged
//! with the call that was being polled.
use serde_json::{json, Value};
use std::cell::RefCell;
use std::fmt;
use std::future::Future;
use std::pin::Pin;
use std::task::{Context, Poll};

thread_local! {
    pub static LOG: RefCell<Vec<Value>> = RefCell::new(Vec::new());
    pub static CALL: RefCell<i64> = RefCell::new(-1);
}
pub fn cur_call() -> i64 {
    CALL.with(|c| *c.borrow())
}
pub fn push(mut v: Value) {
    v["call"] = json!(cur_call());
    LOG.with(|l| l.borrow_mut().push(v));
}
pub fn effect(s: &str) {
    // body effects are named t<k>:b...; everything else (pre, returned, drop, clone) may happen outside the span
    let body = s.split(':').nth(1).map(|x| x.starts_with('b')).unwrap_or(false) || s.starts_with("helper:");
    push(json!({"k": "effect", "what": s, "body": body}));
}

pub struct Tok(pub u32);
impl Drop for Tok {
    fn drop(&mut self) {
        effect(&format!("drop:{}", self.0));
    }
}
impl Clone for Tok {
    fn clone(&self) -> Tok {
        effect(&format!("clone:{}", self.0));
        Tok(self.0)
    }
}
impl fmt::Debug for Tok {
    fn fmt(&self, f: &mut fmt::Formatter<'_>) -> fmt::Result {
        write!(f, "Tok({})", self.0)
    }
}
impl fmt::Display for Tok {
    fn fmt(&self, f: &mut fmt::Formatter<'_>) -> fmt::Result {
        write!(f, "tok-{}", self.0)
    }
}
#[derive(Debug)]
pub struct Pair {
    pub p: Tok,
    pub q: u32,
}
pub struct MyErr(pub u32);
impl fmt::Debug for MyErr {
    fn fmt(&self, f: &mut fmt::Formatter<'_>) -> fmt::Result {
        write!(f, "MyErr({})", self.0)
    }
}
impl fmt::Display for MyErr {
    fn fmt(&self, f: &mut fmt::Formatter<'_>) -> fmt::Result {
        write!(f, "my-err-{}", self.0)
    }
}
impl std::error::Error for MyErr {}
pub fn helper(n: u32) -> Result<u32, MyErr> {
    if n == 3 {
        effect("helper:err");
        Err(MyErr(n))
    } else {
        Ok(n + 10)
    }
}
pub fn describe<T: fmt::Debug>(r: &T) -> String {
    format!("{:?}", r)
}
#[macro_export]
macro_rules! obj_type {
    () => {
        pub struct Obj(pub Tok);
        impl std::fmt::Debug for Obj {
            fn fmt(&self, f: &mut std::fmt::Formatter<'_>) -> std::fmt::Result {
                write!(f, "Obj({:?})", self.0)
            }
        }
    };
}
pub use crate::obj_type;

pub struct Env {
    pub psp: tracing::Span,
}
pub type Fut = Pin<Box<dyn Future<Output = String>>>;
/// stands in for a twin that is compiled out (feature `fragile` off)
pub fn missing(_: bool, _: u32, _: Env) -> Fut {
    Box::pin(async { String::from("missing") })
}

/// Pending exactly once
pub struct YieldOnce(bool);
pub fn yield_once() -> YieldOnce {
    YieldOnce(false)
}
impl Future for YieldOnce {
    type Output = ();
    fn poll(mut self: Pin<&mut Self>, cx: &mut Context<'_>) -> Poll<()> {
        if self.0 {
            Poll::Ready(())
        } else {
            self.0 = true;
            cx.waker().wake_by_ref();
            Poll::Pending
        }
    }
}
