//! C17 driver (spec/Instrument): runs every twin of the generated #[instrument] corpus -- the plain
//! function and the attributed one -- with the same inputs under the same collector, polling async
//! twins with a manual executor that interleaves two calls, and logs one chronological sequence of
//! effects and collector callbacks per run.
use serde_json::{json, Value};
use std::cell::RefCell;
use std::future::Future;
use std::panic::{catch_unwind, AssertUnwindSafe};
use std::sync::{Arc, Mutex};
use std::task::{Context, Poll, RawWaker, RawWakerVTable, Waker};
use tracing_core::field::{Field, Visit};
use tracing_core::span::{Attributes, Current, Id, Record};
use tracing_core::{dispatch, Collect, Dispatch, Event, Interest, LevelFilter, Metadata};

mod corpus;
pub mod helpers;
use helpers::{push, Env, Fut, CALL, LOG};

struct V<'a>(&'a mut Vec<Value>);
impl Visit for V<'_> {
    fn record_debug(&mut self, f: &Field, v: &dyn std::fmt::Debug) {
        self.0.push(json!({"name": f.name(), "v": format!("{:?}", v), "m": "debug"}));
    }
    fn record_str(&mut self, f: &Field, v: &str) {
        self.0.push(json!({"name": f.name(), "v": v, "m": "str"}));
    }
    fn record_u64(&mut self, f: &Field, v: u64) {
        self.0.push(json!({"name": f.name(), "v": v.to_string(), "m": "u64"}));
    }
    fn record_i64(&mut self, f: &Field, v: i64) {
        self.0.push(json!({"name": f.name(), "v": v.to_string(), "m": "i64"}));
    }
    fn record_bool(&mut self, f: &Field, v: bool) {
        self.0.push(json!({"name": f.name(), "v": v.to_string(), "m": "bool"}));
    }
    fn record_f64(&mut self, f: &Field, v: f64) {
        self.0.push(json!({"name": f.name(), "v": format!("{:?}", v), "m": "f64"}));
    }
    fn record_error(&mut self, f: &Field, v: &(dyn std::error::Error + 'static)) {
        self.0.push(json!({"name": f.name(), "v": format!("{}", v), "m": "error"}));
    }
}

struct Rec {
    mode: &'static str,
    thr: u64, // mode "thr": exactly the levels of rank <= thr are accepted (error = 1 .. trace = 5), and the hint says so
    next: Mutex<u64>,
    stack: Mutex<Vec<u64>>,
    refs: Mutex<std::collections::HashMap<u64, usize>>,
    metas: Mutex<std::collections::HashMap<u64, &'static Metadata<'static>>>,
}
impl Rec {
    fn ours(m: &Metadata<'_>) -> bool {
        m.name() != "vh_psp" && m.name() != "vh_outer"
    }
    fn cur(&self) -> u64 {
        self.stack.lock().unwrap().last().copied().unwrap_or(0)
    }
}
impl Collect for Rec {
    fn register_callsite(&self, m: &'static Metadata<'static>) -> Interest {
        if !Rec::ours(m) {
            return Interest::always();
        }
        match self.mode {
            "thr" => {
                if vh_common::rec::rank(m.level()) <= self.thr {
                    Interest::always()
                } else {
                    Interest::never()
                }
            }
            "never" => Interest::never(),
            "dynamic" => Interest::sometimes(),
            _ => Interest::always(),
        }
    }
    fn enabled(&self, m: &Metadata<'_>) -> bool {
        !Rec::ours(m) || self.mode == "accept" || self.mode == "cap" || (self.mode == "thr" && vh_common::rec::rank(m.level()) <= self.thr)
    }
    fn max_level_hint(&self) -> Option<LevelFilter> {
        if self.mode == "cap" {
            Some(LevelFilter::OFF)
        } else if self.mode == "thr" {
            Some(vh_common::rec::filter_of_rank(self.thr))
        } else {
            None
        }
    }
    fn new_span(&self, a: &Attributes<'_>) -> Id {
        let id = {
            let mut n = self.next.lock().unwrap();
            *n += 1;
            *n
        };
        self.refs.lock().unwrap().insert(id, 1);
        let m = a.metadata();
        self.metas.lock().unwrap().insert(id, m);
        let mut fields = vec![];
        a.record(&mut V(&mut fields));
        let parent = if a.is_root() { 0 } else if let Some(p) = a.parent() { p.into_u64() } else { self.cur() };
        push(json!({"k": "new_span", "id": id, "name": m.name(), "level": vh_common::rec::rank(m.level()), "target": m.target(), "parent": parent, "fields": fields,
            "declared": m.fields().iter().map(|f| f.name().to_string()).collect::<Vec<_>>()}));
        Id::from_u64(id)
    }
    fn record(&self, id: &Id, r: &Record<'_>) {
        let mut fields = vec![];
        r.record(&mut V(&mut fields));
        push(json!({"k": "record", "id": id.into_u64(), "fields": fields}));
    }
    fn record_follows_from(&self, id: &Id, f: &Id) {
        push(json!({"k": "follows", "id": id.into_u64(), "from": f.into_u64()}));
    }
    fn event(&self, e: &Event<'_>) {
        let m = e.metadata();
        let mut fields = vec![];
        e.record(&mut V(&mut fields));
        let parent = if e.is_root() { 0 } else if let Some(p) = e.parent() { p.into_u64() } else { self.cur() };
        push(json!({"k": "event", "level": vh_common::rec::rank(m.level()), "target": m.target(), "parent": parent, "fields": fields}));
    }
    fn enter(&self, id: &Id) {
        self.stack.lock().unwrap().push(id.into_u64());
        push(json!({"k": "enter", "id": id.into_u64()}));
    }
    fn exit(&self, id: &Id) {
        let mut s = self.stack.lock().unwrap();
        if let Some(p) = s.iter().rposition(|x| *x == id.into_u64()) {
            s.remove(p);
        }
        drop(s);
        push(json!({"k": "exit", "id": id.into_u64()}));
    }
    fn clone_span(&self, id: &Id) -> Id {
        *self.refs.lock().unwrap().entry(id.into_u64()).or_insert(0) += 1;
        id.clone()
    }
    fn try_close(&self, id: Id) -> bool {
        let mut r = self.refs.lock().unwrap();
        let c = r.entry(id.into_u64()).or_insert(1);
        *c -= 1;
        if *c == 0 {
            drop(r);
            push(json!({"k": "close", "id": id.into_u64()}));
            true
        } else {
            false
        }
    }
    // a collector that knows its current span (as the registry does): Span::current() / or_current() see the entered span
    fn current_span(&self) -> Current {
        match self.stack.lock().unwrap().last() {
            Some(id) => match self.metas.lock().unwrap().get(id) {
                Some(m) => Current::new(Id::from_u64(*id), m),
                None => Current::none(),
            },
            None => Current::none(),
        }
    }
}

fn noop_waker() -> Waker {
    fn clone(_: *const ()) -> RawWaker {
        RawWaker::new(std::ptr::null(), &VT)
    }
    fn noop(_: *const ()) {}
    static VT: RawWakerVTable = RawWakerVTable::new(clone, noop, noop, noop);
    unsafe { Waker::from_raw(RawWaker::new(std::ptr::null(), &VT)) }
}

/// one run: calls = [(twin, inst?, n)], schedule = order in which pending calls are polled
fn run_calls(calls: &[Value], schedule: &[u64], outer: bool, with_collector: bool) -> Vec<Value> {
    let psp = if with_collector { tracing::span!(tracing::Level::ERROR, "vh_psp") } else { tracing::Span::none() };
    let outer_span = if outer && with_collector { tracing::span!(tracing::Level::ERROR, "vh_outer") } else { tracing::Span::none() };
    LOG.with(|l| l.borrow_mut().clear());
    push(json!({"k": "env", "psp": psp.id().map(|i| i.into_u64()).unwrap_or(0), "outer": outer_span.id().map(|i| i.into_u64()).unwrap_or(0)}));
    let mut futs: Vec<Option<Fut>> = calls
        .iter()
        .map(|c| Some(corpus::TWINS[c["twin"].as_u64().unwrap() as usize](c["inst"].as_bool().unwrap(), c["n"].as_u64().unwrap() as u32, Env { psp: psp.clone() })))
        .collect();
    let waker = noop_waker();
    let mut cx = Context::from_waker(&waker);
    let mut pos = 0usize;
    let mut guard = 0;
    while futs.iter().any(|f| f.is_some()) && guard < 1000 {
        guard += 1;
        let pick = if pos < schedule.len() { schedule[pos] as usize % futs.len() } else { futs.iter().position(|f| f.is_some()).unwrap() };
        pos += 1;
        if futs[pick].is_none() {
            continue;
        }
        CALL.with(|c| *c.borrow_mut() = pick as i64);
        push(json!({"k": "poll"}));
        let r = {
            let _g = outer_span.enter();
            catch_unwind(AssertUnwindSafe(|| futs[pick].as_mut().unwrap().as_mut().poll(&mut cx)))
        };
        match r {
            Ok(Poll::Pending) => push(json!({"k": "pending"})),
            Ok(Poll::Ready(out)) => {
                futs[pick] = None;
                push(json!({"k": "done", "outcome": out}));
            }
            Err(p) => {
                let msg = p.downcast_ref::<String>().cloned().or_else(|| p.downcast_ref::<&str>().map(|s| s.to_string())).unwrap_or_default();
                // dropping the future runs the remaining drops of the call
                let f = futs[pick].take();
                let _g = outer_span.enter();
                drop(f);
                push(json!({"k": "done", "outcome": format!("panic:{}", msg)}));
            }
        }
        CALL.with(|c| *c.borrow_mut() = -1);
    }
    drop(psp);
    drop(outer_span);
    LOG.with(|l| l.borrow().clone())
}

fn main() {
    vh_common::quiet_panics();
    let out = vh_common::TraceOut::from_env();
    let cases = vh_common::read_input();
    for (ci, c) in cases.iter().enumerate() {
        if ci % 100 == 0 {
            out.emit(json!({"ev": "reset", "beh": ci / 100}));
        }
        let mode: &'static str = match c["mode"].as_str().unwrap() {
            "accept" => "accept",
            "never" => "never",
            "dynamic" => "dynamic",
            "cap" => "cap",
            "thr" => "thr",
            _ => "none",
        };
        let thr = c["thr"].as_u64().unwrap_or(0);
        let calls = c["calls"].as_array().unwrap();
        let schedule: Vec<u64> = c["schedule"].as_array().unwrap().iter().map(|x| x.as_u64().unwrap()).collect();
        let outer = c["outer"].as_bool().unwrap();
        let go = |inst: bool| {
            let cs: Vec<Value> = calls.iter().map(|x| json!({"twin": x["twin"], "inst": inst, "n": x["n"]})).collect();
            if mode == "none" {
                run_calls(&cs, &schedule, outer, false)
            } else {
                let d = Dispatch::new(Rec { mode, thr, next: Mutex::new(0), stack: Mutex::new(vec![]), refs: Mutex::new(Default::default()), metas: Mutex::new(Default::default()) });
                dispatch::with_default(&d, || run_calls(&cs, &schedule, outer, true))
            }
        };
        let plain = go(false);
        let inst = go(true);
        out.emit(json!({"ev": "case", "ci": ci, "mode": mode, "thr": thr, "outer": outer, "calls": c["calls"], "plain": plain, "inst": inst}));
    }
}
