//! C11 driver (spec/Directives): every directive string is parsed by the REAL `Targets` and
//! `EnvFilter`, installed in four real stacks (global layer / per-layer filter, each of the two
//! filter types, plus the re-parsed `Display` output of each), and one script of real macro
//! callsites (spans with names / field values, enter / exit / record, event probes) is run against
//! every stack.  One `case` line (parse results, `would_enable` table, Display round trips) and one
//! `run` line per stack (the reply of every script step) are logged for DirectivesTrace.
use serde_json::{json, Value};
use std::collections::HashMap;
use std::sync::{Arc, Mutex};
use tracing_core::{dispatch, span, Dispatch, Event, LevelFilter};
use tracing_subscriber::filter::{EnvFilter, Targets};
use tracing_subscriber::prelude::*;
use tracing_subscriber::subscribe::{Context, Subscribe};

#[derive(Clone, Default)]
struct RecLayer {
    events: Arc<Mutex<u64>>,
    spans: Arc<Mutex<u64>>,
}
impl<C: tracing_core::Collect> Subscribe<C> for RecLayer {
    fn on_new_span(&self, _: &span::Attributes<'_>, _: &span::Id, _: Context<'_, C>) {
        *self.spans.lock().unwrap() += 1;
    }
    fn on_event(&self, _: &Event<'_>, _: Context<'_, C>) {
        *self.events.lock().unwrap() += 1;
    }
}

const TARGETS: [&str; 4] = ["a", "a::b", "ab", "b"];

macro_rules! pool {
    ($( $i:literal : $lvl:ident $tgt:literal ),* $(,)?) => {
        fn event(lvl: u64, tgt: &str, k: bool) {
            $( if lvl == $i && tgt == $tgt {
                if k { tracing::event!(target: $tgt, tracing::Level::$lvl, k = 1u64, "e"); } else { tracing::event!(target: $tgt, tracing::Level::$lvl, "e"); }
                return;
            } )*
            panic!("no event callsite {lvl} {tgt}");
        }
        /// name "s1" has a field `k` (kv: "" = left Empty, otherwise a value token whose spelling selects the Rust type), "s2" has no fields
        fn mkspan(lvl: u64, tgt: &str, name: &str, kv: &str) -> tracing::Span {
            $( if lvl == $i && tgt == $tgt {
                if name != "s1" {
                    return tracing::span!(target: $tgt, tracing::Level::$lvl, "s2");
                }
                return match tok(kv) {
                    Tok::Empty => tracing::span!(target: $tgt, tracing::Level::$lvl, "s1", k = tracing::field::Empty),
                    Tok::U(v) => tracing::span!(target: $tgt, tracing::Level::$lvl, "s1", k = v),
                    Tok::I(v) => tracing::span!(target: $tgt, tracing::Level::$lvl, "s1", k = v),
                    Tok::B(v) => tracing::span!(target: $tgt, tracing::Level::$lvl, "s1", k = v),
                    Tok::F(v) => tracing::span!(target: $tgt, tracing::Level::$lvl, "s1", k = v),
                    Tok::S(v) => tracing::span!(target: $tgt, tracing::Level::$lvl, "s1", k = v),
                };
            } )*
            panic!("no span callsite {lvl} {tgt}");
        }
    };
}
pool! {
    1: ERROR "a", 2: WARN "a", 3: INFO "a", 4: DEBUG "a", 5: TRACE "a",
    1: ERROR "a::b", 2: WARN "a::b", 3: INFO "a::b", 4: DEBUG "a::b", 5: TRACE "a::b",
    1: ERROR "ab", 2: WARN "ab", 3: INFO "ab", 4: DEBUG "ab", 5: TRACE "ab",
    1: ERROR "b", 2: WARN "b", 3: INFO "b", 4: DEBUG "b", 5: TRACE "b",
}

/// a value token and the Rust type it is recorded with
enum Tok<'a> {
    Empty,
    U(u64),
    I(i64),
    B(bool),
    F(f64),
    S(&'a str),
}
fn tok(s: &str) -> Tok<'_> {
    if s.is_empty() {
        Tok::Empty
    } else if let Some(r) = s.strip_prefix("i:") {
        Tok::I(r.parse().unwrap())      // "i:1": the integer 1 recorded as i64
    } else if let Ok(v) = s.parse::<u64>() {
        Tok::U(v)
    } else if let Ok(v) = s.parse::<i64>() {
        Tok::I(v)
    } else if let Ok(v) = s.parse::<bool>() {
        Tok::B(v)
    } else if let Ok(v) = s.parse::<f64>() {
        Tok::F(v)
    } else {
        Tok::S(s)
    }
}

fn lf(r: u64) -> LevelFilter {
    vh_common::rec::filter_of_rank(r)
}
fn lvl_of(r: u64) -> tracing_core::Level {
    lf(r).into_level().unwrap()
}

fn run_script(d: &Dispatch, rec: &RecLayer, script: &[Value]) -> Vec<Value> {
    let mut replies = vec![];
    dispatch::with_default(d, || {
        let mut spans: HashMap<u64, tracing::Span> = HashMap::new();
        let ev = |lvl: u64, tgt: &str, k: bool| -> bool {
            let before = *rec.events.lock().unwrap();
            event(lvl, tgt, k);
            *rec.events.lock().unwrap() > before
        };
        for op in script {
            let r = match op["op"].as_str().unwrap() {
                "span" => {
                    let before = *rec.spans.lock().unwrap();
                    let s = mkspan(op["lvl"].as_u64().unwrap(), op["tgt"].as_str().unwrap(), op["name"].as_str().unwrap(), op["kt"].as_str().unwrap());
                    let live = *rec.spans.lock().unwrap() > before;
                    spans.insert(op["h"].as_u64().unwrap(), s);
                    json!(live)
                }
                "record" => {
                    let sp = &spans[&op["h"].as_u64().unwrap()];
                    match tok(op["kt"].as_str().unwrap()) {
                        Tok::Empty => {}
                        Tok::U(v) => drop(sp.record("k", v)),
                        Tok::I(v) => drop(sp.record("k", v)),
                        Tok::B(v) => drop(sp.record("k", v)),
                        Tok::F(v) => drop(sp.record("k", v)),
                        Tok::S(v) => drop(sp.record("k", v)),
                    }
                    json!(true)
                }
                "enter" => {
                    if let Some(id) = spans[&op["h"].as_u64().unwrap()].id() {
                        dispatch::get_default(|d| d.enter(&id));
                    }
                    json!(true)
                }
                "exit" => {
                    if let Some(id) = spans[&op["h"].as_u64().unwrap()].id() {
                        dispatch::get_default(|d| d.exit(&id));
                    }
                    json!(true)
                }
                "close" => {
                    spans.remove(&op["h"].as_u64().unwrap());
                    json!(true)
                }
                "event" => json!(ev(op["lvl"].as_u64().unwrap(), op["tgt"].as_str().unwrap(), op["k"].as_bool().unwrap())),
                "all" => {
                    let mut v = vec![];
                    for lvl in 1..=5u64 {
                        for tgt in TARGETS {
                            for k in [false, true] {
                                v.push(ev(lvl, tgt, k));
                            }
                        }
                    }
                    json!(v)
                }
                o => panic!("op {o}"),
            };
            replies.push(r);
        }
    });
    replies
}

fn stacks_targets(t: &Targets) -> Vec<(&'static str, Dispatch, RecLayer)> {
    let r1 = RecLayer::default();
    let r2 = RecLayer::default();
    vec![
        ("T-global", Dispatch::new(tracing_subscriber::registry().with(t.clone()).with(r1.clone())), r1),
        ("T-plf", Dispatch::new(tracing_subscriber::registry().with(r2.clone().with_filter(t.clone()))), r2),
    ]
}
fn env(s: &str) -> Result<EnvFilter, String> {
    EnvFilter::builder().parse(s).map_err(|e| e.to_string())
}
/// the same filter built up one directive at a time (EnvFilter::add_directive), starting from an empty one
fn env_added(s: &str) -> Option<EnvFilter> {
    let mut f = EnvFilter::builder().parse("").ok()?;
    for d in s.split(',').filter(|x| !x.trim().is_empty()) {
        f = f.add_directive(d.parse().ok()?);
    }
    Some(f)
}
fn stacks_env(s: &str, x: u64) -> Vec<(&'static str, Dispatch, RecLayer)> {
    use tracing_subscriber::filter::FilterExt;
    let r1 = RecLayer::default();
    let r2 = RecLayer::default();
    let r3 = RecLayer::default();
    let r4 = RecLayer::default();
    let r5 = RecLayer::default();
    let r6 = RecLayer::default();
    let r7 = RecLayer::default();
    let r8 = RecLayer::default();
    let r9 = RecLayer::default();
    type DynF = dyn tracing_subscriber::subscribe::Filter<tracing_subscriber::Registry> + Send + Sync;
    let r10 = RecLayer::default();
    let mut extra = vec![];
    if let Some(f) = env_added(s) {
        extra.push(("E-added", Dispatch::new(tracing_subscriber::registry().with(f).with(r10.clone())), r10));
    }
    // the same string parsed with regular expressions switched off: numbers and booleans are matched as before (only text
    // patterns change their meaning, and those strings are not compared)
    let texty = s.contains("=abc") || s.contains("=abd");
    // (every string is parsed that way - parsing must not panic; only the non-text ones are run and compared)
    let noregex = vh_common::catch(|| EnvFilter::builder().with_regex(false).parse(s).ok());
    if let Err(e) = &noregex {
        panic!("EnvFilter::builder().with_regex(false).parse({s:?}) panicked: {e}");
    }
    if let (false, Ok(Some(f))) = (texty, noregex) {
        let r11 = RecLayer::default();
        extra.push(("E-noregex", Dispatch::new(tracing_subscriber::registry().with(f).with(r11.clone())), r11));
    }
    let mut v = vec![
        // the per-layer filter type-erased: Box<dyn Filter> / Arc<dyn Filter> must forward every callback
        ("E-box", Dispatch::new(tracing_subscriber::registry().with(r7.clone().with_filter(Box::new(env(s).unwrap()) as Box<DynF>))), r7),
        ("E-arc", Dispatch::new(tracing_subscriber::registry().with(r8.clone().with_filter(std::sync::Arc::new(env(s).unwrap()) as std::sync::Arc<DynF>))), r8),
        // EnvFilter::new: the constructor with a default directive (`error`), which applies only to an EMPTY directive string
        ("E-new", Dispatch::new(tracing_subscriber::registry().with(EnvFilter::new(s)).with(r6.clone())), r6),
        ("E-global", Dispatch::new(tracing_subscriber::registry().with(env(s).unwrap()).with(r1.clone())), r1),
        ("E-plf", Dispatch::new(tracing_subscriber::registry().with(r2.clone().with_filter(env(s).unwrap()))), r2),
        // ... next to an unfiltered layer: the process-wide maximum level is TRACE, so the filter is asked about everything and
        // what it lets through is compared with the hint it publishes
        ("E-pair", Dispatch::new(tracing_subscriber::registry().with(r9.clone().with_filter(env(s).unwrap())).with(RecLayer::default())), r9),
        // the EnvFilter as an operand of the FilterExt combinators, next to a LevelFilter of rank x
        ("E-or1", Dispatch::new(tracing_subscriber::registry().with(r3.clone().with_filter(lf(x).or(env(s).unwrap())))), r3),
        ("E-or2", Dispatch::new(tracing_subscriber::registry().with(r4.clone().with_filter(env(s).unwrap().or(lf(x))))), r4),
        ("E-and", Dispatch::new(tracing_subscriber::registry().with(r5.clone().with_filter(lf(x).and(env(s).unwrap())))), r5),
    ];
    v.extend(extra);
    v
}

fn main() {
    vh_common::quiet_panics();
    let out = vh_common::TraceOut::from_env();
    let cases = vh_common::read_input();
    for (i, c) in cases.iter().enumerate() {
        // `idx`: the case's index in the check's case list when this process runs only a part of it
        let i = c["idx"].as_u64().map(|x| x as usize).unwrap_or(i);
        if i % 50 == 0 || c["idx"].is_u64() {
            out.emit(json!({"ev": "reset", "beh": i / 50}));
        }
        let s = c["s"].as_str().unwrap().to_string();
        let script: Vec<Value> = c["script"].as_array().unwrap().clone();
        let r = vh_common::catch(|| {
            let mut lines = vec![];
            let t: Result<Targets, String> = s.parse::<Targets>().map_err(|e| e.to_string());
            let e = env(&s);
            let mut case = json!({"ev": "case", "i": i, "s": s, "dirs": c["dirs"], "tv": c["tv"], "odd": c["odd"].as_bool().unwrap_or(false), "script": script, "t_ok": t.is_ok(), "e_ok": e.is_ok()});
            // every stack is built right before its script runs and dropped afterwards: no other dispatcher is alive then, so
            // nothing but the stack's own summaries (max-level hint, interests) decides what reaches it
            type Mk = Box<dyn FnOnce() -> Option<(Dispatch, RecLayer)>>;
            let mut runs: Vec<(String, Mk)> = vec![];
            let mut e_hint = 9u64;
            if let Ok(t) = &t {
                let mut would = vec![];
                for lvl in 1..=5u64 {
                    for tgt in TARGETS {
                        would.push(t.would_enable(tgt, &lvl_of(lvl)));
                    }
                }
                case["would"] = json!(would);
                let disp = t.to_string();
                case["t_disp"] = json!(disp);
                match disp.parse::<Targets>() {
                    Ok(t2) => {
                        case["t_rt"] = json!(if t2 == *t { "same" } else { "differs" });
                        case["t_rt_disp"] = json!(t2.to_string());
                        runs.push(("T-reparsed".into(), Box::new(move || stacks_targets(&t2).into_iter().find(|x| x.0 == "T-global").map(|x| (x.1, x.2)))));
                    }
                    Err(e) => case["t_rt"] = json!(format!("error: {e}")),
                }
                let names: Vec<&'static str> = stacks_targets(t).into_iter().map(|x| x.0).collect();
                for n in names {
                    let t3 = t.clone();
                    runs.push((n.into(), Box::new(move || stacks_targets(&t3).into_iter().find(|x| x.0 == n).map(|x| (x.1, x.2)))));
                }
            }
            if let Ok(e) = &e {
                let disp = e.to_string();
                case["e_disp"] = json!(disp);
                e_hint = vh_common::fbuild::hint_rank(e.max_level_hint());
                case["e_hint"] = json!(e_hint);
                match env(&disp) {
                    Ok(e2) => {
                        case["e_rt"] = json!("ok");
                        case["e_rt_disp"] = json!(e2.to_string());
                        let disp2 = disp.clone();
                        runs.push(("E-reparsed".into(), Box::new(move || {
                            let r = RecLayer::default();
                            env(&disp2).ok().map(|e3| (Dispatch::new(tracing_subscriber::registry().with(e3).with(r.clone())), r))
                        })));
                    }
                    Err(er) => case["e_rt"] = json!(format!("error: {er}")),
                }
                let x = c["x"].as_u64().unwrap_or(3);
                let names: Vec<&'static str> = stacks_env(&s, x).into_iter().map(|x| x.0).collect();
                for n in names {
                    let s3 = s.clone();
                    runs.push((n.into(), Box::new(move || stacks_env(&s3, x).into_iter().find(|y| y.0 == n).map(|y| (y.1, y.2)))));
                }
            }
            lines.push(case);
            // the replies of the plain global-layer stack: what the same directive set built another way must also answer
            let mut reference: Option<Vec<Value>> = None;
            for (n, mk) in runs {
                let (d, r) = match mk() {
                    Some(x) => x,
                    None => continue,
                };
                // the builders above create (and drop) the case's other stacks as well; dropping a collector does not recompute
                // the process-wide summaries, so recompute them now that only this stack is alive
                tracing_core::callsite::rebuild_interest_cache();
                let replies = run_script(&d, &r, &script);
                drop(d);
                if n == "E-global" {
                    reference = Some(replies.clone());
                }
                lines.push(json!({"ev": "start", "i": i, "cfg": n, "kind": if n.starts_with('T') { "targets" } else { "env" }, "dirs": c["dirs"], "tv": c["tv"],
                    "hint": if n == "E-pair" { e_hint } else { 9 },
                    "wrap": if n == "E-or1" || n == "E-or2" { "or" } else if n == "E-and" { "and" } else { "" }, "x": c["x"].as_u64().unwrap_or(3)}));
                for (k, (op, reply)) in script.iter().zip(replies).enumerate() {
                    let mut o = op.clone();
                    o["ev"] = json!("op");
                    o["i"] = json!(i);
                    o["cfg"] = json!(n);
                    o["reply"] = reply;
                    let texty = c["dirs"].as_array().map(|ds| ds.iter().any(|d| matches!(d["v"].as_str(), Some("abc") | Some("abd")))).unwrap_or(false);
                    if n == "E-added" || (n == "E-noregex" && !texty) {
                        if let Some(rf) = &reference {
                            o["same_as_parsed"] = json!(rf[k] == o["reply"]);
                        }
                    }
                    lines.push(o);
                }
            }
            lines
        });
        match r {
            Ok(lines) => {
                for l in lines {
                    out.emit(l);
                }
            }
            Err(e) => out.emit(json!({"ev": "case", "i": i, "s": s, "dirs": c["dirs"], "tv": c["tv"], "odd": false, "script": script, "t_ok": false, "e_ok": false, "panic": e})),
        }
    }
}
