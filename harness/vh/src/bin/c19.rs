//! C19 driver: evaluates every case of spec/Levels (written by TLC) with the real operators.
use serde_json::{json, Value};
use std::cmp::Ordering;
use std::str::FromStr;
use tracing_core::{collect::Interest, span, Collect, Event, Level, LevelFilter, Metadata};
use tracing_log::{AsLog, AsTrace};

fn level(r: u64) -> Level {
    match r {
        1 => Level::ERROR,
        2 => Level::WARN,
        3 => Level::INFO,
        4 => Level::DEBUG,
        5 => Level::TRACE,
        _ => panic!("bad level rank {r}"),
    }
}
fn filter(r: u64) -> LevelFilter {
    match r {
        0 => LevelFilter::OFF,
        1 => LevelFilter::ERROR,
        2 => LevelFilter::WARN,
        3 => LevelFilter::INFO,
        4 => LevelFilter::DEBUG,
        5 => LevelFilter::TRACE,
        _ => panic!("bad filter rank {r}"),
    }
}
// Ranks are recovered WITHOUT using the comparison operators under test: by exhaustive matching
// against the associated constants with `matches!`-style structural equality on Debug text.
fn rank_of_level(l: &Level) -> u64 {
    match format!("{:?}", l).as_str() {
        "Level(Error)" => 1,
        "Level(Warn)" => 2,
        "Level(Info)" => 3,
        "Level(Debug)" => 4,
        "Level(Trace)" => 5,
        s => panic!("unknown level debug text {s}"),
    }
}
fn rank_of_filter(f: &LevelFilter) -> u64 {
    match format!("{:?}", f).as_str() {
        "LevelFilter::OFF" => 0,
        "LevelFilter::ERROR" => 1,
        "LevelFilter::WARN" => 2,
        "LevelFilter::INFO" => 3,
        "LevelFilter::DEBUG" => 4,
        "LevelFilter::TRACE" => 5,
        s => panic!("unknown filter debug text {s}"),
    }
}
fn ord(o: Ordering) -> u64 {
    match o {
        Ordering::Less => 0,
        Ordering::Equal => 1,
        Ordering::Greater => 2,
    }
}
fn b(x: bool) -> u64 {
    x as u64
}

macro_rules! ops {
    ($a:expr, $b:expr, $op:expr) => {
        match $op {
            "eq" => b($a == $b),
            "ne" => b($a != $b),
            "lt" => b($a < $b),
            "le" => b($a <= $b),
            "gt" => b($a > $b),
            "ge" => b($a >= $b),
            "pcmp" => ord($a.partial_cmp(&$b).expect("partial_cmp returned None")),
            o => panic!("op {o}"),
        }
    };
}

fn eval_cmp(c: &Value) -> Value {
    let (lk, rk) = (c["lk"].as_str().unwrap(), c["rk"].as_str().unwrap());
    let (l, r) = (c["l"].as_u64().unwrap(), c["r"].as_u64().unwrap());
    let op = c["op"].as_str().unwrap();
    let res = match (lk, rk, op) {
        ("L", "L", "cmp") => ord(level(l).cmp(&level(r))),
        ("F", "F", "cmp") => ord(filter(l).cmp(&filter(r))),
        ("L", "L", "min") => rank_of_level(&std::cmp::min(level(l), level(r))),
        ("L", "L", "max") => rank_of_level(&std::cmp::max(level(l), level(r))),
        ("F", "F", "min") => rank_of_filter(&std::cmp::min(filter(l), filter(r))),
        ("F", "F", "max") => rank_of_filter(&std::cmp::max(filter(l), filter(r))),
        ("L", "F", "enabled") => {
            // 'level enabled by filter': the idiom used all over the code base, both spellings
            let x = level(l) <= filter(r);
            let y = filter(r) >= level(l);
            let z = &filter(r) >= &level(l);
            if x != y || y != z {
                return json!(-1);
            }
            b(x)
        }
        ("L", "L", _) => ops!(level(l), level(r), op),
        ("L", "F", _) => ops!(level(l), filter(r), op),
        ("F", "L", _) => ops!(filter(l), level(r), op),
        ("F", "F", _) => ops!(filter(l), filter(r), op),
        _ => panic!("kinds"),
    };
    json!(res)
}

fn chars_to_string(v: &Value) -> String {
    v.as_array().map(|a| a.iter().map(|c| c.as_str().unwrap()).collect::<String>()).unwrap_or_default()
}

fn eval_parse(c: &Value) -> Value {
    let s = chars_to_string(&c["s"]);
    match c["ty"].as_str().unwrap() {
        "L" => match Level::from_str(&s) {
            Ok(l) => json!(rank_of_level(&l)),
            Err(_) => json!(99),
        },
        _ => match LevelFilter::from_str(&s) {
            Ok(f) => json!(rank_of_filter(&f)),
            Err(_) => json!(99),
        },
    }
}

fn eval_print(c: &Value) -> Value {
    let v = c["v"].as_u64().unwrap();
    let s = match c["ty"].as_str().unwrap() {
        "L" => format!("{}", level(v)),
        _ => format!("{}", filter(v)),
    };
    json!(s.chars().map(|c| c.to_string()).collect::<Vec<_>>())
}

fn log_level(r: u64) -> log::Level {
    match r {
        1 => log::Level::Error,
        2 => log::Level::Warn,
        3 => log::Level::Info,
        4 => log::Level::Debug,
        5 => log::Level::Trace,
        _ => panic!(),
    }
}
fn log_filter(r: u64) -> log::LevelFilter {
    match r {
        0 => log::LevelFilter::Off,
        1 => log::LevelFilter::Error,
        2 => log::LevelFilter::Warn,
        3 => log::LevelFilter::Info,
        4 => log::LevelFilter::Debug,
        5 => log::LevelFilter::Trace,
        _ => panic!(),
    }
}

fn eval_conv(c: &Value) -> Value {
    let v = c["v"].as_u64().unwrap();
    let r = match c["f"].as_str().unwrap() {
        "from_level" => {
            let a = rank_of_filter(&LevelFilter::from_level(level(v)));
            let b2 = rank_of_filter(&LevelFilter::from(level(v)));
            if a != b2 {
                return json!(-1);
            }
            a
        }
        "into_level" => filter(v).into_level().map(|l| rank_of_level(&l)).unwrap_or(0),
        "from_option" => {
            let o = if v == 0 { None } else { Some(level(v)) };
            rank_of_filter(&LevelFilter::from(o))
        }
        "as_log_level" => level(v).as_log() as u64, // log::Level: Error = 1 .. Trace = 5
        "as_trace_level" => rank_of_level(&log_level(v).as_trace()),
        "as_log_filter" => filter(v).as_log() as u64, // log::LevelFilter: Off = 0 .. Trace = 5
        "as_trace_filter" => rank_of_filter(&log_filter(v).as_trace()),
        f => panic!("conv {f}"),
    };
    json!(r)
}

// metadata of each level, for asking a LevelFilter layer directly
struct NoCs;
impl tracing_core::Callsite for NoCs {
    fn set_interest(&self, _: Interest) {}
    fn metadata(&self) -> &Metadata<'_> {
        &METAS[0]
    }
}
static NOCS: NoCs = NoCs;
macro_rules! meta_at {
    ($lvl:expr) => {
        Metadata::new("probe", "c19", $lvl, None, None, None, tracing_core::field::FieldSet::new(&[], tracing_core::identify_callsite!(&NOCS)), tracing_core::metadata::Kind::EVENT)
    };
}
static METAS: [Metadata<'static>; 5] = [meta_at!(Level::ERROR), meta_at!(Level::WARN), meta_at!(Level::INFO), meta_at!(Level::DEBUG), meta_at!(Level::TRACE)];

/// tracing-subscriber's LevelFilter as a layer on a Registry: what the stack answers for metadata of level `l`
fn eval_layer(c: &Value) -> Value {
    use tracing_subscriber::prelude::*;
    let (l, f) = (c["l"].as_u64().unwrap(), c["f"].as_u64().unwrap());
    let stack = tracing_subscriber::registry().with(filter(f));
    let meta: &'static Metadata<'static> = &METAS[(l - 1) as usize];
    match c["q"].as_str().unwrap() {
        "enabled" => json!(b(Collect::enabled(&stack, meta))),
        "interest" => {
            let i = Collect::register_callsite(&stack, meta);
            json!(if i.is_never() { 0 } else if i.is_always() { 2 } else { 1 })
        }
        _ => json!(stack.max_level_hint().map(|h| rank_of_filter(&h) as i64).unwrap_or(-1)),
    }
}

struct Hinted(Option<LevelFilter>);
impl Collect for Hinted {
    fn register_callsite(&self, _: &'static Metadata<'static>) -> Interest {
        Interest::sometimes()
    }
    fn enabled(&self, _: &Metadata<'_>) -> bool {
        true
    }
    fn max_level_hint(&self) -> Option<LevelFilter> {
        self.0
    }
    fn new_span(&self, _: &span::Attributes<'_>) -> span::Id {
        span::Id::from_u64(1)
    }
    fn record(&self, _: &span::Id, _: &span::Record<'_>) {}
    fn record_follows_from(&self, _: &span::Id, _: &span::Id) {}
    fn event(&self, _: &Event<'_>) {}
    fn enter(&self, _: &span::Id) {}
    fn exit(&self, _: &span::Id) {}
    fn current_span(&self) -> tracing_core::span::Current {
        tracing_core::span::Current::unknown()
    }
}

/// child process: publish the hint through a real collector, read the global maximum back
fn setmax_child(v: u64, via: &str) {
    use tracing_subscriber::prelude::*;
    let before = rank_of_filter(&LevelFilter::current());
    let d = match via {
        "layer" => tracing_core::Dispatch::new(tracing_subscriber::registry().with(filter(v))),
        "fmt" => tracing_core::Dispatch::new(tracing_subscriber::fmt().with_max_level(filter(v)).with_writer(std::io::sink).finish()),
        // the collector behind the provided wrappers (their own forwarding of max_level_hint)
        "arc" => tracing_core::Dispatch::new(std::sync::Arc::new(Hinted(Some(filter(v))))),
        "box" => tracing_core::Dispatch::new(Box::new(Hinted(Some(filter(v)))) as Box<dyn Collect + Send + Sync>),
        _ => tracing_core::Dispatch::new(Hinted(Some(filter(v)))),
    };
    let after = rank_of_filter(&LevelFilter::current());
    // the tracing crate's re-exported view of the same value
    let after2 = rank_of_filter(&tracing::level_filters::LevelFilter::current());
    drop(d);
    println!("{} {} {}", before, after, after2);
}

/// child process: publish `w` through one collector, then replace it by a collector publishing `v`
fn setmax2_child(w: u64, v: u64) {
    let before = rank_of_filter(&LevelFilter::current());
    let d1 = tracing_core::Dispatch::new(Hinted(Some(filter(w))));
    let mid = rank_of_filter(&LevelFilter::current());
    drop(d1);
    let d2 = tracing_core::Dispatch::new(Hinted(Some(filter(v))));
    let after = rank_of_filter(&LevelFilter::current());
    let after2 = rank_of_filter(&tracing::level_filters::LevelFilter::current());
    drop(d2);
    // `mid` must be w; fold that into the report: a wrong intermediate value makes the line inconsistent
    println!("{} {} {}", before, after, if mid == w { after2 } else { 77 });
}

/// child process: two collectors alive at once (9 = no hint); what the global maximum reads afterwards
fn setmaxlive_child(w: u64, v: u64) {
    let h = |x: u64| if x == 9 { None } else { Some(filter(x)) };
    let before = rank_of_filter(&LevelFilter::current());
    let d1 = tracing_core::Dispatch::new(Hinted(h(w)));
    let d2 = tracing_core::Dispatch::new(Hinted(h(v)));
    let after = rank_of_filter(&LevelFilter::current());
    let after2 = rank_of_filter(&tracing::level_filters::LevelFilter::current());
    drop((d1, d2));
    println!("{} {} {}", before, after, after2);
}

fn eval_setmax(c: &Value) -> Value {
    let v = c["v"].as_u64().unwrap();
    let exe = std::env::current_exe().unwrap();
    let mut cmd = std::process::Command::new(exe);
    if c["k"] == "setmaxlive" {
        cmd.arg("setmaxlive").arg(c["w"].as_u64().unwrap().to_string()).arg(v.to_string());
    } else if c["k"] == "setmax2" {
        cmd.arg("setmax2").arg(c["w"].as_u64().unwrap().to_string()).arg(v.to_string());
    } else {
        cmd.arg("setmax").arg(v.to_string()).arg(c["via"].as_str().unwrap_or("collector"));
    }
    let out = cmd.output().unwrap();
    let s = String::from_utf8_lossy(&out.stdout);
    let f: Vec<u64> = s.split_whitespace().filter_map(|x| x.parse().ok()).collect();
    if !out.status.success() || f.len() != 3 {
        return json!(-2);
    }
    if f[0] != 0 || f[1] != f[2] {
        return json!(-1);
    }
    json!(f[1])
}

fn main() {
    let args: Vec<String> = std::env::args().collect();
    if args.len() == 4 && args[1] == "setmax" {
        setmax_child(args[2].parse().unwrap(), &args[3]);
        return;
    }
    if args.len() == 4 && args[1] == "setmaxlive" {
        setmaxlive_child(args[2].parse().unwrap(), args[3].parse().unwrap());
        return;
    }
    if args.len() == 4 && args[1] == "setmax2" {
        setmax2_child(args[2].parse().unwrap(), args[3].parse().unwrap());
        return;
    }
    vh_common::quiet_panics();
    let out = vh_common::TraceOut::from_env();
    for line in vh_common::read_input() {
        let c = &line["c"];
        let res = vh_common::catch(|| match c["k"].as_str().unwrap() {
            "cmp" => eval_cmp(c),
            "parse" => eval_parse(c),
            "print" => eval_print(c),
            "conv" => eval_conv(c),
            "setmax" | "setmax2" | "setmaxlive" => eval_setmax(c),
            "layer" => eval_layer(c),
            k => panic!("kind {k}"),
        })
        .unwrap_or_else(|_| if c["k"] == "print" { json!(["!"]) } else { json!(-2) });
        out.emit(json!({"c": c, "dev": line["dev"], "res": res}));
    }
}
