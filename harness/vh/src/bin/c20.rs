//! C20 driver: formats instants with the real `SystemTime::format_time` (clock hook) and logs the
//! instant in split form next to the parsed fields of the printed text (spec/Calendar).
use serde_json::{json, Value};
use std::time::{Duration, SystemTime, UNIX_EPOCH};
use tracing_subscriber::fmt::format::Writer;
use tracing_subscriber::fmt::time::{verif, FormatTime, SystemTime as Timer};

const DAYS_PER_CYCLE: i128 = 146_097;
/// days from 0001-01-01 to 1970-01-01
const EPOCH_DAY: i128 = 719_162;

fn instant(secs: i64, ns: u32) -> Option<SystemTime> {
    if secs >= 0 {
        UNIX_EPOCH.checked_add(Duration::new(secs as u64, ns))
    } else {
        UNIX_EPOCH.checked_sub(Duration::new(secs.unsigned_abs(), 0))?.checked_add(Duration::new(0, ns))
    }
}

fn print(t: SystemTime) -> Result<String, String> {
    vh_common::catch(|| {
        verif::set_clock(Some(t));
        let mut s = String::new();
        let r = Timer.format_time(&mut Writer::new(&mut s));
        verif::set_clock(None);
        r.map(|_| s)
    })
    .and_then(|r| r.map_err(|_| "fmt::Error".to_string()))
}

/// strict parse of  [+|-]Y{4,}-MM-DDTHH:MM:SS.ffffffZ  -> (year, mo, d, h, mi, s, us)
fn parse(s: &str) -> Option<(i128, u32, u32, u32, u32, u32, u32)> {
    let b = s.as_bytes();
    let (sign, rest) = match b.first()? {
        b'+' => (1i128, &s[1..]),
        b'-' => (-1i128, &s[1..]),
        _ => (1i128, s),
    };
    let ydigits = rest.bytes().take_while(|c| c.is_ascii_digit()).count();
    if ydigits < 4 {
        return None;
    }
    // a '+' is required exactly when the year has more than 4 digits; no superfluous leading zeros beyond 4 digits
    if s.starts_with('+') != (ydigits > 4 && sign > 0) {
        return None;
    }
    if ydigits > 4 && rest.starts_with('0') {
        return None;
    }
    let year: i128 = sign * rest[..ydigits].parse::<i128>().ok()?;
    let t = &rest[ydigits..];
    let tb = t.as_bytes();
    if tb.len() != 23 {
        return None;
    }
    let lit = |i: usize, c: u8| tb[i] == c;
    if !(lit(0, b'-') && lit(3, b'-') && lit(6, b'T') && lit(9, b':') && lit(12, b':') && lit(15, b'.') && lit(22, b'Z')) {
        return None;
    }
    let num = |a: usize, z: usize| -> Option<u32> {
        if t[a..z].bytes().all(|c| c.is_ascii_digit()) {
            t[a..z].parse().ok()
        } else {
            None
        }
    };
    Some((year, num(1, 3)?, num(4, 6)?, num(7, 9)?, num(10, 12)?, num(13, 15)?, num(16, 22)?))
}

fn record(out: &vh_common::TraceOut, secs: i64, ns: u32) {
    // trusted split (i128): days since 0001-01-01, second of day, 400-year cycle
    let days = (secs as i128).div_euclid(86_400) + EPOCH_DAY;
    let sod = (secs as i128).rem_euclid(86_400);
    let (cyc, dic) = (days.div_euclid(DAYS_PER_CYCLE), days.rem_euclid(DAYS_PER_CYCLE));
    let mut r = json!({"ev": "ts", "cyc": cyc as i64, "dic": dic as i64, "sod": sod as i64, "ns": ns,
                       "secs": secs.to_string()});
    let t = match instant(secs, ns) {
        Some(t) => t,
        None => return, // not representable by SystemTime: outside the property's domain
    };
    match print(t) {
        Ok(s) => match parse(&s) {
            Some((y, mo, d, h, mi, sec, us)) => {
                r["wf"] = json!(true);
                r["yc"] = json!((y - 1).div_euclid(400) as i64);
                r["yy"] = json!(((y - 1).rem_euclid(400) + 1) as i64);
                r["mo"] = json!(mo);
                r["d"] = json!(d);
                r["h"] = json!(h);
                r["mi"] = json!(mi);
                r["s"] = json!(sec);
                r["us"] = json!(us);
                r["text"] = json!(s);
            }
            None => {
                r["wf"] = json!(false);
                r["text"] = json!(s);
            }
        },
        Err(e) => {
            r["wf"] = json!(false);
            r["panic"] = json!(e);
        }
    }
    if r["wf"] == json!(false) {
        for k in ["yc", "yy", "mo", "d", "h", "mi", "s", "us"] {
            r[k] = json!(0);
        }
    }
    out.emit(r);
}

fn secs_of(cyc: i64, dic: i64, sod: i64) -> Option<i64> {
    let days = cyc as i128 * DAYS_PER_CYCLE + dic as i128 - EPOCH_DAY;
    i64::try_from(days * 86_400 + sod as i128).ok()
}

fn main() {
    vh_common::quiet_panics();
    let out = vh_common::TraceOut::from_env();
    for (ji, job) in vh_common::read_input().into_iter().enumerate() {
        out.emit(json!({"ev": "reset", "wf": true, "beh": ji, "job": job["kind"]}));
        match job["kind"].as_str().unwrap() {
            // every day dic in [from, to] of cycle cyc, at the given (sod, ns) pairs
            "days" => {
                let cyc = job["cyc"].as_i64().unwrap();
                let times: Vec<(i64, u32)> = job["times"].as_array().unwrap().iter().map(|p| (p[0].as_i64().unwrap(), p[1].as_u64().unwrap() as u32)).collect();
                let rot = job["rotate"].as_bool().unwrap_or(false);
                for dic in job["from"].as_i64().unwrap()..=job["to"].as_i64().unwrap() {
                    if rot {
                        let (sod, ns) = times[(dic as usize) % times.len()];
                        if let Some(s) = secs_of(cyc, dic, sod) {
                            record(&out, s, ns);
                        }
                    } else {
                        for (sod, ns) in &times {
                            if let Some(s) = secs_of(cyc, dic, *sod) {
                                record(&out, s, *ns);
                            }
                        }
                    }
                }
            }
            // every second in [center - before, center + after] where center = midnight starting day (cyc, dic)
            "window" => {
                let (cyc, dic) = (job["cyc"].as_i64().unwrap(), job["dic"].as_i64().unwrap());
                let (before, after) = (job["before"].as_i64().unwrap(), job["after"].as_i64().unwrap());
                let nss: Vec<u32> = job["ns"].as_array().unwrap().iter().map(|x| x.as_u64().unwrap() as u32).collect();
                if let Some(c) = secs_of(cyc, dic, 0) {
                    for s in (c - before)..=(c + after) {
                        for ns in &nss {
                            record(&out, s, *ns);
                        }
                    }
                }
            }
            // explicit instants: [[secs as string, ns], ...], ascending
            "instants" => {
                for p in job["list"].as_array().unwrap() {
                    record(&out, p[0].as_str().unwrap().parse().unwrap(), p[1].as_u64().unwrap() as u32);
                }
            }
            k => panic!("job kind {k}"),
        }
    }
}
