//! C15 driver (spec/NonBlocking): runs producers against a real `tracing_appender::non_blocking`
//! writer over a scripted underlying writer (gate, injected write/flush errors, short writes, drop
//! notification) and logs one totally ordered event per producer call / underlying-writer call.
use serde_json::{json, Value};
use std::io::{self, Write};
use std::sync::atomic::{AtomicBool, AtomicUsize, Ordering};
use std::sync::mpsc::{channel, Sender};
use std::sync::{Arc, Condvar, Mutex};
use std::time::{Duration, Instant};
use tracing_appender::non_blocking::NonBlockingBuilder;
use vh_common::runner;

#[derive(Clone)]
struct Log(Arc<Mutex<Vec<Value>>>);
impl Log {
    fn push(&self, v: Value) {
        self.0.lock().unwrap().push(v);
    }
    /// an event that carries a reading of shared state (the dropped-lines counter): the reading is taken while the log is locked,
    /// so that its place in the log is the moment of the reading (a thread descheduled between reading and pushing would
    /// otherwise log a stale value behind later events)
    fn push_with(&self, f: impl FnOnce() -> Value) {
        let mut g = self.0.lock().unwrap();
        let v = f();
        g.push(v);
    }
}

struct Gate {
    open: Mutex<bool>,
    cv: Condvar,
}

struct Under {
    log: Log,
    gate: Arc<Gate>,
    wfail: Vec<usize>,
    errkind: io::ErrorKind,
    ffail: Vec<usize>,
    short: usize, // max bytes accepted per write call (0 = unlimited)
    /// continuation calls (a `write` in the middle of a line, after a short write) that fail with WouldBlock: the line is torn
    midfail: Vec<usize>,
    midcalls: usize,
    cur: Option<(u64, u64)>,
    wcalls: usize,
    fcalls: usize,
    pending: Vec<u8>,
    attempts: Arc<AtomicUsize>,
    bulk: bool,
    bulk_lines: Arc<AtomicUsize>,
    bulk_partial: Arc<AtomicUsize>,
}
fn parse_line(b: &[u8]) -> Option<(u64, u64)> {
    let s = std::str::from_utf8(b).ok()?;
    let s = s.strip_suffix('\n')?;
    let (p, i) = s.strip_prefix('p')?.split_once("-l")?;
    let i = i.split('-').next()?;
    Some((p.parse().ok()?, i.parse().ok()?))
}
impl Write for Under {
    fn write(&mut self, buf: &[u8]) -> io::Result<usize> {
        {
            let mut o = self.gate.open.lock().unwrap();
            while !*o {
                o = self.gate.cv.wait(o).unwrap();
            }
        }
        if self.bulk {
            // no per-line events: count complete lines and torn ones
            for &b in buf {
                if self.pending.is_empty() && b != b'p' {
                    self.bulk_partial.fetch_add(1, Ordering::SeqCst);
                }
                self.pending.push(b);
                if b == b'\n' {
                    if parse_line(&self.pending).is_some() {
                        self.bulk_lines.fetch_add(1, Ordering::SeqCst);
                    } else {
                        self.bulk_partial.fetch_add(1, Ordering::SeqCst);
                    }
                    self.attempts.fetch_add(1, Ordering::SeqCst);
                    self.pending.clear();
                }
            }
            return Ok(buf.len());
        }
        // a call that begins a new line counts as one attempt on that line
        let begins = self.pending.is_empty();
        if !begins {
            self.midcalls += 1;
            if self.midfail.contains(&self.midcalls) {
                // the rest of this line is refused: a failed attempt of that line (the bytes already taken stay where they are)
                let id = self.cur;
                self.log.push(json!({"ev": "w.fail", "p": id.map(|x| x.0).unwrap_or(0), "i": id.map(|x| x.1).unwrap_or(0), "mid": true}));
                self.attempts.fetch_add(1, Ordering::SeqCst);
                self.pending.clear();
                return Err(io::Error::new(io::ErrorKind::WouldBlock, "injected: would block"));
            }
        }
        if begins {
            self.cur = parse_line(buf);
            self.wcalls += 1;
            if self.wfail.contains(&self.wcalls) {
                // identify the line from the full buffer the worker handed us (write_all passes the whole line first)
                let id = parse_line(buf);
                self.log.push(json!({"ev": "w.fail", "p": id.map(|x| x.0).unwrap_or(0), "i": id.map(|x| x.1).unwrap_or(0)}));
                self.attempts.fetch_add(1, Ordering::SeqCst);
                return Err(io::Error::new(self.errkind, "injected write error"));
            }
        }
        let n = if self.short > 0 { buf.len().min(self.short) } else { buf.len() };
        for &b in &buf[..n] {
            if self.pending.is_empty() && b != b'p' {
                // bytes that do not start a line: a torn line
                self.log.push(json!({"ev": "w.partial", "bytes": String::from_utf8_lossy(&buf[..n])}));
                self.attempts.fetch_add(1, Ordering::SeqCst);
                return Ok(n);
            }
            self.pending.push(b);
            if b == b'\n' {
                match parse_line(&self.pending) {
                    Some((p, i)) => self.log.push(json!({"ev": "w.line", "p": p, "i": i})),
                    None => self.log.push(json!({"ev": "w.partial", "bytes": String::from_utf8_lossy(&self.pending)})),
                }
                self.attempts.fetch_add(1, Ordering::SeqCst);
                self.pending.clear();
            }
        }
        Ok(n)
    }
    fn flush(&mut self) -> io::Result<()> {
        if self.bulk {
            return Ok(());
        }
        self.fcalls += 1;
        if !self.pending.is_empty() {
            self.log.push(json!({"ev": "w.partial", "bytes": String::from_utf8_lossy(&self.pending)}));
            self.pending.clear();
        }
        if self.ffail.contains(&self.fcalls) {
            self.log.push(json!({"ev": "w.flush", "ok": false}));
            return Err(io::Error::new(io::ErrorKind::Other, "injected flush error"));
        }
        self.log.push(json!({"ev": "w.flush", "ok": true}));
        Ok(())
    }
}
impl Drop for Under {
    fn drop(&mut self) {
        self.log.push(json!({"ev": "w.drop"}));
    }
}

fn child() {
    let sc = runner::child_input();
    let log = Log(Arc::new(Mutex::new(vec![])));
    let gate = Arc::new(Gate { open: Mutex::new(true), cv: Condvar::new() });
    let attempts = Arc::new(AtomicUsize::new(0));
    let bulk = sc["bulk"].as_bool().unwrap_or(false);
    let bulk_lines = Arc::new(AtomicUsize::new(0));
    let bulk_partial = Arc::new(AtomicUsize::new(0));
    let idx = |k: &str| -> Vec<usize> { sc[k].as_array().map(|a| a.iter().map(|x| x.as_u64().unwrap() as usize).collect()).unwrap_or_default() };
    let under = Under {
        log: log.clone(),
        gate: gate.clone(),
        wfail: idx("wfail"),
        errkind: match sc["errkind"].as_str().unwrap_or("other") {
            "broken_pipe" => io::ErrorKind::BrokenPipe,
            "connection_reset" => io::ErrorKind::ConnectionReset,
            "permission_denied" => io::ErrorKind::PermissionDenied,
            "timed_out" => io::ErrorKind::TimedOut,
            "unexpected_eof" => io::ErrorKind::UnexpectedEof,
            _ => io::ErrorKind::Other,
        },
        ffail: idx("ffail"),
        short: sc["short"].as_u64().unwrap_or(0) as usize,
        midfail: idx("midfail"),
        midcalls: 0,
        cur: None,
        wcalls: 0,
        fcalls: 0,
        pending: vec![],
        attempts: attempts.clone(),
        bulk,
        bulk_lines: bulk_lines.clone(),
        bulk_partial: bulk_partial.clone(),
    };
    let lossy = sc["lossy"].as_bool().unwrap();
    // the other constructors use the defaults (lossy, 128 000 lines): NonBlocking::new and tracing_appender::non_blocking
    let (nb, guard) = match sc["ctor"].as_str().unwrap_or("builder") {
        "new" => tracing_appender::non_blocking::NonBlocking::new(under),
        "fn" => tracing_appender::non_blocking(under),
        _ => {
            // the builder's setters in the order the scenario names (each must keep what was set before)
            let mut b = NonBlockingBuilder::default();
            let order: Vec<String> = sc["builder_order"].as_array().map(|a| a.iter().map(|x| x.as_str().unwrap().to_string()).collect()).unwrap_or_else(|| vec!["limit".into(), "lossy".into()]);
            for o in &order {
                b = match o.as_str() {
                    "limit" => b.buffered_lines_limit(sc["k"].as_u64().unwrap() as usize),
                    "lossy" => b.lossy(lossy),
                    _ => b.thread_name("vh-appender-worker"),
                };
            }
            b.finish(under)
        }
    };
    let via_make_writer = sc["make_writer"].as_bool().unwrap_or(false);
    let use_write_all = sc["write_all"].as_bool().unwrap_or(false);
    let counter = nb.error_counter();
    let nprod = sc["producers"].as_u64().unwrap();
    let mut txs: Vec<Sender<u64>> = vec![];
    let mut hs = vec![];
    let done = Arc::new(AtomicUsize::new(0));
    let asked = Arc::new(AtomicUsize::new(0));
    let stop = Arc::new(AtomicBool::new(false));
    for p in 1..=nprod {
        let (tx, rx) = channel::<u64>();
        txs.push(tx);
        // a producer's handle: a clone, or what the MakeWriter impl hands out
        let mut w = if via_make_writer { tracing_subscriber::fmt::MakeWriter::make_writer(&nb) } else { nb.clone() };
        let (log, done) = (log.clone(), done.clone());
        hs.push(std::thread::spawn(move || {
            let mut i = 0u64;
            while let Ok(n) = rx.recv() {
                for _ in 0..n {
                    i += 1;
                    let line = format!("p{}-l{}-{}\n", p, i, "x".repeat((i % 5) as usize * 3));
                    if bulk {
                        let _ = w.write(line.as_bytes());
                        done.fetch_add(1, Ordering::SeqCst);
                        continue;
                    }
                    log.push(json!({"ev": "write.start", "p": p, "i": i}));
                    let ok = if use_write_all { w.write_all(line.as_bytes()).is_ok() } else { matches!(w.write(line.as_bytes()), Ok(n) if n == line.len()) };
                    log.push(json!({"ev": "write.end", "p": p, "i": i, "ok": ok}));
                    done.fetch_add(1, Ordering::SeqCst);
                }
            }
        }));
    }
    drop(nb);
    let mut guard = Some(guard);
    let mut gh: Option<std::thread::JoinHandle<()>> = None;
    let wait_until = |f: &dyn Fn() -> bool, ms: u64| {
        let t0 = Instant::now();
        while !f() && t0.elapsed() < Duration::from_millis(ms) {
            std::thread::sleep(Duration::from_millis(1));
        }
        f()
    };
    for st in sc["script"].as_array().unwrap() {
        match st["do"].as_str().unwrap() {
            "gate" => {
                *gate.open.lock().unwrap() = st["open"].as_bool().unwrap();
                gate.cv.notify_all();
            }
            "offer" => {
                let n = st["n"].as_u64().unwrap();
                asked.fetch_add(n as usize, Ordering::SeqCst);
                txs[(st["p"].as_u64().unwrap() - 1) as usize].send(n).unwrap();
            }
            "wait_producers" => {
                let (a, d) = (asked.clone(), done.clone());
                let ok = wait_until(&|| d.load(Ordering::SeqCst) >= a.load(Ordering::SeqCst), 3000);
                if !ok {
                    log.push(json!({"ev": "stall", "what": "producers"}));
                }
            }
            "wait_producers_long" => {
                let (a, d) = (asked.clone(), done.clone());
                if !wait_until(&|| d.load(Ordering::SeqCst) >= a.load(Ordering::SeqCst), 60000) {
                    log.push(json!({"ev": "stall", "what": "producers"}));
                }
            }
            "wait_idle" => {
                // the worker has caught up when the number of attempts stops growing
                let mut last = usize::MAX;
                for _ in 0..200 {
                    let a = attempts.load(Ordering::SeqCst);
                    if a == last {
                        break;
                    }
                    last = a;
                    std::thread::sleep(Duration::from_millis(8));
                }
            }
            "sleep" => std::thread::sleep(Duration::from_millis(st["ms"].as_u64().unwrap())),
            "drop_guard" => {
                log.push_with(|| json!({"ev": "guard.drop.start", "dropped": counter.dropped_lines()}));
                let t0 = Instant::now();
                drop(guard.take());
                log.push(json!({"ev": "guard.drop.end", "ms": t0.elapsed().as_millis() as u64}));
            }
            "drop_guard_unwind" => {
                log.push_with(|| json!({"ev": "guard.drop.start", "dropped": counter.dropped_lines()}));
                let t0 = Instant::now();
                let g = guard.take();
                let r = std::panic::catch_unwind(std::panic::AssertUnwindSafe(move || {
                    let _owner = g;
                    panic!("unwinding through the owner of the worker guard");
                }));
                assert!(r.is_err());
                log.push(json!({"ev": "guard.drop.end", "ms": t0.elapsed().as_millis() as u64}));
            }
            "drop_guard_async" => {
                let g = guard.take();
                let log = log.clone();
                let c = counter.clone();
                gh = Some(std::thread::spawn(move || {
                    log.push_with(|| json!({"ev": "guard.drop.start", "dropped": c.dropped_lines()}));
                    let t0 = Instant::now();
                    drop(g);
                    log.push(json!({"ev": "guard.drop.end", "ms": t0.elapsed().as_millis() as u64}));
                }));
            }
            d => panic!("script step {d}"),
        }
    }
    drop(txs);
    for h in hs {
        let _ = h.join();
    }
    if let Some(h) = gh {
        let _ = h.join();
    }
    if guard.is_some() {
        log.push_with(|| json!({"ev": "guard.drop.start", "dropped": counter.dropped_lines()}));
        drop(guard.take());
        log.push(json!({"ev": "guard.drop.end", "ms": 0}));
    }
    stop.store(true, Ordering::SeqCst);
    if bulk {
        let offered = asked.load(Ordering::SeqCst);
        log.0.lock().unwrap().retain(|v| v["ev"] != "guard.drop.start" && v["ev"] != "guard.drop.end" && v["ev"] != "w.drop");
        log.push(json!({"ev": "bulk.final", "offered": offered, "written": bulk_lines.load(Ordering::SeqCst), "partial": bulk_partial.load(Ordering::SeqCst),
            "dropped": counter.dropped_lines()}));
    } else {
        log.push_with(|| json!({"ev": "final", "dropped": counter.dropped_lines()}));
    }
    for v in log.0.lock().unwrap().iter() {
        runner::child_emit(v.clone());
    }
}

fn main() {
    if runner::is_child() {
        child();
    } else {
        runner::run_all(|i, b| json!({"ev": "reset", "beh": i, "lossy": b["lossy"], "k": b["k"], "producers": b["producers"]}));
    }
}
