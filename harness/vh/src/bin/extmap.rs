//! Driver for spec/Extensions (the "stored data" clause of C05): histories of span creation / close and insert, replace,
//! remove, get on the spans' type maps, executed on a real `Registry` through `LookupSpan`; every operation reports what it
//! returned, which stored values were dropped while it ran and - for a new span - which types it found present.
use serde_json::{json, Value};
use std::collections::HashMap;
use std::sync::{Arc, Mutex};
use tracing_core::{dispatch, Dispatch};
use tracing_subscriber::registry::{LookupSpan, Registry, SpanData};
use tracing_subscriber::subscribe::{CollectExt, Subscribe};
use vh_common::runner;

/// a stored value: its id, and a log that learns when it is dropped
struct Val<const T: u8>(u64, Arc<Mutex<Vec<u64>>>);
impl<const T: u8> Drop for Val<T> {
    fn drop(&mut self) {
        self.1.lock().unwrap().push(self.0);
    }
}
struct Nop;
impl<C: tracing_core::Collect> Subscribe<C> for Nop {}

fn child() {
    vh_common::quiet_panics();
    let beh = runner::child_input();
    let drops: Arc<Mutex<Vec<u64>>> = Arc::new(Mutex::new(vec![]));
    let d = Dispatch::new(Registry::default().with(Nop));
    let reg: &Registry = d.downcast_ref::<Registry>().expect("registry");
    let mut spans: HashMap<u64, tracing::Span> = HashMap::new();
    let (mut n, mut nextv) = (0u64, 1u64);
    dispatch::with_default(&d, || {
        for step in beh["steps"].as_array().unwrap() {
            let (op, s, ty) = (step["op"].as_str().unwrap(), step["s"].as_u64().unwrap(), step["ty"].as_u64().unwrap());
            drops.lock().unwrap().clear();
            let mut present: Vec<u64> = vec![];
            macro_rules! typed {
                ($f:ident) => {
                    match ty {
                        1 => $f!(1),
                        2 => $f!(2),
                        _ => $f!(3),
                    }
                };
            }
            let r = vh_common::catch(|| -> u64 {
                match op {
                    "new" => {
                        n += 1;
                        let sp = tracing::span!(tracing::Level::INFO, "x");
                        let data = reg.span_data(&sp.id().expect("disabled span")).expect("new span not in the registry");
                        {
                            let e = data.extensions();
                            if e.get::<Val<1>>().is_some() {
                                present.push(1);
                            }
                            if e.get::<Val<2>>().is_some() {
                                present.push(2);
                            }
                            if e.get::<Val<3>>().is_some() {
                                present.push(3);
                            }
                        }
                        drop(data);
                        spans.insert(n, sp);
                        n
                    }
                    "close" => {
                        drop(spans.remove(&s));
                        0
                    }
                    _ => {
                        let id = spans[&s].id().expect("disabled span");
                        let data = reg.span_data(&id).expect("span not in the registry");
                        match op {
                            "insert" => {
                                let v = nextv;
                                nextv += 1;
                                macro_rules! ins {
                                    ($t:literal) => {
                                        data.extensions_mut().insert(Val::<$t>(v, drops.clone()))
                                    };
                                }
                                typed!(ins);
                                v
                            }
                            "replace" => {
                                let v = nextv;
                                nextv += 1;
                                macro_rules! rep {
                                    ($t:literal) => {
                                        data.extensions_mut().replace(Val::<$t>(v, drops.clone())).map(|o| o.0).unwrap_or(0)
                                    };
                                }
                                typed!(rep)
                            }
                            "remove" => {
                                macro_rules! rem {
                                    ($t:literal) => {
                                        data.extensions_mut().remove::<Val<$t>>().map(|o| o.0).unwrap_or(0)
                                    };
                                }
                                typed!(rem)
                            }
                            _ => {
                                macro_rules! get {
                                    ($t:literal) => {
                                        data.extensions().get::<Val<$t>>().map(|o| o.0).unwrap_or(0)
                                    };
                                }
                                typed!(get)
                            }
                        }
                    }
                }
            });
            let mut o = json!({"ev": "op", "op": op, "s": s, "ty": ty, "drops": drops.lock().unwrap().clone(), "present": present});
            match r {
                Ok(v) => o["ret"] = json!(v),
                Err(e) => {
                    o["ret"] = json!(0);
                    o["panic"] = json!(e);
                }
            }
            runner::child_emit(o);
        }
    });
    std::process::exit(0);
}

fn main() {
    if runner::is_child() {
        child();
    } else {
        runner::run_all(|i, b| json!({"ev": "reset", "beh": i, "src": b["src"]}));
    }
}
