//! Driver for spec/SpanTimings: histories of span creation, enter / exit on two OS threads (also overlapping and re-entrant)
//! and handle drops, executed one operation at a time against `Registry` + the fmt subscriber (JSON, FmtSpan::CLOSE, timing on)
//! writing into a buffer. Every operation reports the lines it made the subscriber write - for a close line the busy / idle
//! times it states, in nanoseconds with the resolution of their printed form - and the driver's own clock readings around it.
use serde_json::{json, Value};
use std::collections::HashMap;
use std::io::Write;
use std::sync::{Arc, Mutex};
use std::time::Instant;
use tracing_core::{dispatch, Dispatch};
use tracing_subscriber::fmt::format::FmtSpan;
use tracing_subscriber::subscribe::CollectExt;
use vh_common::runner;

#[derive(Clone)]
struct Buf(Arc<Mutex<Vec<u8>>>);
impl Write for Buf {
    fn write(&mut self, b: &[u8]) -> std::io::Result<usize> {
        self.0.lock().unwrap().extend_from_slice(b);
        Ok(b.len())
    }
    fn flush(&mut self) -> std::io::Result<()> {
        Ok(())
    }
}

/// "12.3µs" -> (12300 ns, resolution 100 ns); None if the text has another shape
fn parse_timing(s: &str) -> Option<(u64, u64)> {
    let pos = s.find(|c: char| !(c.is_ascii_digit() || c == '.'))?;
    let (num, unit) = s.split_at(pos);
    let scale: f64 = match unit {
        "ns" => 1.0,
        "µs" => 1e3,
        "ms" => 1e6,
        "s" => 1e9,
        _ => return None,
    };
    let decimals = num.find('.').map(|i| num.len() - i - 1).unwrap_or(0) as i32;
    let v: f64 = num.parse().ok()?;
    let ulp = (scale / 10f64.powi(decimals)).max(1.0);
    Some(((v * scale).round() as u64, ulp.ceil() as u64))
}

fn child() {
    vh_common::quiet_panics();
    let origin = Instant::now();
    let ns = move || origin.elapsed().as_nanos() as u64;
    let beh = runner::child_input();
    let buf = Buf(Arc::new(Mutex::new(vec![])));
    let b2 = buf.clone();
    let layer = tracing_subscriber::fmt::subscriber().json().with_span_events(FmtSpan::CLOSE).with_writer(move || b2.clone());
    let d = Dispatch::new(tracing_subscriber::registry().with(layer));
    let mut workers: vh_common::workers::Workers<()> = vh_common::workers::Workers::new(|| ());
    let mut spans: HashMap<u64, tracing::Span> = HashMap::new();
    let mut ids: HashMap<u64, tracing::span::Id> = HashMap::new();
    let mut overflow = false;
    for step in beh["steps"].as_array().unwrap() {
        let (op, t, s) = (step["op"].as_str().unwrap().to_string(), step["t"].as_u64().unwrap(), step["s"].as_u64().unwrap());
        let mut o = step.clone();
        o["ev"] = json!("op");
        let before = buf.0.lock().unwrap().len();
        let d2 = d.clone();
        let handle = if op == "drop" { spans.remove(&s) } else { None };
        let id = ids.get(&s).cloned();
        let op2 = op.clone();
        let t0_driver = ns();
        let r = workers.run(t, move |_| {
            dispatch::with_default(&d2, || {
                let t0 = ns();
                let made = match op2.as_str() {
                    "new" => Some(tracing::span!(parent: None, tracing::Level::INFO, "timed", k = s)),
                    "enter" => {
                        d2.enter(id.as_ref().unwrap());
                        None
                    }
                    "exit" => {
                        d2.exit(id.as_ref().unwrap());
                        None
                    }
                    _ => {
                        drop(handle);
                        None
                    }
                };
                let t1 = ns();
                (t0, t1, made)
            })
        });
        match r {
            Ok((t0, t1, made)) => {
                o["t0"] = json!(t0);
                o["t1"] = json!(t1);
                if t1 >= (1u64 << 30) {
                    overflow = true;
                }
                if let Some(sp) = made {
                    ids.insert(s, sp.id().expect("disabled span"));
                    spans.insert(s, sp);
                }
            }
            Err(e) => {
                // the operation panicked: the readings of the driver thread around it stand in
                o["panic"] = json!(e);
                o["t0"] = json!(t0_driver);
                o["t1"] = json!(ns());
            }
        }
        let new = buf.0.lock().unwrap()[before..].to_vec();
        let text = String::from_utf8_lossy(&new).to_string();
        let mut lines = vec![];
        for ln in text.split_terminator('\n') {
            let v: Value = serde_json::from_str(ln).unwrap_or(Value::Null);
            let f = &v["fields"];
            let k = v["span"]["k"].as_u64().unwrap_or(0);
            let (b, i) = (f["time.busy"].as_str().and_then(parse_timing), f["time.idle"].as_str().and_then(parse_timing));
            match (f["message"].as_str(), b, i) {
                (Some("close"), Some(b), Some(i)) if b.0 < (1 << 30) && i.0 < (1 << 30) => {
                    lines.push(json!({"msg": "close", "s": k, "busy": b.0, "ulpb": b.1, "idle": i.0, "ulpi": i.1}))
                }
                (Some("close"), Some(_), Some(_)) => {
                    overflow = true;
                    lines.push(json!({"msg": "close", "s": k, "busy": 0, "ulpb": 0, "idle": 0, "ulpi": 0}));
                }
                (m, _, _) => lines.push(json!({"msg": m.unwrap_or("?"), "s": k, "busy": -1, "ulpb": 0, "idle": -1, "ulpi": 0, "raw": ln})),
            }
        }
        o["lines"] = json!(lines);
        o["overflow"] = json!(overflow);
        runner::child_emit(o);
    }
    workers.stop_all();
}

fn main() {
    if runner::is_child() {
        child();
    } else {
        runner::run_all(|i, _| json!({"ev": "reset", "beh": i}));
    }
}
