//! C13 / C14 driver (spec/FmtRecord, spec/JsonFields): a real `fmt` layer (full / compact / pretty /
//! json, option combinations) over the registry, writing through a writer expression built from the
//! real `MakeWriterExt` combinators over recording sinks. Spans and events are created through
//! hand-made callsites so that field values of every type can be chosen at run time. Every
//! `make_writer_for` / `make_writer` / `write` on a sink is logged with its raw bytes.
use serde_json::{json, Value};
use std::collections::HashMap;
use std::fmt;
use std::io;
use std::sync::{Arc, Mutex};
use tracing::Span;
use tracing_core::{
    callsite::Callsite, collect::Interest, dispatch, field, metadata::Kind, Dispatch, Event, Level, Metadata,
};
use tracing_subscriber::fmt::format::FmtSpan;
use tracing_subscriber::fmt::writer::{MakeWriter, MakeWriterExt};
use tracing_subscriber::prelude::*;
use tracing_subscriber::registry::Registry;
use tracing_subscriber::Subscribe;
use vh_common::rec::{drain, new_log, rank, Log, VT};
use vh_common::runner;
use vh_common::workers::Workers;

// ---------------------------------------------------------------- recording sinks
struct Sink {
    id: u64,
    log: Log,
    fail: bool, // the sink records what it is handed and then reports an I/O error
    short: usize, // > 0: accepts at most that many bytes per write call (a pipe / socket like writer)
    lock: Option<&'static std::sync::Mutex<()>>, // the writer holds this lock for as long as it lives (like `Mutex<W>: MakeWriter`)
}
struct SinkWriter {
    id: u64,
    log: Log,
    fail: bool,
    short: usize,
    _guard: Option<std::sync::MutexGuard<'static, ()>>,
}
impl io::Write for SinkWriter {
    fn write(&mut self, buf: &[u8]) -> io::Result<usize> {
        let n = if self.short > 0 { buf.len().min(self.short) } else { buf.len() };
        self.log.lock().unwrap().push(json!({"w": self.id, "raw": String::from_utf8_lossy(&buf[..n]), "th": vh_common::rec::vt()}));
        if self.fail {
            return Err(io::Error::new(io::ErrorKind::Other, "failing sink"));
        }
        Ok(n)
    }
    fn flush(&mut self) -> io::Result<()> {
        Ok(())
    }
}
impl<'a> MakeWriter<'a> for Sink {
    type Writer = SinkWriter;
    fn make_writer(&'a self) -> SinkWriter {
        self.log.lock().unwrap().push(json!({"mw_nometa": self.id}));
        SinkWriter { id: self.id, log: self.log.clone(), fail: self.fail, short: self.short, _guard: self.lock.map(|m| m.lock().expect("sink lock poisoned")) }
    }
    fn make_writer_for(&'a self, m: &Metadata<'_>) -> SinkWriter {
        self.log.lock().unwrap().push(json!({"mw": self.id, "lvl": rank(m.level()), "tgt": m.target()}));
        SinkWriter { id: self.id, log: self.log.clone(), fail: self.fail, short: self.short, _guard: self.lock.map(|m| m.lock().expect("sink lock poisoned")) }
    }
}

// ---------------------------------------------------------------- callsites
const FIELDS: &[&str] = &["message", "fa", "fb", "we\"ird", "back\\slash", "ctl\u{1}x", "uni\u{2028}z", "crab\u{1f980}", "dotted.name", "r#ref", "r#return", "login", "log_level"];

struct Cs {
    meta: &'static Metadata<'static>,
}
impl Callsite for Cs {
    fn set_interest(&self, _: Interest) {}
    fn metadata(&self) -> &Metadata<'_> {
        self.meta
    }
}
macro_rules! cs {
    ($name:expr, $tgt:expr, $lvl:expr, $kind:expr) => {{
        static CS: Cs = Cs { meta: &META };
        static META: Metadata<'static> = tracing_core::metadata! {
            name: $name,
            target: $tgt,
            level: $lvl,
            fields: FIELDS,
            callsite: &CS,
            kind: $kind,
        };
        &META
    }};
}
fn event_meta(lvl: u64, tgt: &str) -> &'static Metadata<'static> {
    match (lvl, tgt) {
        (1, "a") => cs!("event a", "a", Level::ERROR, Kind::EVENT),
        (2, "a") => cs!("event a", "a", Level::WARN, Kind::EVENT),
        (3, "a") => cs!("event a", "a", Level::INFO, Kind::EVENT),
        (4, "a") => cs!("event a", "a", Level::DEBUG, Kind::EVENT),
        (5, "a") => cs!("event a", "a", Level::TRACE, Kind::EVENT),
        (1, _) => cs!("event b", "b\"q", Level::ERROR, Kind::EVENT),
        (2, _) => cs!("event b", "b\"q", Level::WARN, Kind::EVENT),
        (3, _) => cs!("event b", "b\"q", Level::INFO, Kind::EVENT),
        (4, _) => cs!("event b", "b\"q", Level::DEBUG, Kind::EVENT),
        (_, _) => cs!("event b", "b\"q", Level::TRACE, Kind::EVENT),
    }
}
fn span_meta(name: &str) -> &'static Metadata<'static> {
    match name {
        "spA" => cs!("spA", "a", Level::INFO, Kind::SPAN),
        "spB" => cs!("spB", "a", Level::INFO, Kind::SPAN),
        "spC" => cs!("spC", "a", Level::WARN, Kind::SPAN),
        _ => cs!("sp\"D\\", "a", Level::INFO, Kind::SPAN),
    }
}

// ---------------------------------------------------------------- values
struct Boom;
impl fmt::Debug for Boom {
    fn fmt(&self, f: &mut fmt::Formatter<'_>) -> fmt::Result {
        f.write_str("partial")?;
        panic!("Debug impl panics")
    }
}
/// a value whose Debug impl itself emits an event (message m<token>, INFO, target a) - a logging Debug impl
struct Nest(u64);
impl fmt::Debug for Nest {
    fn fmt(&self, f: &mut fmt::Formatter<'_>) -> fmt::Result {
        let meta = event_meta(3, "a");
        let vals = vec![(0usize, Val::Display(Disp(format!("m{}", self.0))))];
        with_values(&vals, meta, |vs| Event::dispatch(meta, vs));
        f.write_str("nested-done")
    }
}
struct Disp(String);
impl fmt::Display for Disp {
    fn fmt(&self, f: &mut fmt::Formatter<'_>) -> fmt::Result {
        f.write_str(&self.0)
    }
}
#[derive(Debug)]
struct MyErr(String);
impl fmt::Display for MyErr {
    fn fmt(&self, f: &mut fmt::Formatter<'_>) -> fmt::Result {
        f.write_str(&self.0)
    }
}
impl std::error::Error for MyErr {}

enum Val {
    U64(u64),
    I64(i64),
    F64(f64),
    Bool(bool),
    Str(String),
    U128(u128),
    I128(i128),
    Display(Disp),
    Debug(String),
    Bytes(Vec<u8>),
    Err(Box<dyn std::error::Error + 'static>),
    // the other three error trait objects that implement Value
    ErrSend(Box<dyn std::error::Error + Send + 'static>),
    ErrSync(Box<dyn std::error::Error + Sync + 'static>),
    ErrSendSync(Box<dyn std::error::Error + Send + Sync + 'static>),
    Boom,
    Nest(u64),
}
fn val_of(v: &Value) -> Val {
    let s = v["v"].as_str().unwrap_or("");
    match v["t"].as_str().unwrap() {
        "u64" => Val::U64(s.parse().unwrap()),
        "i64" => Val::I64(s.parse().unwrap()),
        "f64" => Val::F64(match s {
            "nan" => f64::NAN,
            "inf" => f64::INFINITY,
            "-inf" => f64::NEG_INFINITY,
            _ => s.parse().unwrap(),
        }),
        "bool" => Val::Bool(s == "true"),
        "str" => Val::Str(s.to_string()),
        "u128" => Val::U128(s.parse().unwrap()),
        "i128" => Val::I128(s.parse().unwrap()),
        "display" => Val::Display(Disp(s.to_string())),
        "debug" => Val::Debug(s.to_string()),
        "bytes" => Val::Bytes(s.as_bytes().to_vec()),
        "error" => Val::Err(Box::new(MyErr(s.to_string()))),
        "error_send" => Val::ErrSend(Box::new(MyErr(s.to_string()))),
        "error_sync" => Val::ErrSync(Box::new(MyErr(s.to_string()))),
        "error_send_sync" => Val::ErrSendSync(Box::new(MyErr(s.to_string()))),
        "boom" => Val::Boom,
        "nest" => Val::Nest(s.parse().unwrap()),
        t => panic!("value type {t}"),
    }
}
/// runs `f` with a `&dyn field::Value` view of each value
fn with_values<R>(vals: &[(usize, Val)], meta: &'static Metadata<'static>, f: impl FnOnce(&field::ValueSet<'_>) -> R) -> R {
    let fs = meta.fields();
    let keys: Vec<field::Field> = fs.iter().collect();
    let dbg: Vec<Option<field::DebugValue<&String>>> = vals.iter().map(|(_, v)| if let Val::Debug(s) = v { Some(field::debug(s)) } else { None }).collect();
    let dsp: Vec<Option<field::DisplayValue<&Disp>>> = vals.iter().map(|(_, v)| if let Val::Display(d) = v { Some(field::display(d)) } else { None }).collect();
    let boom = field::debug(Boom);
    let nests: Vec<Option<field::DebugValue<Nest>>> = vals.iter().map(|(_, v)| if let Val::Nest(k) = v { Some(field::debug(Nest(*k))) } else { None }).collect();
    let bytes: Vec<Option<&[u8]>> = vals.iter().map(|(_, v)| if let Val::Bytes(b) = v { Some(b.as_slice()) } else { None }).collect();
    let errs: Vec<Option<&(dyn std::error::Error + 'static)>> = vals.iter().map(|(_, v)| if let Val::Err(e) = v { Some(&**e) } else { None }).collect();
    let errs_s: Vec<Option<&(dyn std::error::Error + Send + 'static)>> = vals.iter().map(|(_, v)| if let Val::ErrSend(e) = v { Some(&**e) } else { None }).collect();
    let errs_y: Vec<Option<&(dyn std::error::Error + Sync + 'static)>> = vals.iter().map(|(_, v)| if let Val::ErrSync(e) = v { Some(&**e) } else { None }).collect();
    let errs_sy: Vec<Option<&(dyn std::error::Error + Send + Sync + 'static)>> = vals.iter().map(|(_, v)| if let Val::ErrSendSync(e) = v { Some(&**e) } else { None }).collect();
    let mut items: Vec<(&field::Field, Option<&dyn field::Value>)> = vec![];
    for (n, (i, v)) in vals.iter().enumerate() {
        let r: &dyn field::Value = match v {
            Val::U64(x) => x,
            Val::I64(x) => x,
            Val::F64(x) => x,
            Val::Bool(x) => x,
            Val::Str(x) => x,
            Val::U128(x) => x,
            Val::I128(x) => x,
            Val::Display(_) => dsp[n].as_ref().unwrap(),
            Val::Debug(_) => dbg[n].as_ref().unwrap(),
            Val::Bytes(_) => bytes[n].as_ref().unwrap(),
            Val::Err(_) => errs[n].as_ref().unwrap(),
            Val::ErrSend(_) => errs_s[n].as_ref().unwrap(),
            Val::ErrSync(_) => errs_y[n].as_ref().unwrap(),
            Val::ErrSendSync(_) => errs_sy[n].as_ref().unwrap(),
            Val::Boom => &boom,
            Val::Nest(_) => nests[n].as_ref().unwrap(),
        };
        items.push((&keys[*i], Some(r)));
    }
    // ValueSet wants a fixed-size array: dispatch on the number of values (0..=4)
    match items.len() {
        0 => f(&fs.value_set(&[] as &[(&field::Field, Option<&dyn field::Value>); 0])),
        1 => f(&fs.value_set(&[items[0]])),
        2 => f(&fs.value_set(&[items[0], items[1]])),
        3 => f(&fs.value_set(&[items[0], items[1], items[2]])),
        4 => f(&fs.value_set(&[items[0], items[1], items[2], items[3]])),
        n => panic!("too many values {n}"),
    }
}
fn field_index(name: &str) -> usize {
    FIELDS.iter().position(|f| *f == name).unwrap_or_else(|| panic!("field {name}"))
}
fn parse_vals(a: &Value) -> Vec<(usize, Val)> {
    a.as_array().map(|x| x.iter().map(|f| (field_index(f["name"].as_str().unwrap()), val_of(&f["val"]))).collect()).unwrap_or_default()
}

// ---------------------------------------------------------------- the fmt layer
type BoxL = Box<dyn Subscribe<Registry> + Send + Sync>;
enum Stack {
    L(BoxL),
    D(Dispatch),
}
fn layer<W>(w: W, b: &Value) -> Stack
where
    W: for<'a> MakeWriter<'a> + Send + Sync + 'static,
{
    let o = &b["opts"];
    let t = |k: &str, d: bool| o[k].as_bool().unwrap_or(d);
    let se = match o["span_events"].as_str().unwrap_or("none") {
        "new" => FmtSpan::NEW,
        "enter" => FmtSpan::ENTER,
        "exit" => FmtSpan::EXIT,
        "close" => FmtSpan::CLOSE,
        "active" => FmtSpan::ACTIVE,
        "full" => FmtSpan::FULL,
        _ => FmtSpan::NONE,
    };
    macro_rules! common {
        ($l:expr) => {
            $l.with_target(t("target", true))
                .with_level(t("level", true))
                .with_thread_ids(t("thread_ids", false))
                .with_thread_names(t("thread_names", false))
                .with_file(t("file", false))
                .with_line_number(t("line", false))
                .with_ansi(t("ansi", false))
                .with_span_events(se.clone())
        };
    }
    // two front ends over the same formatter: the `fmt::subscriber()` layer on a registry, and the `fmt()` collector builder
    // (its own option forwarding and its own Collect impl); `$fin` finishes either into a Stack
    macro_rules! choose {
        ($base:expr, $fin:ident) => {{
            let base = $base;
            // `opts_first`: the display options are set BEFORE the format is chosen (fmt().with_target(false).compact()): the same record
            if b["opts_first"].as_bool().unwrap_or(false) {
                match b["format"].as_str().unwrap_or("full") {
                    "compact" => $fin!(common!(base).compact()),
                    "pretty" => $fin!(common!(base).pretty()),
                    "json" => $fin!(common!(base).json().flatten_event(t("flatten", false)).with_current_span(t("current_span", true)).with_span_list(t("span_list", true))),
                    _ => $fin!(common!(base)),
                }
            } else {
                match b["format"].as_str().unwrap_or("full") {
                    "compact" => $fin!(common!(base.compact())),
                    "pretty" => $fin!(common!(base.pretty())),
                    "json" => $fin!(common!(base.json().flatten_event(t("flatten", false)).with_current_span(t("current_span", true)).with_span_list(t("span_list", true)))),
                    _ => $fin!(common!(base)),
                }
            }
        }};
    }
    macro_rules! as_layer {
        ($l:expr) => {
            if t("time", false) {
                Stack::L(Box::new($l) as BoxL)
            } else {
                Stack::L(Box::new($l.without_time()) as BoxL)
            }
        };
    }
    macro_rules! as_collector {
        ($l:expr) => {
            if t("time", false) {
                Stack::D(Dispatch::new($l.finish()))
            } else {
                Stack::D(Dispatch::new($l.without_time().finish()))
            }
        };
    }
    if b["front"] == "builder" {
        choose!(tracing_subscriber::fmt().with_max_level(Level::TRACE).with_writer(w), as_collector)
    } else {
        choose!(tracing_subscriber::fmt::subscriber().with_writer(w), as_layer)
    }
}

fn lf(r: u64) -> tracing_core::LevelFilter {
    vh_common::rec::filter_of_rank(r)
}
fn build(b: &Value, log: &Log) -> Stack {
    let w = &b["writer"];
    let failing: Vec<u64> = w["failing"].as_array().map(|a| a.iter().map(|x| x.as_u64().unwrap()).collect()).unwrap_or_default();
    let short_id = w["short"]["id"].as_u64().unwrap_or(0);
    let short_n = w["short"]["n"].as_u64().unwrap_or(0) as usize;
    let locked: Vec<u64> = w["locked"].as_array().map(|a| a.iter().map(|x| x.as_u64().unwrap()).collect()).unwrap_or_default();
    let s = |id: u64| Sink {
        id,
        log: log.clone(),
        fail: failing.contains(&id),
        short: if id == short_id { short_n } else { 0 },
        lock: if locked.contains(&id) { Some(Box::leak(Box::new(std::sync::Mutex::new(())))) } else { None },
    };
    let p = |k: &str| w["params"][k].as_u64().unwrap_or(3);
    let tg = w["params"]["t"].as_str().unwrap_or("a").to_string();
    let pred = move |m: &Metadata<'_>| m.target() == tg;
    match w["shape"].as_str().unwrap_or("s") {
        "s" => layer(s(1), b),
        "max" => layer(s(1).with_max_level(lf(p("l1")).into_level().unwrap_or(Level::ERROR)), b),
        "min" => layer(s(1).with_min_level(lf(p("l1")).into_level().unwrap_or(Level::ERROR)), b),
        "filt" => layer(s(1).with_filter(pred), b),
        "and" => layer(s(1).and(s(2)), b),
        "and_max_min" => layer(
            s(1).with_max_level(lf(p("l1")).into_level().unwrap()).and(s(2).with_min_level(lf(p("l2")).into_level().unwrap())),
            b,
        ),
        "orelse_max" => layer(s(1).with_max_level(lf(p("l1")).into_level().unwrap()).or_else(s(2)), b),
        "orelse_min_max" => layer(
            s(1).with_min_level(lf(p("l1")).into_level().unwrap()).or_else(s(2).with_max_level(lf(p("l2")).into_level().unwrap())),
            b,
        ),
        "orelse_chain" => layer(
            s(1).with_max_level(lf(p("l1")).into_level().unwrap()).or_else(s(2).with_filter(pred).or_else(s(3))),
            b,
        ),
        "and_orelse" => layer(s(1).with_max_level(lf(p("l1")).into_level().unwrap()).or_else(s(2)).and(s(3)), b),
        "band" => layer(
            s(1).with_min_level(lf(p("l1")).into_level().unwrap()).with_max_level(lf(p("l2")).into_level().unwrap()),
            b,
        ),
        "filt_max" => layer(s(1).with_max_level(lf(p("l1")).into_level().unwrap()).with_filter(pred), b),
        "orelse_filt_max" => layer(s(1).with_max_level(lf(p("l1")).into_level().unwrap()).with_filter(pred).or_else(s(2)), b),
        "and3" => layer(
            s(1).with_max_level(lf(p("l1")).into_level().unwrap())
                .with_filter(pred)
                .and(s(2).with_min_level(lf(p("l2")).into_level().unwrap()).or_else(s(3))),
            b,
        ),
        sh => panic!("writer shape {sh}"),
    }
}

struct Ctx {
    default: Option<dispatch::DefaultGuard>,
    entered: Vec<(u64, tracing_core::span::Id, Dispatch)>,
}

fn child() {
    vh_common::quiet_panics();
    let b = runner::child_input();
    let log = new_log();
    let d = match build(&b, &log) {
        // `twin`: a second fmt subscriber with the same field formatter sits next to the recorded one on the same registry (two
        // outputs, as in "stdout plus file"); it writes to a sink nobody reads and must not disturb the first one
        Stack::L(l) if b["twin"].as_bool().unwrap_or(false) => {
            let twin: BoxL = if b["format"] == "json" {
                Box::new(tracing_subscriber::fmt::subscriber().json().with_writer(std::io::sink))
            } else {
                Box::new(tracing_subscriber::fmt::subscriber().with_ansi(false).with_writer(std::io::sink))
            };
            Dispatch::new(tracing_subscriber::registry().with(vec![l, twin]))
        }
        Stack::L(l) => Dispatch::new(tracing_subscriber::registry().with(l)),
        Stack::D(d) => d,
    };
    let spans: Arc<Mutex<HashMap<u64, Span>>> = Arc::new(Mutex::new(HashMap::new()));
    let mut ws: Workers<Ctx> = Workers::new(|| Ctx { default: None, entered: vec![] });
    // `global`: the collector is the process's global default and no scoped default is ever set (the usual `init()` set-up):
    // lookups take the dispatcher's fast path, which has no re-entrancy guard
    let global = b["global"].as_bool().unwrap_or(false);
    if global {
        dispatch::set_global_default(d.clone()).expect("global default");
    }
    for (n, step) in b["steps"].as_array().unwrap().iter().enumerate() {
        let mut o = step.clone();
        o["ev"] = json!("op");
        let t = step["t"].as_u64().unwrap_or(1);
        let g = |k: &str| step[k].as_u64().unwrap_or(0);
        let (s, p) = (g("s"), g("p"));
        let op = step["op"].as_str().unwrap().to_string();
        let pk = step["pk"].as_str().unwrap_or("ctx").to_string();
        let (dd, sp2, st) = (d.clone(), spans.clone(), step.clone());
        drain(&log);
        if op == "burst" {
            // k threads emit `per` events each at the same moment
            let (k, per) = (g("threads"), g("per"));
            let bar = std::sync::Barrier::new(k as usize);
            std::thread::scope(|sc| {
                for j in 0..k {
                    let (dd, st, bar) = (&d, &step, &bar);
                    sc.spawn(move || {
                        VT.with(|v| v.set(100 + j));
                        let _g = if global { None } else { Some(dispatch::set_default(dd)) };
                        let meta = event_meta(st["lvl"].as_u64().unwrap(), st["tgt"].as_str().unwrap());
                        bar.wait();
                        for i in 0..per {
                            let vals = vec![(0usize, Val::Display(Disp(format!("m{}", (n as u64) * 10000 + j * 100 + i + 1)))),
                                            (1usize, Val::Str("padding-".repeat(20)))];
                            with_values(&vals, meta, |vs| Event::dispatch(meta, vs));
                        }
                    });
                }
            });
            o["n"] = json!(n);
            o["calls"] = json!(drain(&log));
            runner::child_emit(o);
            continue;
        }
        let r = ws.run(t, move |c| {
            if c.default.is_none() && !global {
                c.default = Some(dispatch::set_default(&dd));
            }
            match op.as_str() {
                "new" => {
                    let meta = span_meta(st["name"].as_str().unwrap());
                    let vals = parse_vals(&st["fields"]);
                    let sp = with_values(&vals, meta, |vs| match pk.as_str() {
                        "root" => Span::new_root(meta, vs),
                        "of" => {
                            let par = sp2.lock().unwrap().get(&p).cloned().expect("parent");
                            Span::child_of(&par, meta, vs)
                        }
                        _ => Span::new(meta, vs),
                    });
                    sp2.lock().unwrap().insert(s, sp);
                }
                // two threads record different fields of one span at the same moment: A's value has a Debug impl that, once
                // formatting has begun, waits (at most 150 ms) until B's record call has returned
                "record_pair" => {
                    use std::sync::atomic::{AtomicBool, Ordering};
                    static STARTED: AtomicBool = AtomicBool::new(false);
                    static BDONE: AtomicBool = AtomicBool::new(false);
                    struct Slow(String);
                    impl fmt::Debug for Slow {
                        fn fmt(&self, f: &mut fmt::Formatter<'_>) -> fmt::Result {
                            STARTED.store(true, Ordering::SeqCst);
                            let t0 = std::time::Instant::now();
                            while !BDONE.load(Ordering::SeqCst) && t0.elapsed() < std::time::Duration::from_millis(150) {
                                std::thread::yield_now();
                            }
                            f.write_str(&self.0)
                        }
                    }
                    STARTED.store(false, Ordering::SeqCst);
                    BDONE.store(false, Ordering::SeqCst);
                    let sp = sp2.lock().unwrap().get(&s).cloned().expect("record_pair: span");
                    let meta = sp.metadata().expect("meta");
                    let (va, vb) = (st["fields"][0]["val"]["v"].as_str().unwrap().to_string(), st["fields"][1]["val"]["v"].as_str().unwrap().to_string());
                    let (ia, ib) = (field_index(st["fields"][0]["name"].as_str().unwrap()), field_index(st["fields"][1]["name"].as_str().unwrap()));
                    let (spa, spb) = (sp.clone(), sp.clone());
                    let a = std::thread::spawn(move || {
                        let keys: Vec<field::Field> = meta.fields().iter().collect();
                        let v = field::debug(Slow(va));
                        spa.record_all(&meta.fields().value_set(&[(&keys[ia], Some(&v as &dyn field::Value))]));
                    });
                    let b = std::thread::spawn(move || {
                        let t0 = std::time::Instant::now();
                        while !STARTED.load(Ordering::SeqCst) && t0.elapsed() < std::time::Duration::from_millis(150) {
                            std::thread::yield_now();
                        }
                        let keys: Vec<field::Field> = meta.fields().iter().collect();
                        spb.record_all(&meta.fields().value_set(&[(&keys[ib], Some(&vb as &dyn field::Value))]));
                        BDONE.store(true, Ordering::SeqCst);
                    });
                    let _ = a.join();
                    let _ = b.join();
                }
                "record" => {
                    let sp = sp2.lock().unwrap().get(&s).cloned().expect("record: span");
                    let meta = sp.metadata().expect("meta");
                    let vals = parse_vals(&st["fields"]);
                    with_values(&vals, meta, |vs| {
                        sp.record_all(vs);
                    });
                }
                "enter" => {
                    let h = sp2.lock().unwrap().get(&s).cloned().expect("enter");
                    if let Some((id, d)) = h.with_collector(|(id, d)| {
                        d.enter(id);
                        (id.clone(), d.clone())
                    }) {
                        c.entered.push((s, id, d));
                    }
                }
                "exit" => {
                    if let Some(i) = c.entered.iter().rposition(|e| e.0 == s) {
                        let (_, id, d) = c.entered.remove(i);
                        d.exit(&id);
                    }
                }
                "drop" => {
                    let h = sp2.lock().unwrap().remove(&s);
                    drop(h);
                }
                "event" => {
                    let meta = event_meta(st["lvl"].as_u64().unwrap(), st["tgt"].as_str().unwrap());
                    let mut vals = parse_vals(&st["fields"]);
                    vals.insert(0, (0, Val::Display(Disp(format!("m{}", n))))); // message = unique token m<n>
                    with_values(&vals, meta, |vs| match pk.as_str() {
                        "root" => Event::child_of(None, meta, vs),
                        "of" => {
                            let par = sp2.lock().unwrap().get(&p).cloned().expect("event parent");
                            Event::child_of(par.id(), meta, vs)
                        }
                        _ => Event::dispatch(meta, vs),
                    });
                }
                o => panic!("op {o}"),
            }
        });
        o["n"] = json!(n);
        o["calls"] = json!(drain(&log));
        if let Err(e) = r {
            o["panicked"] = json!(e);
        }
        runner::child_emit(o);
    }
    std::process::exit(0);
}

fn main() {
    if runner::is_child() {
        child();
    } else {
        runner::run_all(|i, b| json!({"ev": "reset", "beh": i, "format": b["format"], "opts": b["opts"], "writer": b["writer"]}));
    }
}
