//! Driver for spec/Flame: histories of span creation (root / explicit / contextual parent), enter and exit on three named OS
//! threads, executed one operation at a time against a real `Registry` + `tracing_flame::FlameSubscriber` writing into a buffer.
//! Every operation reports the lines it made the layer write and the driver's own clock readings right before and after it.
use serde_json::{json, Value};
use std::collections::HashMap;
use std::io::Write;
use std::sync::{Arc, Mutex};
use std::time::Instant;
use tracing_core::{dispatch, Dispatch};
use tracing_subscriber::subscribe::CollectExt;
use vh_common::runner;

#[derive(Clone)]
struct Buf(Arc<Mutex<Vec<u8>>>);
impl Write for Buf {
    fn write(&mut self, b: &[u8]) -> std::io::Result<usize> {
        self.0.lock().unwrap().extend_from_slice(b);
        Ok(b.len())
    }
    fn flush(&mut self) -> std::io::Result<()> {
        Ok(())
    }
}

fn mk_span(nm: &str, pk: &str, parent: Option<&tracing::Span>) -> tracing::Span {
    macro_rules! sp {
        ($n:literal) => {
            match pk {
                "root" => tracing::span!(parent: None, tracing::Level::INFO, $n),
                "explicit" => tracing::span!(parent: parent.unwrap(), tracing::Level::INFO, $n),
                _ => tracing::span!(tracing::Level::INFO, $n),
            }
        };
    }
    match nm {
        "a" => sp!("a"),
        "b" => sp!("b"),
        _ => sp!("c"),
    }
}

fn child() {
    vh_common::quiet_panics();
    let origin = Instant::now();
    let ns = move || origin.elapsed().as_nanos() as u64;
    let beh = runner::child_input();
    let buf = Buf(Arc::new(Mutex::new(vec![])));
    let n0 = ns();
    let layer = tracing_flame::FlameSubscriber::new(buf.clone())
        .with_empty_samples(beh["cfg"]["empty"].as_bool().unwrap())
        .with_threads_collapsed(beh["cfg"]["collapsed"].as_bool().unwrap())
        .with_module_path(beh["render"]["modp"].as_bool().unwrap())
        .with_file_and_line(beh["render"]["fl"].as_bool().unwrap());
    let n1 = ns();
    let d = Dispatch::new(tracing_subscriber::registry().with(layer));
    runner::child_emit(json!({"ev": "init", "n0": n0, "n1": n1}));
    let mut workers: vh_common::workers::Workers<()> = vh_common::workers::Workers::new(|| ());
    let mut spans: HashMap<u64, tracing::Span> = HashMap::new();
    let mut overflow = false;
    for step in beh["steps"].as_array().unwrap() {
        let (op, t, s) = (step["op"].as_str().unwrap().to_string(), step["t"].as_u64().unwrap(), step["s"].as_u64().unwrap());
        let mut o = step.clone();
        o["ev"] = json!("op");
        let before = buf.0.lock().unwrap().len();
        let d2 = d.clone();
        let parent = spans.get(&step["p"].as_u64().unwrap()).cloned();
        let target = spans.get(&s).cloned();
        let (nm, pk) = (step["nm"].as_str().unwrap().to_string(), step["pk"].as_str().unwrap().to_string());
        let op2 = op.clone();
        let r = workers.run(t, move |_| {
            let th = std::thread::current();
            let tname = format!("{:?}-{}", th.id(), th.name().unwrap_or(""));
            dispatch::with_default(&d2, || {
                let t0 = ns();
                let made = match op2.as_str() {
                    "new" => Some(mk_span(&nm, &pk, parent.as_ref())),
                    "enter" => {
                        d2.enter(&target.as_ref().unwrap().id().expect("disabled span"));
                        None
                    }
                    _ => {
                        d2.exit(&target.as_ref().unwrap().id().expect("disabled span"));
                        None
                    }
                };
                let t1 = ns();
                (tname, t0, t1, made)
            })
        });
        match r {
            Ok((tname, t0, t1, made)) => {
                o["tname"] = json!(tname);
                o["t0"] = json!(t0);
                o["t1"] = json!(t1);
                if t1 >= (1u64 << 31) {
                    overflow = true;
                }
                if let Some(sp) = made {
                    let m = sp.metadata().expect("disabled span");
                    o["meta"] = json!({"name": m.name(), "module": m.module_path().unwrap_or(""), "file": m.file().unwrap_or(""), "line": m.line().unwrap_or(0)});
                    spans.insert(s, sp);
                }
            }
            Err(e) => o["panic"] = json!(e),
        }
        let new = buf.0.lock().unwrap()[before..].to_vec();
        let text = String::from_utf8_lossy(&new).to_string();
        let mut lines = vec![];
        for ln in text.split_terminator('\n') {
            let (stack, v) = match ln.rfind(' ') {
                Some(i) => (&ln[..i], ln[i + 1..].parse::<u64>().ok()),
                None => (ln, None),
            };
            match v {
                Some(v) if v < (1u64 << 31) => lines.push(json!({"stack": stack, "v": v})),
                Some(_) => {
                    overflow = true;
                    lines.push(json!({"stack": stack, "v": 0}));
                }
                None => lines.push(json!({"stack": ln, "v": -1})),
            }
        }
        if !text.is_empty() && !text.ends_with('\n') {
            lines.push(json!({"stack": "<unterminated line>", "v": -1}));
        }
        o["lines"] = json!(lines);
        o["overflow"] = json!(overflow);
        runner::child_emit(o);
    }
    let before = buf.0.lock().unwrap().len();
    workers.stop_all();
    dispatch::with_default(&d, || spans.clear());
    drop(d);
    let extra = String::from_utf8_lossy(&buf.0.lock().unwrap()[before..]).to_string();
    runner::child_emit(json!({"ev": "final", "extra": extra, "n0": n0, "n1": n1, "overflow": overflow}));
}

fn main() {
    if runner::is_child() {
        child();
    } else {
        runner::run_all(|i, b| json!({"ev": "reset", "beh": i, "cfg": b["cfg"], "render": b["render"]}));
    }
}
