//! C03 driver (spec/SpanProtocol): runs programs over the real `tracing::Span` / `Instrumented`
//! API on several threads under switching default collectors; after every operation the calls the
//! recording collectors received are drained and logged next to the operation.
use serde_json::{json, Value};
use std::collections::HashMap;
use std::future::Future;
use std::pin::Pin;
use std::sync::mpsc::{channel, Receiver, Sender};
use std::sync::{Arc, Mutex};
use std::task::{Context, Poll, RawWaker, RawWakerVTable, Waker};
use tracing::instrument::Instrument;
use tracing::{span::Entered, span::EnteredSpan, Level, Span};
use tracing_core::{dispatch, Dispatch};
use vh_common::rec::{drain, new_log, FilterRec, RecCollector, VT};
use vh_common::runner;

struct Scripted;
impl Future for Scripted {
    type Output = ();
    fn poll(self: Pin<&mut Self>, _: &mut Context<'_>) -> Poll<()> {
        Poll::Pending
    }
}
enum Fut {
    T(Pin<Box<tracing::instrument::Instrumented<Scripted>>>),
    F(Pin<Box<tracing_futures::Instrumented<Scripted>>>),
}

fn noop_waker() -> Waker {
    fn clone(_: *const ()) -> RawWaker {
        RawWaker::new(std::ptr::null(), &VT_)
    }
    fn noop(_: *const ()) {}
    static VT_: RawWakerVTable = RawWakerVTable::new(clone, noop, noop, noop);
    unsafe { Waker::from_raw(RawWaker::new(std::ptr::null(), &VT_)) }
}

#[derive(Default)]
struct Shared {
    handles: Mutex<HashMap<u64, Box<Span>>>,
    futs: Mutex<HashMap<u64, Fut>>,
}

struct Ctx {
    default: Option<dispatch::DefaultGuard>,
    borrow: HashMap<u64, Entered<'static>>,
    owned: HashMap<u64, (EnteredSpan, u64)>,
}

enum Job {
    Run(Box<dyn FnOnce(&mut Ctx, &Shared) -> Value + Send>, Sender<Value>),
    ScopeBegin(u64, Sender<Value>),
    ScopeEnd(Sender<Value>),
}

fn span_ptr(sh: &Shared, h: u64) -> *const Span {
    let m = sh.handles.lock().unwrap();
    &**m.get(&h).expect("handle") as *const Span
}

/// serves jobs; returns the reply channel of the ScopeEnd that terminated a nested level
fn serve(rx: &Receiver<Job>, ctx: &mut Ctx, sh: &Arc<Shared>, depth: usize) -> Option<Sender<Value>> {
    while let Ok(job) = rx.recv() {
        match job {
            Job::Run(f, reply) => {
                let r = vh_common::catch(|| f(ctx, sh)).unwrap_or_else(|e| json!({"panic": e}));
                let _ = reply.send(r);
            }
            Job::ScopeBegin(h, reply) => {
                let p = span_ptr(sh, h);
                let span: &Span = unsafe { &*p };
                let mut end: Option<Sender<Value>> = None;
                span.in_scope(|| {
                    let _ = reply.send(json!(0));
                    end = serve(rx, ctx, sh, depth + 1);
                });
                if let Some(e) = end {
                    let _ = e.send(json!(0));
                }
            }
            Job::ScopeEnd(reply) => {
                if depth == 0 {
                    let _ = reply.send(json!({"panic": "scope_end at depth 0"}));
                } else {
                    return Some(reply);
                }
            }
        }
    }
    None
}

struct Pool {
    txs: HashMap<u64, Sender<Job>>,
    hs: Vec<std::thread::JoinHandle<()>>,
    sh: Arc<Shared>,
}
impl Pool {
    fn tx(&mut self, t: u64) -> &Sender<Job> {
        if !self.txs.contains_key(&t) {
            let (tx, rx) = channel::<Job>();
            let sh = self.sh.clone();
            self.hs.push(std::thread::spawn(move || {
                VT.with(|v| v.set(t));
                let mut ctx = Ctx { default: None, borrow: HashMap::new(), owned: HashMap::new() };
                serve(&rx, &mut ctx, &sh, 0);
                // quiesce: guards first (they borrow handles), then the default
                ctx.borrow.clear();
                ctx.owned.clear();
                ctx.default = None;
            }));
            self.txs.insert(t, tx);
        }
        &self.txs[&t]
    }
    fn run(&mut self, t: u64, f: impl FnOnce(&mut Ctx, &Shared) -> Value + Send + 'static) -> Value {
        let (rtx, rrx) = channel();
        self.tx(t).send(Job::Run(Box::new(f), rtx)).unwrap();
        rrx.recv().unwrap_or(json!({"panic": "worker died"}))
    }
}

fn mk_span(tgt: &str, pk: &str, parent: Option<&Span>) -> Span {
    match (tgt, pk) {
        ("a", "ctx") => tracing::span!(target: "a", Level::INFO, "sa", f = tracing::field::Empty),
        ("a", "root") => tracing::span!(target: "a", parent: None, Level::INFO, "sa", f = tracing::field::Empty),
        ("a", _) => tracing::span!(target: "a", parent: parent.unwrap(), Level::INFO, "sa", f = tracing::field::Empty),
        (_, "ctx") => tracing::span!(target: "x", Level::INFO, "sx", f = tracing::field::Empty),
        (_, "root") => tracing::span!(target: "x", parent: None, Level::INFO, "sx", f = tracing::field::Empty),
        (_, _) => tracing::span!(target: "x", parent: parent.unwrap(), Level::INFO, "sx", f = tracing::field::Empty),
    }
}

/// the same span forms with an owned entered guard as the explicit parent (`parent: &guard`)
fn mk_span_under_guard(tgt: &str, parent: &EnteredSpan) -> Span {
    match tgt {
        "a" => tracing::span!(target: "a", parent: parent, Level::INFO, "sa", f = tracing::field::Empty),
        _ => tracing::span!(target: "x", parent: parent, Level::INFO, "sx", f = tracing::field::Empty),
    }
}
/// what `guard.clone()` turns out to be: a `Span` handle (through Deref) - kept as the new handle; anything else is dropped at once
trait Settle {
    fn settle(self, sh: &Shared, h2: u64) -> u64;
}
impl Settle for Span {
    fn settle(self, sh: &Shared, h2: u64) -> u64 {
        let id = hid(&self);
        sh.handles.lock().unwrap().insert(h2, Box::new(self));
        id
    }
}
impl Settle for EnteredSpan {
    fn settle(self, _: &Shared, _: u64) -> u64 {
        drop(self);
        0
    }
}

/// the id `Span::id()` reports; 0 for a disabled span and for a span "created" by the no-op
/// collector (which hands out the constant id 0xDEAD and records nothing)
fn hid(s: &Span) -> u64 {
    match s.id().map(|i| i.into_u64()) {
        Some(0xDEAD) | None => 0,
        // collectors may hand out small overlapping ids: the log speaks in composite ids (collector * 1000 + n)
        Some(i) => s.with_collector(|(_, d)| d.downcast_ref::<RecCollector>().map(|c| c.composite(i)).unwrap_or(i)).unwrap_or(i),
    }
}

fn child() {
    vh_common::quiet_panics();
    let beh = runner::child_input();
    let log = new_log();
    let mut disp: HashMap<u64, Dispatch> = HashMap::new();
    let mut hint_cells = vec![];
    for (i, v) in beh["acc"].as_array().unwrap().iter().enumerate() {
        let d: u64 = i as u64 + 1;
        let tg = if v.as_bool().unwrap() { vec!["a".to_string(), "x".to_string()] } else { vec!["a".to_string()] };
        let (mut c, _) = RecCollector::new(d, FilterRec { thr: 5, tgts: tg, kind: "static".into(), hint: None }, log.clone());
        c.alias_on_clone = beh["alias"].as_array().and_then(|a| a.get(i)).and_then(|x| x.as_bool()).unwrap_or(false);
        c.raw_ids = beh["raw_ids"].as_bool().unwrap_or(false);
        hint_cells.push(c.hint_cell.clone());
        // the collector is installed plainly, boxed or arc'd: the protocol seen by the collector must be the same
        let wrap = beh["wrap"].as_array().and_then(|a| a.get(i)).and_then(|x| x.as_str()).unwrap_or("plain");
        disp.insert(d, match wrap {
            "box" => Dispatch::new(Box::new(c) as Box<dyn tracing_core::Collect + Send + Sync>),
            "arc" => Dispatch::new(Arc::new(c) as Arc<dyn tracing_core::Collect + Send + Sync>),
            _ => Dispatch::new(c),
        });
    }
    let sh = Arc::new(Shared::default());
    let mut pool = Pool { txs: HashMap::new(), hs: vec![], sh: sh.clone() };
    for step in beh["steps"].as_array().unwrap() {
        let mut o = step.clone();
        o["ev"] = json!("op");
        let t = step["t"].as_u64().unwrap();
        let g = |k: &str| step[k].as_u64().unwrap_or(0);
        let (h, h2, gi, fi) = (g("h"), g("h2"), g("g"), g("f"));
        drain(&log);
        let op = step["op"].as_str().unwrap().to_string();
        let r: Value = match op.as_str() {
            "switch" => {
                let d = disp.get(&g("d")).cloned();
                pool.run(t, move |c, _| {
                    c.default = None;
                    c.default = d.as_ref().map(dispatch::set_default);
                    json!(0)
                })
            }
            "new" => {
                let (tgt, pk, p) = (step["tgt"].as_str().unwrap().to_string(), step["pk"].as_str().unwrap().to_string(), g("p"));
                pool.run(t, move |c, sh| {
                    let s = if pk == "of" && !sh.handles.lock().unwrap().contains_key(&p) {
                        // the parent's handle lives inside an owned entered guard of this thread: `parent: &guard`
                        let g = c.owned.values().find(|(_, hh)| *hh == p).expect("parent handle neither free nor in a guard of this thread");
                        mk_span_under_guard(&tgt, &g.0)
                    } else if pk == "of" {
                        let pp = span_ptr(sh, p);
                        mk_span(&tgt, &pk, Some(unsafe { &*pp }))
                    } else {
                        mk_span(&tgt, &pk, None)
                    };
                    let id = hid(&s);
                    sh.handles.lock().unwrap().insert(h, Box::new(s));
                    json!(id)
                })
            }
            "clone" => pool.run(t, move |c, sh| {
                if !sh.handles.lock().unwrap().contains_key(&h) {
                    // the handle lives inside an owned entered guard of this thread: `guard.clone()` (a Span, through Deref)
                    let g = c.owned.values().find(|(_, hh)| *hh == h).expect("handle neither free nor in a guard of this thread");
                    let x = g.0.clone();
                    return json!(x.settle(sh, h2));
                }
                let p = span_ptr(sh, h);
                let s = unsafe { &*p }.clone();
                let id = hid(&s);
                sh.handles.lock().unwrap().insert(h2, Box::new(s));
                json!(id)
            }),
            // every collector starts publishing `lvl` as its max-level hint and the interest cache is rebuilt: the process-wide
            // maximum level changes in the middle of the history (a no-op for the protocol)
            "maxlevel" => {
                let lvl = step["lvl"].as_u64().unwrap();
                for c in &hint_cells {
                    c.store(lvl, std::sync::atomic::Ordering::SeqCst);
                }
                tracing_core::callsite::rebuild_interest_cache();
                drain(&log);
                continue; // not an action of the specification: nothing is logged
            }
            // a.clone_from(&b): logged as the two actions it must be equal to -- clone(b -> slot hf), drop(a)
            "clone_from" => {
                let hf = g("hf");
                let r = pool.run(t, move |_, sh| {
                    let mut a = *sh.handles.lock().unwrap().remove(&h).unwrap();
                    let pb = span_ptr(sh, h2);
                    a.clone_from(unsafe { &*pb });
                    let id = hid(&a);
                    sh.handles.lock().unwrap().insert(hf, Box::new(a));
                    json!(id)
                });
                let calls: Vec<Value> = drain(&log)
                    .into_iter()
                    .filter(|c| c.get("id").is_some())
                    .map(|c| json!({"call": c["call"], "col": c["col"], "id": c["id"], "th": c["th"], "ret": c.get("ret").cloned().unwrap_or(json!(0))}))
                    .collect();
                let (cl, rest): (Vec<Value>, Vec<Value>) = calls.into_iter().partition(|c| c["call"] == "clone_span");
                runner::child_emit(json!({"ev": "op", "op": "clone", "t": t, "h": h2, "h2": hf, "calls": cl, "hid": if r.is_object() { json!(0) } else { r.clone() }, "via": "clone_from"}));
                runner::child_emit(json!({"ev": "op", "op": "drop", "t": t, "h": h, "calls": rest, "hid": 0, "via": "clone_from"}));
                continue;
            }
            "drop" => {
                // `unwind`: the handle is owned by a frame that panics, i.e. it is dropped while the thread is unwinding
                let unwind = step["unwind"].as_bool().unwrap_or(false);
                let inside = step["inside"].as_bool().unwrap_or(false);
                pool.run(t, move |_, sh| {
                    let s = sh.handles.lock().unwrap().remove(&h);
                    if unwind {
                        let _ = vh_common::catch(move || {
                            let _owned = s;
                            if true {
                                panic!("frame owning a span handle unwinds");
                            }
                        });
                    } else if inside {
                        // the handle is dropped from inside a dispatcher lookup (a closure passed to get_default)
                        let mut owned = Some(s);
                        tracing_core::dispatch::get_default(|_| drop(owned.take()));
                    } else {
                        drop(s);
                    }
                    json!(0)
                })
            }
            "enter" => pool.run(t, move |c, sh| {
                let p = span_ptr(sh, h);
                let e: Entered<'static> = unsafe { std::mem::transmute((&*p).enter()) };
                c.borrow.insert(gi, e);
                json!(0)
            }),
            "exit" => pool.run(t, move |c, _| {
                drop(c.borrow.remove(&gi));
                json!(0)
            }),
            "entered" => pool.run(t, move |c, sh| {
                let s = *sh.handles.lock().unwrap().remove(&h).unwrap();
                c.owned.insert(gi, (s.entered(), h));
                json!(0)
            }),
            "exit_entered" => {
                pool.run(t, move |c, sh| {
                    let (e, hh) = c.owned.remove(&gi).unwrap();
                    let s = e.exit();
                    let id = hid(&s);
                    sh.handles.lock().unwrap().insert(hh, Box::new(s));
                    json!(id)
                })
            }
            "drop_entered" => pool.run(t, move |c, _| {
                drop(c.owned.remove(&gi));
                json!(0)
            }),
            "scope_begin" => {
                let (rtx, rrx) = channel();
                pool.tx(t).send(Job::ScopeBegin(h, rtx)).unwrap();
                rrx.recv().unwrap_or(json!({"panic": "worker died"}))
            }
            "scope_end" => {
                let (rtx, rrx) = channel();
                pool.tx(t).send(Job::ScopeEnd(rtx)).unwrap();
                rrx.recv().unwrap_or(json!({"panic": "worker died"}))
            }
            "record" => pool.run(t, move |_, sh| {
                let p = span_ptr(sh, h);
                unsafe { &*p }.record("f", 7u64);
                json!(0)
            }),
            "scope_panic" => pool.run(t, move |_, sh| {
                let p = span_ptr(sh, h);
                let r = vh_common::catch(|| unsafe { &*p }.in_scope(|| if true { panic!("in scope") }));
                json!(if r.is_err() { 0 } else { 1 })
            }),
            "enter_panic" => pool.run(t, move |_, sh| {
                let p = span_ptr(sh, h);
                let r = vh_common::catch(|| {
                    let _g = unsafe { &*p }.enter();
                    if true {
                        panic!("entered")
                    }
                });
                json!(if r.is_err() { 0 } else { 1 })
            }),
            "follows" => pool.run(t, move |_, sh| {
                let (p, q) = (span_ptr(sh, h), span_ptr(sh, h2));
                unsafe { &*p }.follows_from(unsafe { &*q });
                json!(0)
            }),
            "current" => pool.run(t, move |_, sh| {
                let s = Span::current();
                let id = hid(&s);
                sh.handles.lock().unwrap().insert(h, Box::new(s));
                json!(id)
            }),
            "or_current" => pool.run(t, move |_, sh| {
                let s = *sh.handles.lock().unwrap().remove(&h).unwrap();
                let s = s.or_current();
                let id = hid(&s);
                sh.handles.lock().unwrap().insert(h, Box::new(s));
                json!(id)
            }),
            "instrument" => {
                let lib = step["lib"].as_str().unwrap_or("tracing").to_string();
                pool.run(t, move |_, sh| {
                    let s = *sh.handles.lock().unwrap().remove(&h).unwrap();
                    let f = if lib == "futures" {
                        Fut::F(Box::pin(tracing_futures::Instrument::instrument(Scripted, s)))
                    } else {
                        Fut::T(Box::pin(Scripted.instrument(s)))
                    };
                    sh.futs.lock().unwrap().insert(fi, f);
                    json!(0)
                })
            }
            "poll" => pool.run(t, move |_, sh| {
                let mut f = sh.futs.lock().unwrap().remove(&fi).unwrap();
                let w = noop_waker();
                let mut cx = Context::from_waker(&w);
                let _ = match &mut f {
                    Fut::T(p) => p.as_mut().poll(&mut cx),
                    Fut::F(p) => p.as_mut().poll(&mut cx),
                };
                sh.futs.lock().unwrap().insert(fi, f);
                json!(0)
            }),
            "drop_fut" => pool.run(t, move |_, sh| {
                let f = sh.futs.lock().unwrap().remove(&fi);
                drop(f);
                json!(0)
            }),
            "into_inner" => pool.run(t, move |_, sh| {
                let f = sh.futs.lock().unwrap().remove(&fi).unwrap();
                match f {
                    Fut::T(p) => drop(Pin::into_inner(p).into_inner()),
                    Fut::F(p) => drop(Pin::into_inner(p).into_inner()),
                }
                json!(0)
            }),
            o => panic!("op {o}"),
        };
        let calls: Vec<Value> = drain(&log)
            .into_iter()
            .filter(|c| c.get("id").is_some())
            .map(|c| json!({"call": c["call"], "col": c["col"], "id": c["id"], "th": c["th"], "ret": c.get("ret").cloned().unwrap_or(json!(0))}))
            .collect();
        o["calls"] = json!(calls);
        if r.is_object() {
            o["panic"] = json!(true);
            o["hid"] = json!(0);
        } else {
            o["hid"] = r;
        }
        runner::child_emit(o);
    }
    // quiescence: the program drops everything it still holds; the monitor then demands all counts zero
    drain(&log);
    pool.txs.clear();
    for h in pool.hs.drain(..) {
        let _ = h.join();
    }
    let rest: Vec<Value> = drain(&log);
    sh.futs.lock().unwrap().clear();
    sh.handles.lock().unwrap().clear();
    let rest2 = drain(&log);
    let all: Vec<Value> = rest
        .into_iter()
        .chain(rest2)
        .filter(|c| c.get("id").is_some())
        .map(|c| json!({"call": c["call"], "col": c["col"], "id": c["id"], "th": c["th"], "ret": c.get("ret").cloned().unwrap_or(json!(0))}))
        .collect();
    runner::child_emit(json!({"ev": "quiesce", "calls": all}));
}

fn main() {
    if runner::is_child() {
        child();
    } else {
        runner::run_all(|i, b| json!({"ev": "reset", "beh": i, "acc": b["acc"], "alias": b["alias"], "src": b["src"]}));
    }
}
