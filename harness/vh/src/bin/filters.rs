//! C08 driver (spec/Filters): for every filter expression, what the real filter publishes
//! (callsite_enabled, max_level_hint) and what it decides (enabled) for every metadata in every
//! context, observed through a Spy on a real per-layer-filtered stack fed by real macro callsites.
use serde_json::{json, Value};
use tracing_core::{dispatch, Dispatch};
use tracing_subscriber::prelude::*;
use tracing_subscriber::registry::Registry;
use tracing_subscriber::subscribe::{Context, Filter, Subscribe};
use vh_common::fbuild::{build, hint_rank, set_flags, Spy};
use vh_common::pool;
use vh_common::rec::{drain, new_log};

struct Sink;
impl<C: tracing_core::Collect> Subscribe<C> for Sink {}

fn main() {
    vh_common::quiet_panics();
    let out = vh_common::TraceOut::from_env();
    let exprs = vh_common::read_input();
    let ctxs: Vec<Value> = vec![json!([]), json!(["p"])];
    out.emit(json!({"ev": "reset", "beh": 0}));
    for (i, f) in exprs.iter().enumerate() {
        let log = new_log();
        let r = vh_common::catch(|| {
            let real = build::<Registry>(f);
            let hint = hint_rank(real.max_level_hint());
            let spy = Spy { inner: real, log: log.clone() };
            let d = Dispatch::new(tracing_subscriber::registry().with(Sink.with_filter(spy)));
            let mut lines = vec![];
            dispatch::with_default(&d, || {
                // registration answers: hit every callsite once (already registered ones were re-offered by Dispatch::new)
                let mut cs: std::collections::HashMap<String, Value> = std::collections::HashMap::new();
                for c in drain(&log) {
                    if c["spy"] == "callsite_enabled" {
                        cs.insert(c["m"].to_string(), c["res"].clone());
                    }
                }
                for ctx in &ctxs {
                    set_flags(ctx);
                    let mut res = vec![];
                    for lvl in 1..=5u64 {
                        for tgt in pool::TARGETS {
                            for kind in ["event", "span"] {
                                drain(&log);
                                if kind == "event" {
                                    pool::emit_event(lvl, tgt);
                                } else {
                                    drop(pool::emit_span(lvl, tgt, 0));
                                }
                                let m = json!({"lvl": lvl, "tgt": tgt, "kind": kind});
                                let mut en = json!("uncalled");
                                for c in drain(&log) {
                                    if c["m"] == m {
                                        if c["spy"] == "callsite_enabled" {
                                            cs.insert(m.to_string(), c["res"].clone());
                                        } else if c["spy"] == "enabled" {
                                            en = c["res"].clone();
                                        }
                                    }
                                }
                                res.push(json!({"m": m, "cs": cs.get(&m.to_string()).cloned().unwrap_or(json!("unregistered")), "en": en}));
                            }
                        }
                    }
                    lines.push(json!({"ev": "case", "i": i, "f": f, "ctx": ctx, "hint": hint, "res": res}));
                }
            });
            lines
        });
        match r {
            Ok(lines) => {
                for l in lines {
                    out.emit(l);
                }
            }
            Err(e) => out.emit(json!({"ev": "case", "i": i, "f": f, "ctx": [], "hint": 9, "res": [], "panic": e})),
        }
    }
}
