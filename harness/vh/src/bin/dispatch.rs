//! C01 / C02 driver (spec/Dispatch): executes behaviours - histories of collector creation / drop,
//! scoped and global defaults, emissions through the real macros, rebuilds and dynamic-filter
//! flips - against the real crates, one OS process per behaviour, and logs what was observed.
use serde_json::{json, Value};
use std::collections::HashMap;
use std::sync::atomic::{AtomicBool, Ordering};
use std::sync::Arc;
use tracing_core::{dispatch, Dispatch, LevelFilter};
use vh_common::rec::{drain, new_log, rank_of_filter, FilterRec, RecCollector};
use vh_common::runner;
use vh_common::workers::Workers;

// ---- callsite pool: one real macro callsite per (kind, level, target) -----------------------
macro_rules! pool {
    ($( $i:literal : $lvl:ident $tgt:literal ),* $(,)?) => {
        fn emit_event(lvl: u64, tgt: &str) {
            $( if lvl == $i && tgt == $tgt { tracing::event!(target: $tgt, tracing::Level::$lvl, "e"); return; } )*
            panic!("no event callsite {lvl} {tgt}");
        }
        fn emit_span(lvl: u64, tgt: &str) -> tracing::Span {
            $( if lvl == $i && tgt == $tgt { return tracing::span!(target: $tgt, tracing::Level::$lvl, "s"); } )*
            panic!("no span callsite {lvl} {tgt}");
        }
        fn probe(lvl: u64, tgt: &str) -> bool {
            $( if lvl == $i && tgt == $tgt { return tracing::enabled!(target: $tgt, tracing::Level::$lvl); } )*
            panic!("no probe callsite {lvl} {tgt}");
        }
    };
}
pool! {
    1: ERROR "a", 2: WARN "a", 3: INFO "a", 4: DEBUG "a", 5: TRACE "a",
    1: ERROR "b", 2: WARN "b", 3: INFO "b", 4: DEBUG "b", 5: TRACE "b",
    1: ERROR "c", 2: WARN "c", 3: INFO "c", 4: DEBUG "c", 5: TRACE "c",
}

struct Ctx {
    guards: Vec<dispatch::DefaultGuard>,
}

fn ml() -> u64 {
    rank_of_filter(&LevelFilter::current())
}

fn child() {
    vh_common::quiet_panics();
    let beh = runner::child_input();
    let log = new_log();
    let mut handles: HashMap<u64, Dispatch> = HashMap::new();
    let mut flags: HashMap<u64, Arc<AtomicBool>> = HashMap::new();
    let mut ws: Workers<Ctx> = Workers::new(|| Ctx { guards: vec![] });
    for step in beh["steps"].as_array().unwrap() {
        let mut o = step.clone();
        let ev = step["ev"].as_str().unwrap();
        match ev {
            "new" => {
                let d = step["d"].as_u64().unwrap();
                let (mut c, flag) = RecCollector::new(d, FilterRec::from_json(&step["f"]), log.clone());
                // a collector that emits an ERROR event at target "a" when it is destroyed (on whichever thread that happens)
                fn on_reenter() {
                    emit_event(1, "b");
                }
                c.reenter_hook = Some(on_reenter);
                if step["drop_emit"].as_bool().unwrap_or(false) {
                    fn on_drop() {
                        emit_event(1, "a");
                    }
                    c.drop_hook = Some(on_drop);
                }
                // `static`: a collector that lives for the whole process, installed through Dispatch::from_static
                if step["static"].as_bool().unwrap_or(false) {
                    let leaked: &'static RecCollector = Box::leak(Box::new(c));
                    handles.insert(d, Dispatch::from_static(leaked));
                } else {
                    handles.insert(d, match step["wrap"].as_str().unwrap_or("") {
                        "arc" => Dispatch::new(Arc::new(c)),
                        "box" => Dispatch::new(Box::new(c) as Box<dyn tracing_core::Collect + Send + Sync>),
                        _ => Dispatch::new(c),
                    });
                }
                flags.insert(d, flag);
            }
            // a dispatch value over the no-op collector (Dispatch::none()): usable wherever a Dispatch is, registered nowhere
            "new_none" => {
                handles.insert(step["d"].as_u64().unwrap(), Dispatch::none());
            }
            "drop" => {
                handles.remove(&step["d"].as_u64().unwrap());
            }
            "flip" => {
                let f = &flags[&step["d"].as_u64().unwrap()];
                f.store(!f.load(Ordering::SeqCst), Ordering::SeqCst);
            }
            "rebuild" => tracing_core::callsite::rebuild_interest_cache(),
            "set_global" => {
                let d = handles[&step["d"].as_u64().unwrap()].clone();
                let t = step["t"].as_u64().unwrap_or(1);
                let r = ws.run(t, move |_| dispatch::set_global_default(d).is_ok());
                o["ok"] = json!(r.unwrap_or(false));
            }
            "set_default" => {
                let d = handles[&step["d"].as_u64().unwrap()].clone();
                let t = step["t"].as_u64().unwrap();
                ws.run(t, move |c| c.guards.push(dispatch::set_default(&d))).unwrap();
            }
            "unset" => {
                let t = step["t"].as_u64().unwrap();
                let n0 = vh_common::rec::DROP_HOOKS.load(Ordering::SeqCst);
                drain(&log);
                let r = ws.run(t, |c| drop(c.guards.pop()));
                if r.is_err() {
                    o["panic"] = json!(true);
                }
                // the scope held the last reference and the collector emitted while it was destroyed: that emission happens
                // after the scope is closed, on this thread
                if vh_common::rec::DROP_HOOKS.load(Ordering::SeqCst) > n0 || r.is_err() {
                    let calls = drain(&log);
                    let got: Vec<u64> = calls.iter().filter(|c| c["call"] == "event").map(|c| c["col"].as_u64().unwrap()).collect();
                    o["ml"] = json!(ml());
                    runner::child_emit(o);
                    o = json!({"ev": "emit", "t": t, "c": {"lvl": 1, "tgt": "a"}, "k": "event", "via": "drop",
                        "got": match got.len() { 0 => json!(0), 1 => json!(got[0]), _ => json!(-1) }, "ret": true});
                }
            }
            // open k scopes inside a closure that panics; the unwinding must restore the default
            "panic_scopes" => {
                let t = step["t"].as_u64().unwrap();
                let ds: Vec<Dispatch> = step["ds"].as_array().unwrap().iter().map(|d| handles[&d.as_u64().unwrap()].clone()).collect();
                let r = ws.run(t, move |_| {
                    let mut gs = vec![];
                    for d in &ds {
                        gs.push(dispatch::set_default(d));
                    }
                    // innermost guard must drop first: reverse order
                    let _rev: Vec<_> = gs.into_iter().rev().collect();
                    if true {
                        panic!("unwind");
                    }
                });
                o["panicked"] = json!(r.is_err());
            }
            // an emission made by a future wrapped in `WithDispatch` (tracing::instrument::WithCollector), polled once:
            // logged as the three actions it must be equal to -- set_default(d), emit, unset
            "wd_emit" => {
                let t = step["t"].as_u64().unwrap();
                let d = handles[&step["d"].as_u64().unwrap()].clone();
                let lvl = step["c"]["lvl"].as_u64().unwrap();
                let tgt = step["c"]["tgt"].as_str().unwrap().to_string();
                let k = step["k"].as_str().unwrap_or("event").to_string();
                drain(&log);
                let how = step["how"].as_str().unwrap_or("future").to_string();
                let r = ws.run(t, move |_| {
                    use std::future::Future;
                    use tracing::instrument::WithCollector;
                    let body = move || {
                        if k == "span" {
                            !emit_span(lvl, &tgt).is_disabled()
                        } else {
                            emit_event(lvl, &tgt);
                            true
                        }
                    };
                    // the same scope opened by dispatch::with_default, or by tracing's own re-export of it
                    if how == "with_default" {
                        return json!(dispatch::with_default(&d, body));
                    }
                    if how == "tracing_with_default" {
                        return json!(tracing::dispatch::with_default(&d, body));
                    }
                    let fut = async move { body() }.with_collector(d);
                    let mut fut = Box::pin(fut);
                    let w = vh_common::noop_waker();
                    let mut cx = std::task::Context::from_waker(&w);
                    match fut.as_mut().poll(&mut cx) {
                        std::task::Poll::Ready(v) => json!(v),
                        std::task::Poll::Pending => json!("pending"),
                    }
                });
                let calls = drain(&log);
                let want = if step["k"].as_str().unwrap_or("event") == "span" { "new_span" } else { "event" };
                let got: Vec<u64> = calls.iter().filter(|c| c["call"] == want).map(|c| c["col"].as_u64().unwrap()).collect();
                runner::child_emit(json!({"ev": "set_default", "t": t, "d": step["d"], "ml": ml(), "via": "WithDispatch"}));
                runner::child_emit(json!({"ev": "emit", "t": t, "c": step["c"], "k": step["k"], "ml": ml(), "via": "WithDispatch",
                    "got": match got.len() { 0 => json!(0), 1 => json!(got[0]), _ => json!(-1) }, "ret": r.unwrap_or(json!("panic"))}));
                o = json!({"ev": "unset", "t": t, "via": "WithDispatch"});
            }
            "emit" => {
                let t = step["t"].as_u64().unwrap();
                let lvl = step["c"]["lvl"].as_u64().unwrap();
                let tgt = step["c"]["tgt"].as_str().unwrap().to_string();
                let k = step["k"].as_str().unwrap_or("event").to_string();
                drain(&log);
                // `boom`: the receiving collector's callback panics after taking the event; the panic is caught around the
                // emission (state kept by the dispatcher across the callback must survive the unwinding)
                vh_common::rec::BOOM.store(step["boom"].as_bool().unwrap_or(false) && k == "event", Ordering::SeqCst);
                // `reenter`: the receiving collector emits an ERROR event at target "b" from inside its callback
                let reenter = step["reenter"].as_bool().unwrap_or(false) && k == "event";
                vh_common::rec::REENTER.store(reenter, Ordering::SeqCst);
                let r = ws.run(t, move |_| match k.as_str() {
                    "event" => {
                        emit_event(lvl, &tgt);
                        json!(true)
                    }
                    "span" => {
                        let s = emit_span(lvl, &tgt);
                        json!(!s.is_disabled())
                    }
                    _ => json!(probe(lvl, &tgt)),
                });
                vh_common::rec::BOOM.store(false, Ordering::SeqCst);
                let fired = reenter && !vh_common::rec::REENTER.swap(false, Ordering::SeqCst);
                let mut calls = drain(&log);
                // the re-entrant emission (if the outer one was delivered): reported as an emission of its own after this one
                let mut inner: Option<Value> = None;
                if fired {
                    let (lvl1, tgtb) = (1u64, "b");
                    let first = calls.iter().position(|c| c["call"] == "event");
                    let rest: Vec<u64> = calls.iter().enumerate().filter(|(i, c)| Some(*i) != first && c["call"] == "event" && c["lvl"] == lvl1 && c["tgt"] == tgtb)
                        .map(|(_, c)| c["col"].as_u64().unwrap()).collect();
                    inner = Some(json!({"ev": "emit", "t": t, "c": {"lvl": 1, "tgt": "b"}, "k": "event", "reentrant": true, "ret": true,
                        "got": match rest.len() { 0 => json!(0), 1 => json!(rest[0]), _ => json!(-1) }}));
                    if let Some(f) = first {
                        calls.truncate(f + 1);
                    }
                }
                // who received it: the collectors whose `event` / `new_span` ran for this emission
                let want = if step["k"].as_str().unwrap_or("event") == "span" { "new_span" } else { "event" };
                let got: Vec<u64> = calls.iter().filter(|c| c["call"] == want).map(|c| c["col"].as_u64().unwrap()).collect();
                o["got"] = match got.len() {
                    0 => json!(0),
                    1 => json!(got[0]),
                    _ => json!(-1), // delivered more than once: never a legal observation
                };
                o["ret"] = r.unwrap_or(json!("panic"));
                if let Some(i) = inner {
                    o["ml"] = json!(ml());
                    runner::child_emit(o);
                    o = i;
                }
            }
            e => panic!("unknown step {e}"),
        }
        o["ml"] = json!(ml());
        runner::child_emit(o);
    }
    // quiesce: drop guards on their own threads, innermost first
    ws.stop_all();
}

fn main() {
    if runner::is_child() {
        child();
    } else {
        runner::run_all(|i, b| json!({"ev": "reset", "beh": i, "static_max": 5, "src": b["src"]}));
    }
}
