//! Shared by the C10 driver (bin macros) and the C18 driver (harness-log): the value context handed to
//! every generated callsite (typed getters that count evaluations) and the typed recording visitor.
use serde_json::{json, Value};
use std::cell::RefCell;
use std::error::Error;
use std::fmt;
use tracing_core::field::{Field, Visit};

#[derive(Clone, Copy)]
pub struct DD(u32);
impl fmt::Display for DD {
    fn fmt(&self, f: &mut fmt::Formatter<'_>) -> fmt::Result {
        write!(f, "D{}", self.0)
    }
}
impl fmt::Debug for DD {
    fn fmt(&self, f: &mut fmt::Formatter<'_>) -> fmt::Result {
        write!(f, "G{}", self.0)
    }
}

#[derive(Debug)]
pub struct ChainErr {
    msg: String,
    source: Option<Box<ChainErr>>,
}
impl fmt::Display for ChainErr {
    fn fmt(&self, f: &mut fmt::Formatter<'_>) -> fmt::Result {
        f.write_str(&self.msg)
    }
}
impl Error for ChainErr {
    fn source(&self) -> Option<&(dyn Error + 'static)> {
        self.source.as_ref().map(|e| &**e as &(dyn Error + 'static))
    }
}
pub fn chain(msgs: &[String]) -> ChainErr {
    ChainErr { msg: msgs[0].clone(), source: if msgs.len() > 1 { Some(Box::new(chain(&msgs[1..]))) } else { None } }
}

pub struct Ctx {
    pub slots: Vec<Value>,
    pub strs: Vec<String>,
    pub bytes: Vec<Vec<u8>>,
    pub errs: Vec<Option<ChainErr>>,
    pub evals: RefCell<Vec<u32>>,
    pub parent: tracing::Span,
    pub notes: RefCell<Vec<Value>>,
}

pub fn unhex(s: &str) -> Vec<u8> {
    (0..s.len() / 2).map(|i| u8::from_str_radix(&s[2 * i..2 * i + 2], 16).unwrap()).collect()
}

impl Ctx {
    pub fn from_slots(slots: &[Value], parent: tracing::Span) -> Ctx {
        let strs = slots.iter().map(|s| String::from_utf8(unhex(s["str"].as_str().unwrap_or(""))).unwrap()).collect();
        let bytes = slots.iter().map(|s| unhex(s["bytes"].as_str().unwrap_or(""))).collect();
        let errs = slots.iter().map(|s| s["chain"].as_array().map(|a| chain(&a.iter().map(|m| m.as_str().unwrap().to_string()).collect::<Vec<_>>()))).collect();
        Ctx { evals: RefCell::new(vec![0; slots.len()]), slots: slots.to_vec(), strs, bytes, errs, parent, notes: RefCell::new(vec![]) }
    }
}
macro_rules! num_getters {
    ($($name:ident $nz:ident : $t:ty, $nzt:ty);* $(;)?) => {
        $(
            pub fn $name(&self, i: usize) -> $t { self.hit(i); self.slots[i]["v"].as_str().unwrap().parse::<$t>().unwrap() }
            pub fn $nz(&self, i: usize) -> $nzt { <$nzt>::new(self.$name(i)).unwrap() }
        )*
    };
}
impl Ctx {
    fn hit(&self, i: usize) {
        self.evals.borrow_mut()[i] += 1;
    }
    num_getters! {
        v_u8 v_nz_u8: u8, core::num::NonZeroU8; v_u16 v_nz_u16: u16, core::num::NonZeroU16; v_u32 v_nz_u32: u32, core::num::NonZeroU32;
        v_u64 v_nz_u64: u64, core::num::NonZeroU64; v_usize v_nz_usize: usize, core::num::NonZeroUsize; v_u128 v_nz_u128: u128, core::num::NonZeroU128;
        v_i8 v_nz_i8: i8, core::num::NonZeroI8; v_i16 v_nz_i16: i16, core::num::NonZeroI16; v_i32 v_nz_i32: i32, core::num::NonZeroI32;
        v_i64 v_nz_i64: i64, core::num::NonZeroI64; v_isize v_nz_isize: isize, core::num::NonZeroIsize; v_i128 v_nz_i128: i128, core::num::NonZeroI128;
    }
    pub fn v_f64(&self, i: usize) -> f64 {
        self.hit(i);
        f64::from_bits(u64::from_str_radix(self.slots[i]["v"].as_str().unwrap(), 16).unwrap())
    }
    pub fn v_f32(&self, i: usize) -> f32 {
        self.hit(i);
        f32::from_bits(u32::from_str_radix(self.slots[i]["v"].as_str().unwrap(), 16).unwrap())
    }
    pub fn v_bool(&self, i: usize) -> bool {
        self.hit(i);
        self.slots[i]["v"].as_str().unwrap() == "true"
    }
    pub fn v_str(&self, i: usize) -> &str {
        self.hit(i);
        &self.strs[i]
    }
    pub fn v_string(&self, i: usize) -> String {
        self.hit(i);
        self.strs[i].clone()
    }
    pub fn v_box_str(&self, i: usize) -> Box<str> {
        self.hit(i);
        self.strs[i].clone().into_boxed_str()
    }
    pub fn v_bytes(&self, i: usize) -> &[u8] {
        self.hit(i);
        &self.bytes[i]
    }
    pub fn v_dd(&self, i: usize) -> DD {
        self.hit(i);
        DD(self.slots[i]["v"].as_str().unwrap().parse().unwrap())
    }
    pub fn v_err(&self, i: usize) -> &(dyn Error + 'static) {
        self.hit(i);
        self.errs[i].as_ref().unwrap()
    }
    pub fn v_err_send(&self, i: usize) -> &(dyn Error + Send + 'static) {
        self.hit(i);
        self.errs[i].as_ref().unwrap()
    }
    pub fn v_err_sync(&self, i: usize) -> &(dyn Error + Sync + 'static) {
        self.hit(i);
        self.errs[i].as_ref().unwrap()
    }
    pub fn v_err_send_sync(&self, i: usize) -> &(dyn Error + Send + Sync + 'static) {
        self.hit(i);
        self.errs[i].as_ref().unwrap()
    }
    pub fn v_box_err(&self, i: usize) -> Box<dyn Error + Send + Sync + 'static> {
        self.hit(i);
        let msgs: Vec<String> = self.slots[i]["chain"].as_array().unwrap().iter().map(|m| m.as_str().unwrap().to_string()).collect();
        Box::new(chain(&msgs))
    }
    pub fn parent(&self) -> &tracing::Span {
        &self.parent
    }
    pub fn span_made(&self, sp: &tracing::Span) {
        self.notes.borrow_mut().push(json!({"span_disabled": sp.is_disabled()}));
        sp.in_scope(|| ());
        // the owned-guard path: entered() ... exit() hands the span back
        let back = sp.clone().entered().exit();
        drop(back);
    }
    pub fn enabled_result(&self, r: bool) {
        self.notes.borrow_mut().push(json!({"enabled_result": r}));
    }
}

pub fn hexs(b: &[u8]) -> String {
    b.iter().map(|x| format!("{:02x}", x)).collect()
}

pub struct V<'a>(pub &'a mut Vec<Value>);
impl Visit for V<'_> {
    fn record_f64(&mut self, f: &Field, v: f64) {
        self.0.push(json!({"name": f.name(), "m": "f64", "v": format!("{:016x}", v.to_bits())}));
    }
    fn record_i64(&mut self, f: &Field, v: i64) {
        self.0.push(json!({"name": f.name(), "m": "i64", "v": v.to_string()}));
    }
    fn record_u64(&mut self, f: &Field, v: u64) {
        self.0.push(json!({"name": f.name(), "m": "u64", "v": v.to_string()}));
    }
    fn record_i128(&mut self, f: &Field, v: i128) {
        self.0.push(json!({"name": f.name(), "m": "i128", "v": v.to_string()}));
    }
    fn record_u128(&mut self, f: &Field, v: u128) {
        self.0.push(json!({"name": f.name(), "m": "u128", "v": v.to_string()}));
    }
    fn record_bool(&mut self, f: &Field, v: bool) {
        self.0.push(json!({"name": f.name(), "m": "bool", "v": v.to_string()}));
    }
    fn record_str(&mut self, f: &Field, v: &str) {
        self.0.push(json!({"name": f.name(), "m": "str", "v": hexs(v.as_bytes())}));
    }
    fn record_bytes(&mut self, f: &Field, v: &[u8]) {
        self.0.push(json!({"name": f.name(), "m": "bytes", "v": hexs(v)}));
    }
    fn record_error(&mut self, f: &Field, v: &(dyn Error + 'static)) {
        let mut parts = vec![v.to_string()];
        let mut cur = v.source();
        while let Some(e) = cur {
            parts.push(e.to_string());
            cur = e.source();
        }
        self.0.push(json!({"name": f.name(), "m": "error", "v": hexs(parts.join("|").as_bytes())}));
    }
    fn record_debug(&mut self, f: &Field, v: &dyn fmt::Debug) {
        self.0.push(json!({"name": f.name(), "m": "debug", "v": hexs(format!("{:?}", v).as_bytes())}));
    }
}

