//! C10 driver (spec/Fields): runs every callsite of the generated macro corpus (corpus.rs) under
//! four collectors (accepting; register_callsite = never; enabled() = false; max-level hint below
//! the callsite) with the value assignment of each case, and logs what a typed recording visitor
//! was shown, how often every value expression was evaluated and which collector methods ran.
use serde_json::{json, Value};
use std::sync::{Arc, Mutex};
use tracing_core::span::{Attributes, Id, Record};
use tracing_core::{dispatch, Collect, Dispatch, Event, Interest, LevelFilter, Metadata};

mod corpus;
mod ctx;
pub use ctx::{Ctx, V};

/// mode: "accept" | "never" | "dynamic" | "cap" (hint one below the callsite's level)
struct Rec {
    mode: &'static str,
    cap: u64,
    log: Arc<Mutex<Vec<Value>>>,
}
impl Rec {
    fn ours(m: &Metadata<'_>) -> bool {
        m.name() != "vh_parent"
    }
}
impl Collect for Rec {
    fn register_callsite(&self, m: &'static Metadata<'static>) -> Interest {
        if !Rec::ours(m) {
            return Interest::always();
        }
        match self.mode {
            "never" => Interest::never(),
            "dynamic" => Interest::sometimes(),
            _ => Interest::always(),
        }
    }
    fn enabled(&self, m: &Metadata<'_>) -> bool {
        if !Rec::ours(m) {
            return true;
        }
        self.log.lock().unwrap().push(json!({"call": "enabled"}));
        self.mode == "accept" || self.mode == "cap"
    }
    fn max_level_hint(&self) -> Option<LevelFilter> {
        if self.mode == "cap" {
            Some(vh_common::rec::filter_of_rank(self.cap))
        } else {
            None
        }
    }
    fn new_span(&self, a: &Attributes<'_>) -> Id {
        if Rec::ours(a.metadata()) {
            let mut visits = vec![];
            a.record(&mut V(&mut visits));
            let m = a.metadata();
            // how the parent was given: explicit root, an explicit parent (the harness's own span has id 1), or left to the context
            let pk = if a.is_root() { "root" } else if a.parent().map(|p| p.into_u64()) == Some(1) { "given" } else if a.parent().is_some() { "other" } else { "ctx" };
            self.log.lock().unwrap().push(json!({"call": "new_span", "pk": pk, "visits": visits, "name": m.name(), "target": m.target(), "level": vh_common::rec::rank(m.level()),
                "declared": m.fields().iter().map(|f| f.name().to_string()).collect::<Vec<_>>()}));
            Id::from_u64(2)
        } else {
            Id::from_u64(1)
        }
    }
    fn record(&self, id: &Id, r: &Record<'_>) {
        if id.into_u64() == 2 {
            let mut visits = vec![];
            r.record(&mut V(&mut visits));
            self.log.lock().unwrap().push(json!({"call": "record", "visits": visits}));
        }
    }
    fn record_follows_from(&self, _: &Id, _: &Id) {}
    fn event(&self, e: &Event<'_>) {
        let mut visits = vec![];
        e.record(&mut V(&mut visits));
        let m = e.metadata();
        let pk = if e.is_root() { "root" } else if e.parent().map(|p| p.into_u64()) == Some(1) { "given" } else if e.parent().is_some() { "other" } else { "ctx" };
        self.log.lock().unwrap().push(json!({"call": "event", "pk": pk, "visits": visits, "name": m.name(), "target": m.target(), "level": vh_common::rec::rank(m.level()),
            "declared": m.fields().iter().map(|f| f.name().to_string()).collect::<Vec<_>>()}));
    }
    fn enter(&self, _: &Id) {}
    fn exit(&self, _: &Id) {}
    fn current_span(&self) -> tracing_core::span::Current {
        tracing_core::span::Current::none()
    }
}

fn main() {
    vh_common::quiet_panics();
    let out = vh_common::TraceOut::from_env();
    let cases = vh_common::read_input();
    // the compile-time cap of this build (`max_level_*` features of tracing): 5 = none
    let static_max = vh_common::rec::rank_of_filter(&tracing::level_filters::STATIC_MAX_LEVEL);
    for (n, c) in cases.iter().enumerate() {
        if n % 400 == 0 {
            out.emit(json!({"ev": "reset", "beh": n / 400}));
        }
        let cs = c["cs"].as_u64().unwrap() as usize;
        let mode: &'static str = match c["mode"].as_str().unwrap() {
            "accept" => "accept",
            "never" => "never",
            "dynamic" => "dynamic",
            _ => "cap",
        };
        let slots: Vec<Value> = c["slots"].as_array().unwrap().clone();
        let after_panic = c["after_panic"].as_bool().unwrap_or(false);
        let log = Arc::new(Mutex::new(vec![]));
        let d = Dispatch::new(Rec { mode, cap: c["cap"].as_u64().unwrap_or(0), log: log.clone() });
        let r = vh_common::catch(|| {
            dispatch::with_default(&d, || {
                let ctx = Ctx::from_slots(&slots, tracing::span!(tracing::Level::ERROR, "vh_parent"));
                if after_panic {
                    // an earlier emission on this thread panicked inside the collector's visitor (a field whose Debug panics);
                    // the panic was caught: this callsite must be unaffected
                    struct Grumpy;
                    impl std::fmt::Debug for Grumpy {
                        fn fmt(&self, _: &mut std::fmt::Formatter<'_>) -> std::fmt::Result {
                            panic!("a field's Debug impl panics")
                        }
                    }
                    let _ = vh_common::catch(|| tracing::error!(grumpy = ?Grumpy));
                }
                log.lock().unwrap().clear();
                corpus::SITES[cs](&ctx);
                let ev = ctx.evals.borrow().clone();
                let notes = ctx.notes.borrow().clone();
                (ev, notes)
            })
        });
        let calls = log.lock().unwrap().clone();
        match r {
            Ok((evals, notes)) => out.emit(json!({"ev": "run", "static_max": static_max, "n": n, "cs": cs, "mode": mode, "cap": c["cap"], "decl": c["decl"], "slots": c["slots"], "evals": evals, "notes": notes, "calls": calls})),
            Err(e) => out.emit(json!({"ev": "run", "static_max": static_max, "n": n, "cs": cs, "mode": mode, "cap": c["cap"], "decl": c["decl"], "slots": c["slots"], "evals": [], "notes": [], "calls": calls, "panic": e})),
        }
    }
}

