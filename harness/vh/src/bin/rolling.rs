//! C16 driver (spec/Rolling): a real RollingFileAppender in a scratch directory, its clock scripted
//! through the verification hook, written through both the exclusive `io::Write` interface and the
//! shared `MakeWriter` interface; after every write the directory is listed with file contents.
use serde_json::{json, Value};
use std::io::Write;
use tracing_appender::rolling::{verif, RollingFileAppender, Rotation};
use tracing_subscriber::fmt::writer::MakeWriter;
use vh_common::runner;

fn listing(dir: &std::path::Path) -> Vec<Value> {
    let mut v: Vec<Value> = std::fs::read_dir(dir)
        .map(|d| {
            d.filter_map(|e| e.ok())
                .map(|e| json!({"name": e.file_name().to_string_lossy(), "content": std::fs::read_to_string(e.path()).unwrap_or_else(|_| "<unreadable>".into())}))
                .collect()
        })
        .unwrap_or_default();
    v.sort_by_key(|x| x["name"].as_str().unwrap().to_string());
    v
}

fn child() {
    vh_common::quiet_panics();
    let b = runner::child_input();
    let dir = std::env::temp_dir().join(format!("vh-rolling-{}-{}", std::process::id(), b["id"].as_u64().unwrap_or(0)));
    let _ = std::fs::remove_dir_all(&dir);
    std::fs::create_dir_all(&dir).unwrap();
    // files left in the directory by earlier runs of the program (older periods, possibly a later one after a clock step back),
    // created in the given order
    for f in b["leftovers"].as_array().map(|a| a.to_vec()).unwrap_or_default() {
        std::fs::write(dir.join(f["name"].as_str().unwrap()), f["content"].as_str().unwrap_or("")).unwrap();
        std::thread::sleep(std::time::Duration::from_millis(12));
    }
    verif::set_clock(Some(b["t0"].as_i64().unwrap()));
    let rot = match b["kind"].as_str().unwrap() {
        "minutely" => Rotation::MINUTELY,
        "hourly" => Rotation::HOURLY,
        "daily" => Rotation::DAILY,
        _ => Rotation::NEVER,
    };
    let mut bld = RollingFileAppender::builder().rotation(rot.clone());
    if let Some(p) = b["prefix"].as_str() {
        bld = bld.filename_prefix(p);
    }
    if let Some(s) = b["suffix"].as_str() {
        bld = bld.filename_suffix(s);
    }
    if let Some(n) = b["max_files"].as_u64() {
        if n > 0 {
            bld = bld.max_log_files(n as usize);
        }
    }
    // the other constructors (prefix only): RollingFileAppender::new and the helpers minutely / hourly / daily / never
    let ctor = b["ctor"].as_str().unwrap_or("builder");
    let built = match (ctor, b["prefix"].as_str()) {
        ("new", Some(p)) => vh_common::catch(|| RollingFileAppender::new(rot.clone(), &dir, p)).map_err(|e| e.to_string()),
        ("helper", Some(p)) => vh_common::catch(|| match b["kind"].as_str().unwrap() {
            "minutely" => tracing_appender::rolling::minutely(&dir, p),
            "hourly" => tracing_appender::rolling::hourly(&dir, p),
            "daily" => tracing_appender::rolling::daily(&dir, p),
            _ => tracing_appender::rolling::never(&dir, p),
        })
        .map_err(|e| e.to_string()),
        _ => bld.build(&dir).map_err(|e| e.to_string()),
    };
    let mut app = match built {
        Ok(a) => a,
        Err(e) => {
            runner::child_emit(json!({"ev": "init", "error": e}));
            return;
        }
    };
    runner::child_emit(json!({"ev": "init", "files": listing(&dir)}));
    // creation times decide what is pruned: keep the first file apart from the next one on the file system's clock
    std::thread::sleep(std::time::Duration::from_millis(12));
    let mut nfiles = 1;
    fn hook(site: &'static str) {
        vh_common::sched::point(site);
    }
    verif::set_hook(Some(hook));
    for st in b["steps"].as_array().unwrap() {
        let mut o = st.clone();
        o["ev"] = json!("op");
        verif::set_clock(Some(st["now"].as_i64().unwrap()));
        if st["op"] == "race" {
            // several threads go through make_writer at the same clock reading, under a prescribed schedule
            let ids: Vec<u64> = st["ids"].as_array().unwrap().iter().map(|x| x.as_u64().unwrap()).collect();
            let schedule: Vec<u64> = st["schedule"].as_array().unwrap().iter().map(|x| x.as_u64().unwrap()).collect();
            // `nows`: every thread has its own clock reading (taken right before make_writer, with no yield point in between)
            let nows: Vec<i64> = st["nows"].as_array().map(|a| a.iter().map(|x| x.as_i64().unwrap()).collect()).unwrap_or_default();
            vh_common::sched::begin(ids.len(), &schedule);
            std::thread::scope(|sc| {
                for (j, id) in ids.iter().enumerate() {
                    let app = &app;
                    let mynow = nows.get(j).copied();
                    sc.spawn(move || {
                        vh_common::sched::enter(j as u64 + 1);
                        let buf = format!("b{}\n", id);
                        if let Some(n) = mynow {
                            verif::set_clock(Some(n));
                        }
                        let mut w = app.make_writer();
                        let _ = w.write_all(buf.as_bytes());
                        let _ = w.flush();
                        drop(w);
                        vh_common::sched::leave();
                    });
                }
            });
            let (log, stalled) = vh_common::sched::end();
            o["sched_log"] = json!(log);
            o["write_ok"] = json!(!stalled);
            std::thread::sleep(std::time::Duration::from_millis(12));
            let l = listing(&dir);
            nfiles = l.len();
            o["listing"] = json!(l);
            runner::child_emit(o);
            continue;
        }
        if st["op"] == "held" {
            // thread A obtains a writer at `now1`, writes, and keeps it; thread B calls make_writer at `now` (a later period) and
            // writes; A writes once more through the old writer 40 ms later and drops it.  Logged as: write(a1 @ now1); race([a2, b1] @ now)
            let ids: Vec<u64> = st["ids"].as_array().unwrap().iter().map(|x| x.as_u64().unwrap()).collect();
            verif::set_hook(None);
            verif::set_clock(Some(st["now1"].as_i64().unwrap()));
            let (tx, rx) = std::sync::mpsc::channel::<()>();
            let mut ok = true;
            std::thread::scope(|sc| {
                let app = &app;
                let (a1, a2, b1) = (ids[0], ids[1], ids[2]);
                let ha = sc.spawn(move || {
                    let mut w = app.make_writer();
                    let r1 = w.write_all(format!("b{}\n", a1).as_bytes());
                    tx.send(()).unwrap();
                    std::thread::sleep(std::time::Duration::from_millis(40));
                    let r2 = w.write_all(format!("b{}\n", a2).as_bytes());
                    drop(w);
                    r1.is_ok() && r2.is_ok()
                });
                rx.recv().unwrap();
                let mut first = st.clone();
                first["ev"] = json!("op");
                first["op"] = json!("write");
                first["now"] = st["now1"].clone();
                first["id"] = json!(a1);
                first["write_ok"] = json!(true);
                first["listing"] = json!(listing(&dir));
                runner::child_emit(first);
                verif::set_clock(Some(st["now"].as_i64().unwrap()));
                let hb = sc.spawn(move || {
                    let mut w = app.make_writer();
                    w.write_all(format!("b{}\n", b1).as_bytes()).is_ok()
                });
                ok = ha.join().unwrap_or(false) & hb.join().unwrap_or(false);
            });
            verif::set_hook(Some(hook));
            std::thread::sleep(std::time::Duration::from_millis(12));
            let l = listing(&dir);
            nfiles = l.len();
            o["op"] = json!("race");
            o["ids"] = json!([ids[1], ids[2]]);
            o["write_ok"] = json!(ok);
            o["listing"] = json!(l);
            runner::child_emit(o);
            continue;
        }
        let buf = format!("b{}\n", st["id"].as_u64().unwrap());
        let r = vh_common::catch(|| {
            if st["iface"] == "mw" {
                let mut w = app.make_writer();
                w.write_all(buf.as_bytes()).and_then(|_| w.flush())
            } else {
                app.write_all(buf.as_bytes()).and_then(|_| app.flush())
            }
        });
        o["write_ok"] = json!(matches!(r, Ok(Ok(()))));
        let l = listing(&dir);
        if l.len() != nfiles {
            std::thread::sleep(std::time::Duration::from_millis(12));
        } else if st["rot_hint"].as_bool().unwrap_or(false) {
            std::thread::sleep(std::time::Duration::from_millis(12));
        }
        nfiles = l.len();
        o["listing"] = json!(l);
        runner::child_emit(o);
    }
    drop(app);
    let _ = std::fs::remove_dir_all(&dir);
}

fn main() {
    if runner::is_child() {
        child();
    } else {
        runner::run_all(|i, b| json!({"ev": "reset", "beh": i, "kind": b["kind"], "prefix": b["prefix"], "suffix": b["suffix"], "max_files": b["max_files"], "t0": b["t0"]}));
    }
}
