//! C07 / C08 (stack part) / C09 driver (spec/LayerStack): builds real stacks of layers over the
//! registry from a JSON tree (plain recording layers, global filter layers, per-layer-filtered layers,
//! and_then trees, Vec / Option / Box / reload / Identity wrappers, boxed or arc'd collectors), runs a
//! history of spans, events, probes and flag flips through the real macros on 1-2 threads, and logs
//! every callback every recording layer received, in global order, with what its lookups returned.
use serde_json::{json, Value};
use std::collections::HashMap;
use std::sync::atomic::{AtomicU64, Ordering};
use std::sync::{Arc, Condvar, Mutex};
use tracing::Span;
use tracing_core::{collect::Interest, dispatch, span, Collect, Dispatch, Event, LevelFilter, Metadata};
use tracing_subscriber::registry::{LookupSpan, Registry};
use tracing_subscriber::subscribe::{CollectExt, Context, Identity, Layered, Subscribe};
use tracing_subscriber::{reload, Subscribe as _};
use vh_common::fbuild::{self, build, hint_rank, interest_name, meta_json, set_flags};
use vh_common::pool;
use vh_common::rec::{drain, new_log, rank, Log};
use vh_common::runner;
use vh_common::workers::Workers;

type B<C> = Box<dyn Subscribe<C> + Send + Sync + 'static>;

static SEQ: AtomicU64 = AtomicU64::new(0);
lazy_static_ids!();

// id -> token table shared by the recording layers of one process (filled by whoever sees new_span)
macro_rules! lazy_static_ids {
    () => {
        fn ids() -> &'static Mutex<HashMap<u64, u64>> {
            static M: std::sync::OnceLock<Mutex<HashMap<u64, u64>>> = std::sync::OnceLock::new();
            M.get_or_init(|| Mutex::new(HashMap::new()))
        }
    };
}
use lazy_static_ids;

struct KVisit(Option<u64>);
impl tracing_core::field::Visit for KVisit {
    fn record_u64(&mut self, f: &tracing_core::Field, v: u64) {
        if f.name() == "k" {
            self.0 = Some(v);
        }
    }
    fn record_debug(&mut self, _: &tracing_core::Field, _: &dyn std::fmt::Debug) {}
}

fn tok(id: &span::Id) -> i64 {
    ids().lock().unwrap().get(&id.into_u64()).map(|t| *t as i64).unwrap_or(-1)
}

struct Rec {
    name: String,
    log: Log,
    interest: String, // what register_callsite answers: always | sometimes
    log_reg: bool,
}
impl Rec {
    fn push(&self, mut v: Value) {
        v["L"] = json!(self.name);
        v["seq"] = json!(SEQ.fetch_add(1, Ordering::SeqCst));
        self.log.lock().unwrap().push(v);
    }
}
impl<C> Subscribe<C> for Rec
where
    C: Collect + for<'a> LookupSpan<'a>,
{
    fn on_register_dispatch(&self, _: &Dispatch) {
        self.push(json!({"cb": "register_dispatch"}));
    }
    fn register_callsite(&self, m: &'static Metadata<'static>) -> Interest {
        if self.log_reg {
            self.push(json!({"cb": "register_callsite", "m": meta_json(m)}));
        }
        if self.interest == "sometimes" {
            Interest::sometimes()
        } else {
            Interest::always()
        }
    }
    fn on_new_span(&self, attrs: &span::Attributes<'_>, id: &span::Id, ctx: Context<'_, C>) {
        let mut v = KVisit(None);
        attrs.record(&mut v);
        if let Some(k) = v.0 {
            ids().lock().unwrap().insert(id.into_u64(), k);
        }
        let par = ctx.span(id).and_then(|s| s.parent().map(|p| tok(&p.id()))).unwrap_or(0);
        self.push(json!({"cb": "new_span", "tok": tok(id), "par": par}));
    }
    fn on_record(&self, id: &span::Id, _: &span::Record<'_>, _: Context<'_, C>) {
        self.push(json!({"cb": "record", "tok": tok(id)}));
    }
    fn on_follows_from(&self, id: &span::Id, f: &span::Id, _: Context<'_, C>) {
        self.push(json!({"cb": "follows_from", "tok": tok(id), "from": tok(f)}));
    }
    fn on_event(&self, e: &Event<'_>, ctx: Context<'_, C>) {
        let cur = ctx.lookup_current().map(|s| tok(&s.id())).unwrap_or(0);
        let chain: Vec<i64> = ctx.event_scope(e).map(|sc| sc.map(|s| tok(&s.id())).collect()).unwrap_or_default();
        self.push(json!({"cb": "event", "cur": cur, "chain": chain}));
    }
    fn on_enter(&self, id: &span::Id, ctx: Context<'_, C>) {
        let cur = ctx.lookup_current().map(|s| tok(&s.id())).unwrap_or(0);
        self.push(json!({"cb": "enter", "tok": tok(id), "cur": cur}));
    }
    fn on_exit(&self, id: &span::Id, _: Context<'_, C>) {
        self.push(json!({"cb": "exit", "tok": tok(id)}));
    }
    fn on_close(&self, id: span::Id, ctx: Context<'_, C>) {
        let chain: Vec<i64> = ctx.span_scope(&id).map(|sc| sc.map(|s| tok(&s.id())).collect()).unwrap_or_default();
        self.push(json!({"cb": "close", "tok": tok(&id), "chain": chain}));
    }
    fn on_id_change(&self, old: &span::Id, new: &span::Id, _: Context<'_, C>) {
        self.push(json!({"cb": "id_change", "tok": tok(old), "new": new.into_u64()}));
    }
}

/// a global layer vetoing events of one target in `event_enabled` (after the `enabled` pass)
struct EvVeto {
    tgt: String,
}
impl<C: Collect> Subscribe<C> for EvVeto {
    fn event_enabled(&self, e: &Event<'_>, _: Context<'_, C>) -> bool {
        e.metadata().target() != self.tgt
    }
}

/// a global filter layer that is static (`always`) for target "a" and dynamic for everything else
struct Mixed {
    l: u64,
    flag: String,
}
impl<C: Collect> Subscribe<C> for Mixed {
    fn register_callsite(&self, m: &'static Metadata<'static>) -> Interest {
        if m.target() == "a" {
            Interest::always()
        } else {
            Interest::sometimes()
        }
    }
    fn enabled(&self, m: &Metadata<'_>, _: Context<'_, C>) -> bool {
        m.target() == "a" || (rank(m.level()) <= self.l && (self.flag.is_empty() || fbuild::flag(&self.flag)))
    }
}

/// a `modify` on a reload handle whose closure parks (holding the handle's write lock) until released
struct HoldGate {
    st: Mutex<u8>, // 0 idle, 1 parked, 2 released
    cv: Condvar,
}
impl HoldGate {
    fn new() -> Self {
        HoldGate { st: Mutex::new(0), cv: Condvar::new() }
    }
    fn park(&self) {
        let mut g = self.st.lock().unwrap();
        *g = 1;
        self.cv.notify_all();
        while *g != 2 {
            g = self.cv.wait(g).unwrap();
        }
    }
    fn wait_parked(&self) {
        let mut g = self.st.lock().unwrap();
        while *g == 0 {
            g = self.cv.wait(g).unwrap();
        }
    }
    fn release(&self) {
        *self.st.lock().unwrap() = 2;
        self.cv.notify_all();
    }
}
type HoldFn = Arc<dyn Fn(&HoldGate) + Send + Sync>;
type SwapFn = Arc<dyn Fn(bool) + Send + Sync>;

#[derive(Clone)]
struct Env {
    log: Log,
    log_reg: bool,
    /// per reload element with an `id`: a way to hold its write lock, and (swap elements) to reload it to Some(..) / None
    holds: Arc<Mutex<HashMap<u64, HoldFn>>>,
    swaps: Arc<Mutex<HashMap<u64, SwapFn>>>,
}

fn gfilter<C>(f: &Value) -> B<C>
where
    C: Collect + for<'a> LookupSpan<'a> + 'static,
{
    use tracing_subscriber::filter::{dynamic_filter_fn, filter_fn, Targets};
    let hint = |v: &Value| match v.as_u64() {
        Some(h) if h <= 5 => Some(vh_common::rec::filter_of_rank(h)),
        _ => None,
    };
    match f["k"].as_str().unwrap() {
        "level" => Box::new(vh_common::rec::filter_of_rank(f["l"].as_u64().unwrap())),
        "targets" => {
            let mut t = Targets::new();
            for d in f["dirs"].as_array().map(|a| a.as_slice()).unwrap_or(&[]) {
                let lvl = vh_common::rec::filter_of_rank(d["l"].as_u64().unwrap());
                let name = d["t"].as_str().unwrap();
                t = if name.is_empty() { t.with_default(lvl) } else { t.with_target(name, lvl) };
            }
            Box::new(t)
        }
        "fn" => {
            let l = f["l"].as_u64().unwrap();
            let tgt = f["tgt"].as_str().unwrap().to_string();
            let ff = filter_fn(move |m: &Metadata<'_>| rank(m.level()) <= l && (tgt == "*" || m.target() == tgt));
            match hint(&f["hint"]) {
                Some(h) => Box::new(ff.with_max_level_hint(h)),
                None => Box::new(ff),
            }
        }
        "dyn" => {
            let l = f["l"].as_u64().unwrap();
            let fl = f["flag"].as_str().unwrap().to_string();
            let ff = dynamic_filter_fn(move |m: &Metadata<'_>, _: &Context<'_, C>| rank(m.level()) <= l && (fl.is_empty() || fbuild::flag(&fl)));
            match hint(&f["hint"]) {
                Some(h) => Box::new(ff.with_max_level_hint(h)),
                None => Box::new(ff),
            }
        }
        "mixed" => Box::new(Mixed { l: f["l"].as_u64().unwrap(), flag: f["flag"].as_str().unwrap().to_string() }),
        k => panic!("filter kind {k} cannot be a global layer"),
    }
}

fn wrap_filter<C>(f: fbuild::BoxFilter<C>, w: &str) -> fbuild::BoxFilter<C>
where
    C: Collect + for<'a> LookupSpan<'a> + 'static,
{
    match w {
        "box" => Box::new(f),
        "arc" => Box::new(Arc::<dyn tracing_subscriber::subscribe::Filter<C> + Send + Sync>::from(f)),
        "some" => Box::new(Some(f)),
        "reload" => {
            let (l, h) = reload::Subscriber::new(f);
            std::mem::forget(h);
            Box::new(l)
        }
        _ => f,
    }
}

fn mk<C>(e: &Value, env: &Env) -> B<C>
where
    C: Collect + for<'a> LookupSpan<'a> + 'static,
{
    match e["e"].as_str().unwrap() {
        "rec" => Box::new(Rec {
            name: e["name"].as_str().unwrap().to_string(),
            log: env.log.clone(),
            interest: e["interest"].as_str().unwrap_or("always").to_string(),
            log_reg: env.log_reg,
        }),
        "gfilter" => gfilter::<C>(&e["f"]),
        "evveto" => Box::new(EvVeto { tgt: e["tgt"].as_str().unwrap().to_string() }),
        "filtered" => {
            let f = wrap_filter::<C>(build::<C>(&e["f"]), e["fwrap"].as_str().unwrap_or(""));
            Box::new(mk::<C>(&e["inner"], env).with_filter(f))
        }
        "and_then" => Box::new(mk::<C>(&e["a"], env).and_then(mk::<C>(&e["b"], env))),
        "vec" => Box::new(e["items"].as_array().unwrap().iter().map(|x| mk::<C>(x, env)).collect::<Vec<_>>()),
        "opt" => Box::new(if e["inner"].is_null() { None } else { Some(mk::<C>(&e["inner"], env)) }),
        "box" => Box::new(mk::<C>(&e["inner"], env)),
        "reload" => {
            let (l, h) = reload::Subscriber::new(mk::<C>(&e["inner"], env));
            if let Some(id) = e["id"].as_u64() {
                let h2 = h.clone();
                env.holds.lock().unwrap().insert(id, Arc::new(move |g: &HoldGate| {
                    let _ = h2.modify(|_| g.park());
                }));
            }
            std::mem::forget(h);
            Box::new(l)
        }
        // a reload handle over an optional layer, switched between Some(layer) and None while the stack is in use
        "swap" => {
            let id = e["id"].as_u64().unwrap();
            let init: Option<B<C>> = if e["on"].as_bool().unwrap_or(true) { Some(mk::<C>(&e["inner"], env)) } else { None };
            let (l, h) = reload::Subscriber::new(init);
            let (h2, h3, inner, env2) = (h.clone(), h.clone(), e["inner"].clone(), env.clone());
            env.holds.lock().unwrap().insert(id, Arc::new(move |g: &HoldGate| {
                let _ = h2.modify(|_| g.park());
            }));
            env.swaps.lock().unwrap().insert(id, Arc::new(move |on: bool| {
                h3.reload(if on { Some(mk::<C>(&inner, &env2)) } else { None }).expect("reload");
            }));
            std::mem::forget(h);
            Box::new(l)
        }
        "identity" => Box::new(Identity::new()),
        k => panic!("element kind {k}"),
    }
}

type L1 = Layered<B<Registry>, Registry>;
type L2 = Layered<B<L1>, L1>;
type L3 = Layered<B<L2>, L2>;
type L4 = Layered<B<L3>, L3>;

/// Counts the `enabled` passes the composed collector is asked for (finding F3 concerns exactly the emissions for which
/// no pass ran because the cached interest was `always`); forwards everything else untouched.
static TAP_ENABLED: std::sync::atomic::AtomicU64 = std::sync::atomic::AtomicU64::new(0);
struct Tap<C>(C);
impl<C: Collect> Collect for Tap<C> {
    fn on_register_dispatch(&self, d: &Dispatch) {
        self.0.on_register_dispatch(d)
    }
    fn register_callsite(&self, m: &'static Metadata<'static>) -> Interest {
        self.0.register_callsite(m)
    }
    fn enabled(&self, m: &Metadata<'_>) -> bool {
        TAP_ENABLED.fetch_add(1, std::sync::atomic::Ordering::SeqCst);
        self.0.enabled(m)
    }
    fn max_level_hint(&self) -> Option<LevelFilter> {
        self.0.max_level_hint()
    }
    fn new_span(&self, a: &span::Attributes<'_>) -> span::Id {
        self.0.new_span(a)
    }
    fn record(&self, s: &span::Id, v: &span::Record<'_>) {
        self.0.record(s, v)
    }
    fn record_follows_from(&self, s: &span::Id, f: &span::Id) {
        self.0.record_follows_from(s, f)
    }
    fn event_enabled(&self, e: &Event<'_>) -> bool {
        self.0.event_enabled(e)
    }
    fn event(&self, e: &Event<'_>) {
        self.0.event(e)
    }
    fn enter(&self, s: &span::Id) {
        self.0.enter(s)
    }
    fn exit(&self, s: &span::Id) {
        self.0.exit(s)
    }
    fn clone_span(&self, s: &span::Id) -> span::Id {
        self.0.clone_span(s)
    }
    fn try_close(&self, s: span::Id) -> bool {
        self.0.try_close(s)
    }
    #[allow(deprecated)]
    fn drop_span(&self, s: span::Id) {
        self.0.drop_span(s)
    }
    fn current_span(&self) -> span::Current {
        self.0.current_span()
    }
    unsafe fn downcast_raw(&self, id: std::any::TypeId) -> Option<std::ptr::NonNull<()>> {
        self.0.downcast_raw(id)
    }
}

fn rank_of_filter(f: &LevelFilter) -> u64 {
    [LevelFilter::OFF, LevelFilter::ERROR, LevelFilter::WARN, LevelFilter::INFO, LevelFilter::DEBUG, LevelFilter::TRACE].iter().position(|x| x == f).unwrap() as u64
}

fn finish<C: Collect + Send + Sync + 'static>(c: C, wrap: &str, metas: &[&'static Metadata<'static>]) -> (Dispatch, Value) {
    // the summary the composed collector publishes (C08, whole-stack clause)
    let hint = hint_rank(c.max_level_hint());
    let cs: Vec<Value> = metas.iter().map(|m| json!({"m": meta_json(m), "cs": interest_name(&c.register_callsite(m))})).collect();
    let c = Tap(c);
    let d = match wrap {
        "box" => Dispatch::new(Box::new(c) as Box<dyn Collect + Send + Sync>),
        "arc" => Dispatch::new(Arc::new(c) as Arc<dyn Collect + Send + Sync>),
        "boxbox" => Dispatch::new(Box::new(Box::new(c) as Box<dyn Collect + Send + Sync>)),
        // a collector that lives for the whole process, installed through the other constructor
        "static" => Dispatch::from_static(Box::leak(Box::new(c))),
        _ => Dispatch::new(c),
    };
    (d, json!({"hint": hint, "cs": cs}))
}

fn build_stack(elems: &[Value], env: &Env, wrap: &str, metas: &[&'static Metadata<'static>]) -> (Dispatch, Value) {
    let r = tracing_subscriber::registry;
    match elems.len() {
        0 => finish(r(), wrap, metas),
        1 => finish(r().with(mk::<Registry>(&elems[0], env)), wrap, metas),
        2 => finish(r().with(mk::<Registry>(&elems[0], env)).with(mk::<L1>(&elems[1], env)), wrap, metas),
        3 => finish(r().with(mk::<Registry>(&elems[0], env)).with(mk::<L1>(&elems[1], env)).with(mk::<L2>(&elems[2], env)), wrap, metas),
        4 => finish(
            r().with(mk::<Registry>(&elems[0], env)).with(mk::<L1>(&elems[1], env)).with(mk::<L2>(&elems[2], env)).with(mk::<L3>(&elems[3], env)),
            wrap,
            metas,
        ),
        5 => finish(
            r().with(mk::<Registry>(&elems[0], env))
                .with(mk::<L1>(&elems[1], env))
                .with(mk::<L2>(&elems[2], env))
                .with(mk::<L3>(&elems[3], env))
                .with(mk::<L4>(&elems[4], env)),
            wrap,
            metas,
        ),
        n => panic!("stack depth {n} not supported"),
    }
}

struct Ctx {
    default: Option<dispatch::DefaultGuard>,
    entered: Vec<(u64, span::Id, Dispatch)>,
}

fn child() {
    vh_common::quiet_panics();
    let beh = runner::child_input();
    let log = new_log();
    let env = Env { log: log.clone(), log_reg: beh["log_reg"].as_bool().unwrap_or(false), holds: Default::default(), swaps: Default::default() };
    let elems: Vec<Value> = beh["stack"].as_array().unwrap().clone();
    let wrap = beh["cwrap"].as_str().unwrap_or("").to_string();
    // the metadata universe for the stack summary: collected from the real callsites by a throw-away collector
    let metas: Vec<&'static Metadata<'static>> = collect_metas();
    set_flags(&json!([]));
    // a bystander: another collector that is alive (created earlier, so asked first) while the stack is built and used; it
    // accepts nothing, says so in its hint, and answers `sometimes` for every callsite
    let _bystander = if beh["bystander"].as_bool().unwrap_or(false) { Some(Dispatch::new(Bystander)) } else { None };
    let (d, summary) = match vh_common::catch(|| build_stack(&elems, &env, &wrap, &metas)) {
        Ok(x) => x,
        Err(e) => {
            runner::child_emit(json!({"ev": "op", "op": "build", "t": 1, "panic": e, "obs": []}));
            return;
        }
    };
    let reg_calls = drain(&log);
    // creating the Dispatch re-registers every known callsite with the new collector (after on_register_dispatch): those passes
    let last_rd = reg_calls.iter().filter(|c| c["cb"] == "register_dispatch").map(|c| c["seq"].as_u64().unwrap_or(0)).max();
    let build_regs: Vec<Value> = reg_calls
        .iter()
        .filter(|c| c["cb"] == "register_callsite" && last_rd.map(|x| c["seq"].as_u64().unwrap_or(0) > x).unwrap_or(false))
        .map(|c| json!({"cb": c["cb"], "m": c["m"], "L": c["L"]}))
        .collect();
    runner::child_emit(json!({"ev": "op", "op": "build", "t": 1, "summary": summary, "regs": build_regs, "log_reg": env.log_reg, "bystander": beh["bystander"].as_bool().unwrap_or(false),
        "obs": reg_calls.iter().filter(|c| c["cb"] == "register_dispatch").cloned().collect::<Vec<_>>()}));
    let spans: Arc<Mutex<HashMap<u64, Span>>> = Arc::new(Mutex::new(HashMap::new()));
    let mut ws: Workers<Ctx> = Workers::new(|| Ctx { default: None, entered: vec![] });
    let mut serial = 0u64;
    for step in beh["steps"].as_array().unwrap() {
        let mut o = step.clone();
        o["ev"] = json!("op");
        let op = step["op"].as_str().unwrap().to_string();
        let t = step["t"].as_u64().unwrap_or(1);
        let g = |k: &str| step[k].as_u64().unwrap_or(0);
        let (lvl, tgt) = (step["m"]["lvl"].as_u64().unwrap_or(0), step["m"]["tgt"].as_str().unwrap_or("").to_string());
        let (s, p) = (g("s"), g("p"));
        let pk = step["pk"].as_str().unwrap_or("ctx").to_string();
        drain(&log);
        let dd = d.clone();
        let sp2 = spans.clone();
        // every thread runs under the stack as its scoped default
        let res: Result<Value, String> = match op.as_str() {
            "setflag" => {
                set_flags(&step["ctx"]);
                Ok(json!(0))
            }
            "rebuild" => {
                tracing_core::callsite::rebuild_interest_cache();
                Ok(json!(0))
            }
            "swap" => {
                let f = env.swaps.lock().unwrap().get(&step["id"].as_u64().unwrap()).cloned().expect("swap: no such element");
                let on = step["on"].as_bool().unwrap();
                vh_common::catch(move || {
                    f(on);
                    json!(0)
                })
            }
            "event" => ws.run(t, move |c| {
                if c.default.is_none() {
                    c.default = Some(dispatch::set_default(&dd));
                }
                if pk == "of" {
                    let par = sp2.lock().unwrap().get(&p).cloned().expect("event parent");
                    pool::emit_event_child(lvl, &tgt, &par);
                } else {
                    pool::emit_event(lvl, &tgt);
                }
                json!(0)
            }),
            "probe" => ws.run(t, move |c| {
                if c.default.is_none() {
                    c.default = Some(dispatch::set_default(&dd));
                }
                json!(pool::probe(lvl, &tgt))
            }),
            "new" => {
                serial += 1;
                let ser = serial;
                ws.run(t, move |c| {
                    if c.default.is_none() {
                        c.default = Some(dispatch::set_default(&dd));
                    }
                    let sp = pool::emit_span(lvl, &tgt, ser);
                    let exists = !sp.is_disabled();
                    sp2.lock().unwrap().insert(ser, sp);
                    json!(exists)
                })
            }
            "enter" => ws.run(t, move |c| {
                if c.default.is_none() {
                    c.default = Some(dispatch::set_default(&dd));
                }
                let h = sp2.lock().unwrap().get(&s).cloned().expect("enter: no span");
                let saved = h.with_collector(|(id, d)| {
                    d.enter(id);
                    (id.clone(), d.clone())
                });
                drop(h);
                if let Some((id, d)) = saved {
                    c.entered.push((s, id, d));
                }
                json!(0)
            }),
            "exit" => ws.run(t, move |c| {
                if c.default.is_none() {
                    c.default = Some(dispatch::set_default(&dd));
                }
                if let Some(i) = c.entered.iter().rposition(|e| e.0 == s) {
                    let (_, id, d) = c.entered.remove(i);
                    d.exit(&id);
                }
                json!(0)
            }),
            "record" => ws.run(t, move |c| {
                if c.default.is_none() {
                    c.default = Some(dispatch::set_default(&dd));
                }
                let m = sp2.lock().unwrap();
                m.get(&s).expect("record: no span").record("k", 1000 + s);
                json!(0)
            }),
            "follows" => ws.run(t, move |c| {
                if c.default.is_none() {
                    c.default = Some(dispatch::set_default(&dd));
                }
                let m = sp2.lock().unwrap();
                let (a, b) = (m.get(&s).expect("follows").clone(), m.get(&p).expect("follows from").clone());
                drop(m);
                a.follows_from(&b);
                json!(0)
            }),
            "drop" => {
                let raw = step["raw"].as_str().map(|x| x.to_string());
                let job = move |c: &mut Ctx| {
                    if c.default.is_none() {
                        c.default = Some(dispatch::set_default(&dd));
                    }
                    let h = sp2.lock().unwrap().remove(&s);
                    match (h, raw.as_deref()) {
                        // a raw reference taken with clone_span outlives the handle and is given back without a `Span`
                        (Some(h), Some(how)) => {
                            let r = h.with_collector(|(id, d)| (d.clone_span(id), d.clone()));
                            drop(h);
                            if let Some((id, d)) = r {
                                if how == "drop_span" {
                                    #[allow(deprecated)]
                                    d.drop_span(id);
                                } else {
                                    d.try_close(id);
                                }
                            }
                        }
                        (h, _) => drop(h),
                    }
                    json!(0)
                };
                match step["during_modify"].as_u64().and_then(|id| env.holds.lock().unwrap().get(&id).cloned()) {
                    // the span closes while another thread is inside Handle::modify of a reload element (write lock held):
                    // the close must wait for the lock and still reach the layer behind the handle
                    Some(hold) => {
                        let gate = Arc::new(HoldGate::new());
                        let g2 = gate.clone();
                        let th = std::thread::spawn(move || hold(&g2));
                        gate.wait_parked();
                        let rx = ws.spawn(t, job);
                        std::thread::sleep(std::time::Duration::from_millis(3));
                        gate.release();
                        let _ = th.join();
                        rx.recv().unwrap_or_else(|_| Err("worker died".into()))
                    }
                    None => ws.run(t, job),
                }
            }
            o => panic!("op {o}"),
        };
        // did the composed collector run an `enabled` pass during this operation?
        o["pass"] = json!(TAP_ENABLED.swap(0, std::sync::atomic::Ordering::SeqCst) > 0);
        let mut calls = drain(&log);
        calls.sort_by_key(|c| c["seq"].as_u64().unwrap_or(0));
        for c in calls.iter_mut() {
            c.as_object_mut().unwrap().remove("seq");
        }
        if op != "rebuild" && op != "new" && op != "event" && op != "probe" {
            calls.retain(|c| c["cb"] != "register_callsite");
        }
        // first hits register callsites: those registrations are reported separately from the notification itself
        let regs: Vec<Value> = calls.iter().filter(|c| c["cb"] == "register_callsite").cloned().collect();
        calls.retain(|c| c["cb"] != "register_callsite");
        o["obs"] = json!(calls);
        o["regs"] = json!(regs);
        if op == "swap" {
            // what the stack publishes now (this process has no other dispatcher: the global maximum is this stack's hint)
            o["summary"] = json!({"hint": rank_of_filter(&LevelFilter::current()),
                "cs": metas.iter().map(|m| json!({"m": meta_json(m), "cs": "sometimes"})).collect::<Vec<_>>()});
        }
        match res {
            Ok(v) => {
                if op == "new" {
                    o["exists"] = v;
                    o["serial"] = json!(serial);
                } else if op == "probe" {
                    o["ret"] = v;
                }
            }
            Err(e) => o["panic"] = json!(e),
        }
        runner::child_emit(o);
    }
    std::process::exit(0);
}

struct Bystander;
impl Collect for Bystander {
    fn register_callsite(&self, _: &'static Metadata<'static>) -> Interest {
        Interest::sometimes()
    }
    fn enabled(&self, _: &Metadata<'_>) -> bool {
        false
    }
    fn max_level_hint(&self) -> Option<LevelFilter> {
        Some(LevelFilter::OFF)
    }
    fn new_span(&self, _: &span::Attributes<'_>) -> span::Id {
        span::Id::from_u64(1)
    }
    fn record(&self, _: &span::Id, _: &span::Record<'_>) {}
    fn record_follows_from(&self, _: &span::Id, _: &span::Id) {}
    fn event(&self, _: &Event<'_>) {}
    fn enter(&self, _: &span::Id) {}
    fn exit(&self, _: &span::Id) {}
    fn current_span(&self) -> span::Current {
        span::Current::none()
    }
}

/// every metadata of the callsite pool, obtained by letting a collector see all registrations
fn collect_metas() -> Vec<&'static Metadata<'static>> {
    struct Grab(Mutex<Vec<&'static Metadata<'static>>>);
    impl Collect for Grab {
        fn register_callsite(&self, m: &'static Metadata<'static>) -> Interest {
            self.0.lock().unwrap().push(m);
            Interest::never()
        }
        fn enabled(&self, _: &Metadata<'_>) -> bool {
            false
        }
        fn max_level_hint(&self) -> Option<LevelFilter> {
            Some(LevelFilter::TRACE)
        }
        fn new_span(&self, _: &span::Attributes<'_>) -> span::Id {
            span::Id::from_u64(1)
        }
        fn record(&self, _: &span::Id, _: &span::Record<'_>) {}
        fn record_follows_from(&self, _: &span::Id, _: &span::Id) {}
        fn event(&self, _: &Event<'_>) {}
        fn enter(&self, _: &span::Id) {}
        fn exit(&self, _: &span::Id) {}
        fn current_span(&self) -> span::Current {
            span::Current::none()
        }
    }
    let g = Arc::new(Grab(Mutex::new(vec![])));
    let d = Dispatch::new(g.clone());
    dispatch::with_default(&d, || {
        for lvl in 1..=5u64 {
            for tgt in pool::TARGETS {
                pool::emit_event(lvl, tgt);
                drop(pool::emit_span(lvl, tgt, 0));
            }
        }
    });
    drop(d);
    let v = g.0.lock().unwrap().clone();
    v
}

fn main() {
    if runner::is_child() {
        child();
    } else {
        runner::run_all(|i, b| json!({"ev": "reset", "beh": i, "flat": b["flat"], "src": b["src"]}));
    }
}
