//! A recording `Collect` with a configurable own filter (the filter record of spec/Dispatch) and
//! its own span reference counting. Every trait call is appended to a shared log as a JSON value.
use serde_json::{json, Value};
use std::cell::Cell;
use std::collections::HashMap;
use std::sync::atomic::{AtomicBool, AtomicU64, Ordering};
use std::sync::{Arc, Mutex};
use tracing_core::{collect::Interest, span, Collect, Event, Level, LevelFilter, Metadata};

thread_local! {
    /// harness-level thread number of the current OS thread (0 = main)
    pub static VT: Cell<u64> = Cell::new(0);
}
pub fn vt() -> u64 {
    VT.with(|v| v.get())
}

pub fn rank(l: &Level) -> u64 {
    if *l == Level::ERROR {
        1
    } else if *l == Level::WARN {
        2
    } else if *l == Level::INFO {
        3
    } else if *l == Level::DEBUG {
        4
    } else {
        5
    }
}
pub fn filter_of_rank(r: u64) -> LevelFilter {
    match r {
        0 => LevelFilter::OFF,
        1 => LevelFilter::ERROR,
        2 => LevelFilter::WARN,
        3 => LevelFilter::INFO,
        4 => LevelFilter::DEBUG,
        _ => LevelFilter::TRACE,
    }
}
pub fn rank_of_filter(f: &LevelFilter) -> u64 {
    match f.into_level() {
        None => 0,
        Some(l) => rank(&l),
    }
}

#[derive(Clone, Debug)]
pub struct FilterRec {
    pub thr: u64,
    pub tgts: Vec<String>,
    pub kind: String, // static | dyn | lazy
    pub hint: Option<u64>,
}
impl FilterRec {
    pub fn from_json(v: &Value) -> FilterRec {
        FilterRec {
            thr: v["thr"].as_u64().unwrap(),
            tgts: v["tgts"].as_array().map(|a| a.iter().map(|x| x.as_str().unwrap().to_string()).collect()).unwrap_or_default(),
            kind: v["kind"].as_str().unwrap().to_string(),
            hint: match v["hint"].as_u64() {
                Some(h) if h <= 5 => Some(h),
                _ => None,
            },
        }
    }
    pub fn accept_all() -> FilterRec {
        FilterRec { thr: 5, tgts: vec![], kind: "all".into(), hint: None }
    }
    fn static_part(&self, m: &Metadata<'_>) -> bool {
        self.kind == "all" || (rank(m.level()) <= self.thr && self.tgts.iter().any(|t| t == m.target()))
    }
}

pub type Log = Arc<Mutex<Vec<Value>>>;
pub fn new_log() -> Log {
    Arc::new(Mutex::new(Vec::new()))
}
pub fn drain(log: &Log) -> Vec<Value> {
    std::mem::take(&mut *log.lock().unwrap_or_else(|e| e.into_inner()))
}

struct SpanData {
    refs: usize,
    meta: &'static Metadata<'static>,
}

pub struct RecCollector {
    pub id: u64,
    pub filter: FilterRec,
    pub flag: Arc<AtomicBool>,
    pub log: Log,
    next: AtomicU64,
    spans: Mutex<HashMap<u64, SpanData>>,
    stacks: Mutex<HashMap<u64, Vec<u64>>>, // harness thread -> entered span ids
    pub log_filtering: bool,              // also log register_callsite / enabled calls
    /// `clone_span` hands out a fresh id for the new handle (legal per the `Collect` docs); all ids
    /// of one span share its reference count
    pub alias_on_clone: bool,
    /// hand tracing small ids that OVERLAP between collectors (1, 2, ...) as real collectors do; the log keeps the
    /// composite id (collector * 1000 + n)
    pub raw_ids: bool,
    /// 99 = publish the filter's own hint; 0..=5 = publish that level as max-level hint (changed by the harness mid-history)
    pub hint_cell: Arc<std::sync::atomic::AtomicU64>,
    aliases: Mutex<HashMap<u64, u64>>, // handle id -> root span id
    /// called when the collector is destroyed on a harness worker thread (a collector that emits while it is dropped)
    pub drop_hook: Option<fn()>,
    /// called from inside `event` when the harness armed REENTER
    pub reenter_hook: Option<fn()>,
}

/// armed by the harness: the next `event` callback of a RecCollector with a `reenter_hook` calls it (a re-entrant emission)
pub static REENTER: AtomicBool = AtomicBool::new(false);
/// armed by the harness: the next `event` callback of any RecCollector panics after logging
pub static BOOM: AtomicBool = AtomicBool::new(false);
/// how often a `drop_hook` ran
pub static DROP_HOOKS: AtomicU64 = AtomicU64::new(0);
impl Drop for RecCollector {
    fn drop(&mut self) {
        if let Some(h) = self.drop_hook {
            if vt() != 0 {
                DROP_HOOKS.fetch_add(1, Ordering::SeqCst);
                h();
            }
        }
    }
}

impl RecCollector {
    pub fn new(id: u64, filter: FilterRec, log: Log) -> (RecCollector, Arc<AtomicBool>) {
        let flag = Arc::new(AtomicBool::new(true));
        (
            RecCollector {
                id,
                filter,
                flag: flag.clone(),
                log,
                // distinct id ranges per collector make a call routed to the wrong collector visible
                next: AtomicU64::new(id * 1000 + 1),
                spans: Mutex::new(HashMap::new()),
                stacks: Mutex::new(HashMap::new()),
                log_filtering: false,
                alias_on_clone: false,
                raw_ids: false,
                hint_cell: Arc::new(std::sync::atomic::AtomicU64::new(99)),
                aliases: Mutex::new(HashMap::new()),
                drop_hook: None,
                reenter_hook: None,
            },
            flag,
        )
    }
    /// composite id -> the Id given to tracing
    fn out_id(&self, c: u64) -> span::Id {
        span::Id::from_u64(if self.raw_ids { c - self.id * 1000 } else { c })
    }
    /// an Id received from tracing -> composite id
    fn in_id(&self, id: &span::Id) -> u64 {
        if self.raw_ids {
            id.into_u64() + self.id * 1000
        } else {
            id.into_u64()
        }
    }
    pub fn composite(&self, raw: u64) -> u64 {
        if self.raw_ids {
            raw + self.id * 1000
        } else {
            raw
        }
    }
    fn root(&self, id: u64) -> u64 {
        self.aliases.lock().unwrap().get(&id).copied().unwrap_or(id)
    }
    fn push(&self, v: Value) {
        self.log.lock().unwrap_or_else(|e| e.into_inner()).push(v);
    }
}

impl Collect for RecCollector {
    fn register_callsite(&self, m: &'static Metadata<'static>) -> Interest {
        let i = match self.filter.kind.as_str() {
            "all" => Interest::always(),
            "static" => {
                if self.filter.static_part(m) {
                    Interest::always()
                } else {
                    Interest::never()
                }
            }
            // a switchable collector: while it is off it wants nothing, while on it is a static filter; whoever flips it
            // calls rebuild_interest_cache() afterwards, as the documentation demands
            "sw" => {
                if self.filter.static_part(m) && self.flag.load(Ordering::SeqCst) {
                    Interest::always()
                } else {
                    Interest::never()
                }
            }
            "dyn" => {
                if self.filter.static_part(m) {
                    Interest::sometimes()
                } else {
                    Interest::never()
                }
            }
            _ => Interest::sometimes(),
        };
        if self.log_filtering {
            self.push(json!({"col": self.id, "call": "register_callsite", "lvl": rank(m.level()), "tgt": m.target(), "name": m.name()}));
        }
        i
    }
    fn enabled(&self, m: &Metadata<'_>) -> bool {
        let r = self.filter.static_part(m)
            && (self.filter.kind == "static" || self.filter.kind == "all" || self.flag.load(Ordering::SeqCst));
        if self.log_filtering {
            self.push(json!({"col": self.id, "call": "enabled", "lvl": rank(m.level()), "tgt": m.target(), "res": r}));
        }
        r
    }
    fn max_level_hint(&self) -> Option<LevelFilter> {
        if self.filter.kind == "sw" && !self.flag.load(Ordering::SeqCst) {
            return Some(LevelFilter::OFF);
        }
        match self.hint_cell.load(Ordering::SeqCst) {
            99 => self.filter.hint.map(filter_of_rank),
            r => Some(filter_of_rank(r)),
        }
    }
    fn new_span(&self, a: &span::Attributes<'_>) -> span::Id {
        let id = self.next.fetch_add(1, Ordering::SeqCst);
        let m = a.metadata();
        self.spans.lock().unwrap().insert(id, SpanData { refs: 1, meta: m });
        let parent = if a.is_root() {
            json!("root")
        } else if let Some(p) = a.parent() {
            json!(self.in_id(p))
        } else {
            json!("ctx")
        };
        self.push(json!({"col": self.id, "call": "new_span", "id": id, "lvl": rank(m.level()), "tgt": m.target(), "name": m.name(), "parent": parent, "th": vt()}));
        self.out_id(id)
    }
    fn record(&self, id: &span::Id, _: &span::Record<'_>) {
        self.push(json!({"col": self.id, "call": "record", "id": self.in_id(&id), "th": vt()}));
    }
    fn record_follows_from(&self, id: &span::Id, f: &span::Id) {
        self.push(json!({"col": self.id, "call": "follows_from", "id": self.in_id(id), "from": self.in_id(f), "th": vt()}));
    }
    fn event(&self, e: &Event<'_>) {
        let m = e.metadata();
        self.push(json!({"col": self.id, "call": "event", "lvl": rank(m.level()), "tgt": m.target(), "name": m.name(), "th": vt()}));
        // a collector that itself emits from inside its callback (once, when the harness arms it)
        if REENTER.swap(false, Ordering::SeqCst) {
            if let Some(h) = self.reenter_hook {
                h();
            }
        }
        // a collector whose callback panics (once, when the harness arms it); the panic is caught by the emitting code
        if BOOM.swap(false, Ordering::SeqCst) {
            panic!("collector callback panics");
        }
    }
    fn enter(&self, id: &span::Id) {
        self.stacks.lock().unwrap().entry(vt()).or_default().push(self.in_id(&id));
        self.push(json!({"col": self.id, "call": "enter", "id": self.in_id(&id), "th": vt()}));
    }
    fn exit(&self, id: &span::Id) {
        let mut st = self.stacks.lock().unwrap();
        let s = st.entry(vt()).or_default();
        if let Some(pos) = s.iter().rposition(|x| *x == self.in_id(&id)) {
            s.remove(pos);
        }
        drop(st);
        self.push(json!({"col": self.id, "call": "exit", "id": self.in_id(&id), "th": vt()}));
    }
    fn clone_span(&self, id: &span::Id) -> span::Id {
        let root = self.root(self.in_id(&id));
        let known = {
            let mut sp = self.spans.lock().unwrap();
            match sp.get_mut(&root) {
                Some(d) => {
                    d.refs += 1;
                    true
                }
                None => false,
            }
        };
        let ret = if self.alias_on_clone && known {
            let n = self.next.fetch_add(1, Ordering::SeqCst);
            self.aliases.lock().unwrap().insert(n, root);
            n
        } else {
            self.in_id(&id)
        };
        self.push(json!({"col": self.id, "call": "clone_span", "id": self.in_id(&id), "ret": ret, "known": known, "th": vt()}));
        self.out_id(ret)
    }
    fn try_close(&self, id: span::Id) -> bool {
        let root = self.root(self.in_id(&id));
        let (known, closed) = {
            let mut sp = self.spans.lock().unwrap();
            match sp.get_mut(&root) {
                Some(d) => {
                    d.refs -= 1;
                    if d.refs == 0 {
                        sp.remove(&root);
                        (true, true)
                    } else {
                        (true, false)
                    }
                }
                None => (false, false),
            }
        };
        self.push(json!({"col": self.id, "call": "try_close", "id": self.in_id(&id), "known": known, "closed": closed, "th": vt()}));
        closed
    }
    fn current_span(&self) -> span::Current {
        let top = self.stacks.lock().unwrap().get(&vt()).and_then(|s| s.last().copied());
        match top {
            Some(id) => match self.spans.lock().unwrap().get(&self.root(id)) {
                Some(d) => span::Current::new(self.out_id(id), d.meta),
                None => span::Current::none(),
            },
            None => span::Current::none(),
        }
    }
}
